#!/bin/bash
cat > /tmp/pn/lazy/linked.ll
exit 0
