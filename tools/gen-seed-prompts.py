"""Writes /tmp/agent11-cNN.txt: the task text for a fresh seeding sub-agent per property (property text + anchors, the
earlier seeds as "already tried" sites; nothing else from /verif).  The template is the round-5 prompt of C11."""
import json, re, os, glob, sys
R = os.environ.get('ROUND', '12')
props = {json.loads(l)['id']: json.loads(l) for l in open('/verif/properties.jsonl')}
seeds = []
for d in sorted(glob.glob('/verif/seeded/*/')):
    name = os.path.basename(d.rstrip('/'))
    if not os.path.exists(d + 'patch.diff') or not os.path.exists(d + 'meta.json'):
        continue
    meta = json.load(open(d + 'meta.json'))
    diff = open(d + 'patch.diff').read()
    files = re.findall(r'^\+\+\+ b/(\S+)', diff, re.M)
    hunks = re.findall(r'^@@ [^@]*@@ ?(.*)$', diff, re.M)
    site = "%s near `%s`" % (files[0] if files else '?', (hunks[0] if hunks else '').strip()[:70])
    seeds.append((name, meta['breaks_property'], site, meta['what_it_needs_to_manifest']))
template = open(os.path.join(os.path.dirname(os.path.abspath(__file__)), 'seed-prompt-template.txt')).read()
head = template[:template.index('THE PROPERTY')]
tail_start = template.index('YOUR TASK:')
tail_end = template.index('ALREADY TRIED')
task = template[tail_start:tail_end]
end = template[template.index('WHEN DONE'):]
for pid, p in props.items():
    n = pid[1:]
    wt = '/tmp/wt%s-c%%s' % (R, n) if False else '/tmp/wt'+R+'-c%s' % n
    def fix(t):
        return t.replace('/tmp/wt5-c11', wt).replace('seed5-c11', 'seed'+R+'-c%s' % n)
    own = [s for s in seeds if s[1] == pid]
    other = [s for s in seeds if s[1] != pid]
    txt = fix(head)
    txt += "THE PROPERTY (this is everything you are told about what must hold):\n-----\n%s — %s\n\n%s\n\nAnchors: %s\n\n-----\n\n" % (pid, p['title'], p['statement'], json.dumps(p['anchors'], indent=1))
    txt += fix(task)
    txt += "ALREADY TRIED by earlier testers for this property (do NOT repeat these; pick a mechanism from the property's anchor list that none of them touched, or a clause of the statement none of them attacked; changes that need TWO cooperating edits, that alter shared helper code used by several stages, that live in a file the anchors do not even name but the property depends on, or that only show with several modules / unusual option combinations are especially welcome):\n"
    for s in own:
        txt += "  - %s (%s): needs %s\n" % (s[0], s[2], s[3])
    txt += "Sites used for other properties (avoid these too): " + "; ".join("%s (%s)" % (s[0], s[2]) for s in other) + "\n\n"
    txt += fix(end)
    open('/tmp/agent'+R+'-c%s.txt' % n, 'w').write(txt)
print('ok')
