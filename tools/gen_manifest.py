#!/usr/bin/env python3
"""Regenerate MANIFEST.json from the property modules present under props/."""
import importlib
import json
import os
import sys
HERE = os.path.dirname(os.path.dirname(os.path.abspath(__file__)))
sys.path.insert(0, HERE)

ALL = ["C%02d" % i for i in range(1, 21)]
NA_REASONS = {}

checks = []
na = []
for pid in ALL:
    try:
        mod = importlib.import_module("props.%s" % pid.lower())
    except ModuleNotFoundError:
        na.append({"property_id": pid, "reason": NA_REASONS.get(pid, "no static check built yet in this session (planned rules: DESIGN.md section 4 %s)" % pid)})
        continue
    checks.append({
        "property_id": pid,
        "quick_cmd": "./check %s --tier quick" % pid,
        "thorough_cmd": "./check %s --tier thorough" % pid,
        "evidence_file": "/verif/evidence/%s.json" % pid,
        "replay_cmd_template": "./check %s --replay {path}" % pid,
        "engine": "pennefacts+rules",
        "level_claimed": {
            "category": getattr(mod, "LEVEL", "other"),
            "text": mod.EXPLANATION,
            "design_ref": "DESIGN.md section 4, %s" % pid,
        },
        "level_note": getattr(mod, "NOTE", "Trusted: rustc nightly's HIR/typeck/MIR for the two build configurations, the pennefacts "
                              "driver's extraction, the Python rule engine, the reference tables and reviewed exception lists in "
                              "/verif/props. Decides the named structural clauses (necessary conditions), not the input/output behaviour."),
        "technique": getattr(mod, "TECHNIQUE", "static analysis: custom rustc_private driver (resolved HIR + MIR CFG) with repository-specific rules"),
    })

manifest = {
    "version": 1,
    "setup_cmd": "/verif/bin/setup",
    "hooks": {
        "guard": "none (static analysis reads /repo's source as is; no hooks or instrumentation were added)",
        "enable": "not applicable: checks run `cargo +nightly check` on /repo's working tree through the pennefacts RUSTC_WORKSPACE_WRAPPER (cfg A: default features; cfg B: --features alpha,llvm-sys with tools/llvm-shim on PATH)",
        "baseline_off_cmd": "cd /repo && cargo test --workspace --no-fail-fast --offline",
        "source_commits": [],
        "add_only": True,
    },
    "engines": [
        {"name": "pennefacts", "path": "/verif/driver", "serves_properties": [c["property_id"] for c in checks],
         "kind_free_text": "rustc_private driver (nightly) dumping name-resolved, type-checked HIR and MIR control-flow graphs of the penne lib and bin crates as JSON facts; executes no penne code"},
        {"name": "rules", "path": "/verif/rules", "serves_properties": [c["property_id"] for c in checks],
         "kind_free_text": "Python rule engine: decision-table extraction, visitor completeness, who-may-call, dominator/pass-through rules, interprocedural path-balance (longest/shortest weighted path with callee summaries), panic-site inventory, recursion-guard and ARGS-COVERED rules"},
    ],
    "checks": checks,
    "not_applicable": na,
    "notes": "One entry point: ./check <ID> [--tier quick|thorough] [--replay path]. exit 0 = all obligations hold (KNOWN-FINDING lines for entries of known_findings.json); exit 1 = VIOLATION lines; exit 2 = ANCHOR-MISSING/CANNOT-ANALYSE (check blind, nothing claimed). Facts are re-extracted whenever /repo's sources change (content hash).",
}
with open(os.path.join(HERE, "MANIFEST.json"), "w") as fh:
    json.dump(manifest, fh, indent=1)
print("claimed:", [c["property_id"] for c in checks])
print("not applicable:", [x["property_id"] for x in na])
