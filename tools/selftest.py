#!/usr/bin/env python3
"""Both-ways validation of the checkers: apply a group of small, compiling
mutations (selftest/mutants.json) to a scratch copy of /repo outside /repo and
/verif, run the named checks against the copy (PENNE_REPO), and require each
mutation's expected rule to be reported.  Also supports benign edits that must
stay silent.  The scratch copy is removed afterwards.

usage: tools/selftest.py [group ...]      (default: all groups)
"""
import json
import os
import shutil
import subprocess
import sys
import tempfile

HERE = os.path.dirname(os.path.dirname(os.path.abspath(__file__)))


def main():
    spec = json.load(open(os.path.join(HERE, "selftest", "mutants.json")))
    want = sys.argv[1:]
    failures = 0
    for group in spec["groups"]:
        if want and group["name"] not in want:
            continue
        scratch = tempfile.mkdtemp(prefix="penne-selftest-")
        try:
            subprocess.check_call(["rsync", "-a", "--exclude", "target", "--exclude", ".git", "/repo/", scratch + "/"])
            for m in group["mutants"]:
                p = os.path.join(scratch, m["file"])
                s = open(p).read()
                if s.count(m["old"]) != m.get("count", 1):
                    print("SELFTEST-BROKEN %s/%s: pattern occurs %d times in %s" % (group["name"], m["name"], s.count(m["old"]), m["file"]))
                    failures += 1
                    continue
                s = s.replace(m["old"], m["new"])
                open(p, "w").write(s)
            props = sorted(set(p for m in group["mutants"] for p in m["expect"]))
            env = dict(os.environ, PENNE_REPO=scratch, VERIF_NO_EVIDENCE="1")
            outputs = {}
            for prop in props:
                r = subprocess.run([os.path.join(HERE, "check"), prop, "--tier", group.get("tier", "quick")],
                                   env=env, capture_output=True, text=True, cwd=HERE)
                outputs[prop] = (r.returncode, r.stdout + r.stderr)
            for m in group["mutants"]:
                for prop, rules in m["expect"].items():
                    rc, out = outputs[prop]
                    if not rules:
                        ok = rc == 0 and "VIOLATION" not in out
                        print("%s %s/%s: %s silent (benign edit)" % ("ok  " if ok else "FAIL", group["name"], m["name"], prop))
                        if not ok:
                            failures += 1
                            print(out[-1500:])
                        continue
                    for rule in rules:
                        hit = [l for l in out.splitlines() if rule in l and "violated" in l]
                        ok = rc == 1 and hit
                        print("%s %s/%s: %s reports %s" % ("ok  " if ok else "FAIL", group["name"], m["name"], prop, rule))
                        if not ok:
                            failures += 1
                            print("   rc=%s; last lines:\n   %s" % (rc, "\n   ".join(out.splitlines()[-6:])))
        finally:
            shutil.rmtree(scratch, ignore_errors=True)
            # evidence/replay written by these runs describe the scratch copy: restore from the real tree later
    print("selftest: %d failure(s)" % failures)
    return 1 if failures else 0


if __name__ == "__main__":
    sys.exit(main())
