#!/usr/bin/env python3
"""diff-to-mutants <worktree> <group-name> <expect-json>: turns the uncommitted edits of a scratch worktree of /repo into
old/new replacement entries for selftest/mutants.json: one entry per group of changed regions, widened until `old` is unique
in the original file; regions whose (widened) contexts would overlap are merged into one entry, so that the entries of a file
can be applied in any order."""
import difflib, json, subprocess, sys, os
wt, group, expect = sys.argv[1], sys.argv[2], json.loads(sys.argv[3])
files = subprocess.check_output(["git", "-C", wt, "diff", "--name-only"], text=True).split()
out = []
for f in files:
    old = subprocess.check_output(["git", "-C", wt, "show", "HEAD:" + f], text=True)
    new = open(os.path.join(wt, f)).read()
    a, b = old.splitlines(True), new.splitlines(True)
    sm = difflib.SequenceMatcher(None, a, b, autojunk=False)
    regions = [[i1, i2, j1, j2] for tag, i1, i2, j1, j2 in sm.get_opcodes() if tag != "equal"]
    while True:
        hunks = []
        for i1, i2, j1, j2 in regions:
            ctx = 1
            while True:
                lo, hi = max(0, i1 - ctx), min(len(a), i2 + ctx)
                o = "".join(a[lo:hi])
                if old.count(o) == 1 or ctx > 60:
                    break
                ctx += 1
            hunks.append((lo, hi))
        merged = False
        for k in range(len(regions) - 1):
            if hunks[k][1] > hunks[k + 1][0]:       # contexts overlap: make it one region
                r1, r2 = regions[k], regions[k + 1]
                regions[k:k + 2] = [[r1[0], r2[1], r1[2], r2[3]]]
                merged = True
                break
        if not merged:
            break
    for n, ((i1, i2, j1, j2), (lo, hi)) in enumerate(zip(regions, hunks), 1):
        o = "".join(a[lo:hi])
        nn = "".join(a[lo:i1]) + "".join(b[j1:j2]) + "".join(a[i2:hi])
        out.append({"name": "%s-%s-%d" % (group, os.path.basename(f).replace(".rs", ""), n), "file": f, "old": o, "new": nn, "expect": expect})
print(json.dumps({"name": group, "mutants": out}, indent=1))
