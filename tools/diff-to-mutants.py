#!/usr/bin/env python3
"""diff-to-mutants <worktree> <group-name> <expect-json>: turns the uncommitted edits of a scratch worktree of /repo into
old/new replacement entries for selftest/mutants.json (one entry per changed region, widened until `old` is unique)."""
import difflib, json, subprocess, sys, os
wt, group, expect = sys.argv[1], sys.argv[2], json.loads(sys.argv[3])
files = subprocess.check_output(["git", "-C", wt, "diff", "--name-only"], text=True).split()
out = []
for f in files:
    old = subprocess.check_output(["git", "-C", wt, "show", "HEAD:" + f], text=True)
    new = open(os.path.join(wt, f)).read()
    a, b = old.splitlines(True), new.splitlines(True)
    sm = difflib.SequenceMatcher(None, a, b, autojunk=False)
    n = 0
    for tag, i1, i2, j1, j2 in sm.get_opcodes():
        if tag == "equal":
            continue
        ctx = 1
        while True:
            o = "".join(a[max(0, i1 - ctx):i2 + ctx])
            if old.count(o) == 1 or ctx > 40:
                break
            ctx += 1
        nn = "".join(a[max(0, i1 - ctx):i1]) + "".join(b[j1:j2]) + "".join(a[i2:i2 + ctx])
        n += 1
        out.append({"name": "%s-%s-%d" % (group, os.path.basename(f).replace(".rs", ""), n), "file": f, "old": o, "new": nn, "expect": expect})
print(json.dumps({"name": group, "mutants": out}, indent=1))
