#!/usr/bin/env python3
"""Design-time helper: print the panic-site inventory of a function set so it
can be reviewed by reading and frozen under props/reviewed/.  Not a check."""
import json
import sys
import os
sys.path.insert(0, os.path.dirname(os.path.dirname(os.path.abspath(__file__))))
from rules.core import Facts
from rules import mirq, inventory

cfg, crate, out = sys.argv[1], sys.argv[2], sys.argv[3]
entries = sys.argv[4:]
F = Facts(cfg)
C = F.lib if crate == "lib" else F.bin
g = mirq.callgraph(C)
R = [r for r in mirq.reachable_fns(g, entries) if r in C.bodies]
sites, per_fn = inventory.collect(C, R)
old = {}
if os.path.exists(out):
    old = json.load(open(out))
res = {}
for k, lines in sorted(sites.items()):
    res[k] = {"count": len(lines), "reason": old.get(k, {}).get("reason", "TODO")}
json.dump(res, open(out, "w"), indent=1)
print(len(res), "keys,", sum(len(v) for v in sites.values()), "sites,", len(R), "functions")
