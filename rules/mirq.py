"""Queries over the MIR facts: CFGs, dominators, resolved call graph,
path-balance analysis."""
from .core import norm_path, AnchorMissing


def term_succs(t, with_unwind=False):
    k = t["k"]
    out = []
    if k == "Goto":
        out = [t["to"]]
    elif k == "Switch":
        out = [x[1] for x in t["targets"]] + [t["otherwise"]]
    elif k in ("Drop", "Assert"):
        out = [t["to"]]
    elif k == "Call":
        if t.get("to") is not None:
            out = [t["to"]]
    if with_unwind and t.get("unwind") is not None:
        out = out + [t["unwind"]]
    return out


def call_target(t):
    """Resolved callee of a MIR Call terminator (impl fn if resolvable)."""
    if t.get("k") != "Call":
        return None
    p = t.get("inst") or t.get("f")
    return norm_path(p) if p else None


def call_decl(t):
    if t.get("k") != "Call":
        return None
    p = t.get("f")
    return norm_path(p) if p else None


class CFG:
    def __init__(self, body):
        self.body = body
        mir = body.get("mir")
        if mir is None:
            raise AnchorMissing("no MIR for %s" % body["path"])
        self.mir = mir
        self.blocks = mir["blocks"]
        n = len(self.blocks)
        self.n = n
        self.succ = [[] for _ in range(n)]
        self.pred = [[] for _ in range(n)]
        for i, b in enumerate(self.blocks):
            if b.get("cleanup"):
                continue
            for s in term_succs(b["t"]):
                if s not in self.succ[i]:
                    self.succ[i].append(s)
                    self.pred[s].append(i)
        self.reach = self._reach(0)
        self._dom = None
        self._pdom = None

    def _reach(self, start):
        seen = {start}
        st = [start]
        while st:
            x = st.pop()
            for s in self.succ[x]:
                if s not in seen:
                    seen.add(s)
                    st.append(s)
        return seen

    def term(self, i):
        return self.blocks[i]["t"]

    def exits(self):
        return [i for i in self.reach if self.term(i)["k"] == "Return"]

    def dom(self):
        """dom[b] = set of blocks dominating b (iterative dataflow; small CFGs)."""
        if self._dom is not None:
            return self._dom
        nodes = sorted(self.reach)
        allset = set(nodes)
        dom = {b: set(allset) for b in nodes}
        dom[0] = {0}
        changed = True
        order = self.rpo()
        while changed:
            changed = False
            for b in order:
                if b == 0:
                    continue
                ps = [p for p in self.pred[b] if p in self.reach]
                if not ps:
                    continue
                new = set.intersection(*[dom[p] for p in ps]) | {b}
                if new != dom[b]:
                    dom[b] = new
                    changed = True
        self._dom = dom
        return dom

    def rpo(self):
        seen = set()
        order = []

        def dfs(start):
            stack = [(start, iter(self.succ[start]))]
            seen.add(start)
            while stack:
                node, it = stack[-1]
                adv = False
                for s in it:
                    if s not in seen:
                        seen.add(s)
                        stack.append((s, iter(self.succ[s])))
                        adv = True
                        break
                if not adv:
                    order.append(node)
                    stack.pop()
        dfs(0)
        order.reverse()
        return order

    def dominates(self, a, b):
        return a in self.dom()[b]

    def calls(self):
        """(block index, terminator) for reachable call terminators."""
        for i in sorted(self.reach):
            t = self.term(i)
            if t["k"] == "Call":
                yield i, t

    def reachable_from(self, starts, cut=None):
        """Blocks reachable from the successors of `starts` without passing blocks in cut."""
        cut = cut or set()
        seen = set()
        st = list(starts)
        while st:
            x = st.pop()
            if x in seen or x in cut:
                continue
            seen.add(x)
            st.extend(self.succ[x])
        return seen

    def back_edges(self):
        dom = self.dom()
        out = []
        for b in self.reach:
            for s in self.succ[b]:
                if s in dom[b]:
                    out.append((b, s))
        return out


def callgraph(crate, include_refs=True):
    """Resolved call graph over a Crate: path -> set(callee paths).
    Also edges to closures constructed and fn items mentioned as values."""
    g = {}
    for b in crate.bodies.values():
        mir = b.get("mir")
        if mir is None:
            continue
        out = set()
        for blk in mir["blocks"]:
            t = blk["t"]
            if t["k"] == "Call":
                c = call_target(t)
                if c:
                    out.add(c)
                d = call_decl(t)
                if d and d != c and t.get("inst") is None:
                    out.add(d)
                if include_refs:
                    for a in t.get("args", []):
                        if isinstance(a, dict) and "fn" in a:
                            out.add(norm_path(a["fn"]))
            if include_refs:
                for s in blk["s"]:
                    r = s.get("r", {})
                    if r.get("k") == "Agg" and "closure" in r:
                        out.add(norm_path(r["closure"]))
                    for key in ("a", "b"):
                        v = r.get(key)
                        if isinstance(v, dict) and "fn" in v:
                            out.add(norm_path(v["fn"]))
                    for v in r.get("ops", []) or []:
                        if isinstance(v, dict) and "fn" in v:
                            out.add(norm_path(v["fn"]))
        g[b["npath"]] = out
    # class-hierarchy fallback: a trait method called on a type parameter (inside generic impls such as
    # `impl<T: Resolvable> Resolvable for Vec<T>`) cannot be resolved to one instance; it may dispatch to every impl
    decl_impls = {}
    for b in crate.bodies.values():
        tr = b.get("impl_trait")
        if tr and "{closure" not in b["npath"] and norm_path(tr).startswith(("alpha::", "delta::", "penne::")):
            # (only traits of the analysed crate: their impls are all visible; std traits called on type parameters are
            # instantiated by callers outside generic code in this crate)
            decl_impls.setdefault("%s::%s" % (norm_path(tr), b["npath"].split("::")[-1]), set()).add(b["npath"])
    for k, out in g.items():
        extra = set()
        for c in out:
            if c in decl_impls and c not in crate.bodies:
                extra |= decl_impls[c]
        out |= extra
    return g


def reachable_fns(g, entries):
    seen = set()
    st = [e for e in entries]
    while st:
        x = st.pop()
        if x in seen:
            continue
        seen.add(x)
        for y in g.get(x, ()):
            if y not in seen:
                st.append(y)
    return seen


def sccs(g, nodes=None):
    """Tarjan SCCs restricted to `nodes` (iterative)."""
    if nodes is None:
        nodes = set(g)
    index = {}
    low = {}
    onstack = set()
    stack = []
    result = []
    counter = [0]
    for root in sorted(nodes):
        if root in index:
            continue
        work = [(root, iter(sorted(y for y in g.get(root, ()) if y in nodes)))]
        index[root] = low[root] = counter[0]
        counter[0] += 1
        stack.append(root)
        onstack.add(root)
        while work:
            v, it = work[-1]
            adv = False
            for w in it:
                if w not in index:
                    index[w] = low[w] = counter[0]
                    counter[0] += 1
                    stack.append(w)
                    onstack.add(w)
                    work.append((w, iter(sorted(y for y in g.get(w, ()) if y in nodes))))
                    adv = True
                    break
                elif w in onstack:
                    low[v] = min(low[v], index[w])
            if adv:
                continue
            work.pop()
            if work:
                u = work[-1][0]
                low[u] = min(low[u], low[v])
            if low[v] == index[v]:
                comp = []
                while True:
                    w = stack.pop()
                    onstack.discard(w)
                    comp.append(w)
                    if w == v:
                        break
                result.append(comp)
    return result


def place_local(p):
    if isinstance(p, int):
        return p
    if isinstance(p, dict):
        return p.get("l")
    return None


def op_local(op):
    """Local read by an operand (copy/move of a bare local), else None."""
    if isinstance(op, dict):
        for k in ("cp", "mv"):
            if k in op:
                p = op[k]
                if isinstance(p, int):
                    return p
                return None
    return None


def op_place(op):
    if isinstance(op, dict):
        for k in ("cp", "mv"):
            if k in op:
                return op[k]
    return None


def op_const(op):
    if isinstance(op, dict) and "c" in op:
        return op["c"]
    return None


def field_proj(place):
    """List of (fieldname, basetype) along a place's projection."""
    if isinstance(place, dict):
        return [(x[1], x[2]) for x in place.get("p", []) if isinstance(x, list) and x[0] == "f"]
    return []


class DefUse:
    """Very small def-use index over a MIR body (bare-local definitions)."""

    def __init__(self, cfg):
        self.cfg = cfg
        self.defs = {}
        for i, blk in enumerate(cfg.blocks):
            for j, s in enumerate(blk["s"]):
                d = s["d"]
                if isinstance(d, int):
                    self.defs.setdefault(d, []).append(("stmt", i, j, s["r"]))
            t = blk["t"]
            if t["k"] == "Call" and isinstance(t.get("dest"), int):
                self.defs.setdefault(t["dest"], []).append(("call", i, None, t))

    def sources(self, op, depth=8):
        """Trace an operand back through copies/moves/refs/casts to its origin(s).
        Returns list of ('arg', n) | ('call', terminator) | ('const', v) |
        ('field', place) | ('rv', rvalue)."""
        out = []
        c = op_const(op)
        if c is not None and "cp" not in op and "mv" not in op:
            return [("const", c)]
        pl = op_place(op)
        if pl is None:
            return [("unknown", op)]
        if not isinstance(pl, int):
            return [("place", pl)]
        return self._local_sources(pl, depth)

    def _local_sources(self, l, depth):
        if depth == 0:
            return [("unknown", l)]
        if 1 <= l <= self.cfg.mir["argc"]:
            ds = self.defs.get(l)
            if not ds:
                return [("arg", l)]
        out = []
        for kind, i, j, x in self.defs.get(l, []):
            if kind == "call":
                out.append(("call", x))
            else:
                k = x.get("k")
                if k == "Use":
                    out.extend(self.sources(x["a"], depth - 1))
                elif k == "Cast":
                    out.extend(self.sources(x["a"], depth - 1))
                elif k == "Ref":
                    p = x["p"]
                    if isinstance(p, int):
                        out.extend(self._local_sources(p, depth - 1))
                    else:
                        out.append(("place", p))
                else:
                    out.append(("rv", x))
        if not out:
            out.append(("arg", l) if l <= self.cfg.mir["argc"] else ("unknown", l))
        return out


def guards(cfg, du=None):
    """All comparison guards in a CFG: list of dicts
    {block, op, a_src, b_src, true_target, false_target}."""
    du = du or DefUse(cfg)
    out = []
    for i in sorted(cfg.reach):
        t = cfg.term(i)
        if t["k"] != "Switch":
            continue
        l = op_local(t["on"])
        if l is None:
            continue
        negs = 0
        cur = l
        cmp_rv = None
        for _ in range(6):
            ds = du.defs.get(cur, [])
            if len(ds) != 1 or ds[0][0] != "stmt":
                break
            rv = ds[0][3]
            if rv.get("k") == "Bin" and rv["op"] in ("Lt", "Le", "Gt", "Ge", "Eq", "Ne"):
                cmp_rv = rv
                break
            if rv.get("k") == "Un" and rv["op"] == "Not":
                negs += 1
                cur = op_local(rv["a"])
            elif rv.get("k") == "Use":
                cur = op_local(rv["a"])
            else:
                break
            if cur is None:
                break
        if cmp_rv is None:
            continue
        zero_t = None
        for v, bb in t["targets"]:
            if v == 0:
                zero_t = bb
        if zero_t is None:
            continue
        true_t, false_t = t["otherwise"], zero_t
        if negs % 2 == 1:
            true_t, false_t = false_t, true_t
        out.append({"block": i, "op": cmp_rv["op"], "a": du.sources(cmp_rv["a"]),
                    "b": du.sources(cmp_rv["b"]), "true": true_t, "false": false_t})
    return out


def src_is_call_to(srcs, name_suffix):
    return any(k == "call" and (call_target(x) or "").endswith(name_suffix) for k, x in srcs)


def src_is_arg(srcs, n=None):
    return any(k == "arg" and (n is None or x == n) for k, x in srcs)


def src_is_field(srcs, field):
    for k, x in srcs:
        if k == "place":
            fp = field_proj(x)
            if fp and fp[-1][0] == field:
                return True
    return False


def discr_switches(cfg):
    """Switches on an enum discriminant: list of
    {block, place_local, targets{value: bb}, otherwise}.  place_local is the
    local whose discriminant is read (through a Discr rvalue in the block)."""
    out = []
    for i in sorted(cfg.reach):
        t = cfg.term(i)
        if t["k"] != "Switch":
            continue
        l = op_local(t["on"])
        if l is None:
            continue
        src = None
        for s in cfg.blocks[i]["s"]:
            if s["d"] == l and s["r"].get("k") == "Discr":
                src = s["r"]["p"]
        if src is None:
            continue
        out.append({"block": i, "place": src,
                    "targets": {v: bb for v, bb in t["targets"]},
                    "otherwise": t["otherwise"]})
    return out


def bool_switch_after_call(cfg, call_block):
    """For a call whose bool result is switched on directly in its target
    block (possibly through Not/copies): (true_target, false_target) or None."""
    t = cfg.term(call_block)
    if t["k"] != "Call" or t.get("to") is None or not isinstance(t.get("dest"), int):
        return None
    d = t["dest"]
    nb = t["to"]
    vals = {d: False}   # local -> negated?
    for s in cfg.blocks[nb]["s"]:
        r = s["r"]
        dst = s["d"]
        if not isinstance(dst, int):
            continue
        if r.get("k") == "Use":
            l = op_local(r["a"])
            if l in vals:
                vals[dst] = vals[l]
        elif r.get("k") == "Un" and r.get("op") == "Not":
            l = op_local(r["a"])
            if l in vals:
                vals[dst] = not vals[l]
    sw = cfg.term(nb)
    if sw["k"] != "Switch":
        return None
    l = op_local(sw["on"])
    if l not in vals:
        return None
    zero = None
    for v, bb in sw["targets"]:
        if v == 0:
            zero = bb
    if zero is None:
        return None
    tt, ft = sw["otherwise"], zero
    if vals[l]:
        tt, ft = ft, tt
    return tt, ft


def enum_switch_after_call(cfg, call_block):
    """For a call whose enum result's discriminant is switched on in the
    target block: {discr value: bb}, otherwise-bb; or None."""
    t = cfg.term(call_block)
    if t["k"] != "Call" or t.get("to") is None or not isinstance(t.get("dest"), int):
        return None
    d = t["dest"]
    nb = t["to"]
    aliases = {d}
    dl = None
    for s in cfg.blocks[nb]["s"]:
        r = s["r"]
        if r.get("k") == "Use":
            l = op_local(r["a"])
            if l in aliases and isinstance(s["d"], int):
                aliases.add(s["d"])
        if r.get("k") == "Discr":
            p = r["p"]
            if isinstance(p, int) and p in aliases:
                dl = s["d"]
    sw = cfg.term(nb)
    if sw["k"] != "Switch" or dl is None or op_local(sw["on"]) != dl:
        return None
    return {v: bb for v, bb in sw["targets"]}, sw["otherwise"]


def arg_variant(du, t, idx):
    """If argument idx of call t is (a move of a local assigned) a field-less enum
    variant aggregate or a constant naming one, return the variant name."""
    a = t.get("args", [])
    if len(a) <= idx:
        return None
    op = a[idx]
    c = op_const(op)
    if isinstance(c, str) and "cp" not in op and "mv" not in op:
        return c.split("::")[-1]
    l = op_local(op)
    if l is None:
        return None
    for kind, i, j, x in du.defs.get(l, []):
        if kind == "stmt" and x.get("k") == "Agg" and "variant" in x:
            return x["variant"]
        if kind == "stmt" and x.get("k") == "Use":
            c = op_const(x["a"])
            if isinstance(c, str):
                return c.split("::")[-1]
    return None
