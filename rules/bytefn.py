"""Table of a pure byte classifier `fn(u8) -> Option<u8>` (or `-> bool`, `-> u8`), read off its typed HIR.

The function's definition over its 256-element domain *is* a decision table: a `match`/`if` over the
parameter (possibly through bit operations) with literal and range patterns and arithmetic on the
parameter in the results.  This module folds that definition for each of the 256 parameter values;
nothing of the crate is compiled or run.  Anything outside the small expression language below makes the
extraction fail closed (CannotAnalyse), it is never guessed.

Supported: literals, the parameter, let-bound locals, unary !/-, binary arithmetic / bit / comparison /
lazy boolean operators (u8 wrapping is reported as 'overflow'), casts between integer types, match with
literal / range / or / wildcard / binding patterns and guards, if / else, blocks, Some(..) / None,
`matches!` (it is a match), and the std byte predicates in METHODS."""
from .core import CannotAnalyse

METHODS = {
    "is_ascii_digit": lambda x: 48 <= x <= 57,
    "is_ascii_hexdigit": lambda x: 48 <= x <= 57 or 65 <= x <= 70 or 97 <= x <= 102,
    "is_ascii_alphabetic": lambda x: 65 <= x <= 90 or 97 <= x <= 122,
    "is_ascii_alphanumeric": lambda x: 48 <= x <= 57 or 65 <= x <= 90 or 97 <= x <= 122,
    "is_ascii_uppercase": lambda x: 65 <= x <= 90,
    "is_ascii_lowercase": lambda x: 97 <= x <= 122,
    "is_ascii": lambda x: x < 128,
    "to_ascii_lowercase": lambda x: x + 32 if 65 <= x <= 90 else x,
    "to_ascii_uppercase": lambda x: x - 32 if 97 <= x <= 122 else x,
}
# char predicates (Unicode semantics; Python's str predicates agree with Rust's on the Latin and Greek blocks that the domain covers)
METHODS.update({
    "is_alphanumeric": lambda x: chr(x).isalnum(),
    "is_alphabetic": lambda x: chr(x).isalpha(),
    "is_numeric": lambda x: chr(x).isnumeric(),
    "is_whitespace": lambda x: chr(x).isspace(),
    "is_ascii_whitespace": lambda x: x in (9, 10, 12, 13, 32),
    "is_ascii_punctuation": lambda x: x < 128 and chr(x).isprintable() and not chr(x).isalnum() and x != 32,
    "is_ascii_graphic": lambda x: 33 <= x <= 126,
    "is_ascii_control": lambda x: x < 32 or x == 127,
})
METHODS2 = {
    "wrapping_sub": lambda x, y: (x - y) % 256,
    "wrapping_add": lambda x, y: (x + y) % 256,
    "checked_sub": lambda x, y: ("Some", x - y) if x >= y else "None",
}


class Overflow(Exception):
    pass


def _lit(n):
    v = n.get("v")
    if isinstance(v, bool) or isinstance(v, int):
        return v
    raise CannotAnalyse("bytefn: literal %r" % (n,))


def _pat(p, v, env):
    k = p.get("k")
    if k == "Wild":
        return True
    if k in ("Binding", "Bind"):
        env[p.get("lid", p.get("name"))] = v
        sub = p.get("sub")
        return _pat(sub, v, env) if sub else True
    if k == "Lit":
        return _lit(p) == v
    if k == "Expr":
        return _pat(p["e"], v, env)
    if k == "Range":
        lo = _lit(p["lo"]) if p.get("lo") else None
        hi = _lit(p["hi"]) if p.get("hi") else None
        if lo is not None and v < lo:
            return False
        if hi is not None:
            return v <= hi if p.get("end") == "Included" else v < hi
        return True
    if k == "Or":
        return any(_pat(q, v, env) for q in p["pats"])
    if k == "TupleStruct" and str(p.get("path", p.get("res", ""))).endswith("Some"):
        return isinstance(v, tuple) and v[0] == "Some" and _pat(p["pats"][0], v[1], env)
    if k == "Path" and str(p.get("res", "")).endswith("None"):
        return v == "None"
    raise CannotAnalyse("bytefn: pattern kind %r" % k)


def _bin(op, a, b):
    if op == "BitAnd":
        return a & b
    if op == "BitOr":
        return a | b
    if op == "BitXor":
        return a ^ b
    if op in ("Add", "Sub", "Mul"):
        r = a + b if op == "Add" else a - b if op == "Sub" else a * b
        if not 0 <= r <= 255:
            raise Overflow()
        return r
    if op == "Shl":
        return (a << b) & 255
    if op == "Shr":
        return a >> b
    if op == "Eq":
        return a == b
    if op == "Ne":
        return a != b
    if op == "Lt":
        return a < b
    if op == "Le":
        return a <= b
    if op == "Gt":
        return a > b
    if op == "Ge":
        return a >= b
    raise CannotAnalyse("bytefn: operator %r" % op)


def _ev(n, env):
    k = n.get("k")
    if k == "Lit":
        return _lit(n)
    if k == "Path":
        res = str(n.get("res", ""))
        if n.get("rk") == "Local":
            key = n.get("lid", res)
            if key in env:
                return env[key]
            if res in env:
                return env[res]
            raise CannotAnalyse("bytefn: unbound local %r" % res)
        if res.endswith("::None"):
            return "None"
        raise CannotAnalyse("bytefn: path %r" % res)
    if k in ("DropTemps", "Paren", "Use", "Type"):
        return _ev(n["e"], env)
    if k == "Cast":
        v = _ev(n["e"], env)
        if isinstance(v, bool):
            return int(v)
        if isinstance(v, int):
            return v
        raise CannotAnalyse("bytefn: cast of %r" % (v,))
    if k == "Unary":
        v = _ev(n["e"], env)
        if n.get("op") == "Not":
            return (not v) if isinstance(v, bool) else (~v) & 255
        raise CannotAnalyse("bytefn: unary %r" % n.get("op"))
    if k == "Binary":
        op = n.get("op")
        if op == "And":
            return bool(_ev(n["lhs"], env)) and bool(_ev(n["rhs"], env))
        if op == "Or":
            return bool(_ev(n["lhs"], env)) or bool(_ev(n["rhs"], env))
        return _bin(op, _ev(n["lhs"], env), _ev(n["rhs"], env))
    if k == "Call":
        c = str(n.get("callee") or "")
        if c.endswith("::Some"):
            return ("Some", _ev(n["a"][0], env))
        short = c.split("::")[-1]
        if short in METHODS and len(n["a"]) == 1:
            return METHODS[short](_ev(n["a"][0], env))
        raise CannotAnalyse("bytefn: call of %r" % c)
    if k == "MethodCall":
        name = n.get("name")
        recv = _ev(n["recv"], env)
        args = [_ev(a, env) for a in n.get("a", [])]
        if name in METHODS and not args:
            return METHODS[name](recv)
        if name in METHODS2 and len(args) == 1:
            r = METHODS2[name](recv, args[0])
            return r
        raise CannotAnalyse("bytefn: method %r" % name)
    if k == "AddrOf":
        return _ev(n["e"], env)
    if k == "Block":
        env = dict(env)
        for s in n.get("stmts", []):
            if s.get("k") == "Let" and s.get("init") is not None:
                if not _pat(s["pat"], _ev(s["init"], env), env):
                    raise CannotAnalyse("bytefn: refutable let")
            elif s.get("k") in ("Semi", "Expr"):
                _ev(s["e"], env)
            else:
                raise CannotAnalyse("bytefn: statement %r" % s.get("k"))
        return _ev(n["e"], env) if n.get("e") is not None else None
    if k == "If":
        c = _ev(n["cond"], env)
        if c:
            return _ev(n["then"], env)
        return _ev(n["else"], env) if n.get("else") is not None else None
    if k == "Let":   # `if let` condition
        e2 = env
        return _pat(n["pat"], _ev(n["init"], env), e2)
    if k == "Match":
        v = _ev(n["scrut"], env)
        for a in n["arms"]:
            e2 = dict(env)
            if _pat(a["pat"], v, e2):
                g = a.get("guard")
                if g is not None and not _ev(g, e2):
                    continue
                return _ev(a["body"], e2)
        raise CannotAnalyse("bytefn: no arm matches %r" % (v,))
    if k == "Ret":
        raise CannotAnalyse("bytefn: early return")
    raise CannotAnalyse("bytefn: expression kind %r" % k)


def table(body, domain=range(256)):
    """{byte: result} for byte in the domain (0..=255 by default; a `char` classifier can be folded over more code points);
    result is an int, a bool, 'None', ('Some', int) or 'overflow'."""
    params = body.get("params") or []
    if len(params) != 1:
        raise CannotAnalyse("bytefn: %s does not take exactly one parameter" % body["path"])
    p = params[0]
    out = {}
    for x in domain:
        env = {}
        pat = p.get("pat", p)
        name = pat.get("name") or p.get("name")
        if "lid" in pat:
            env[pat["lid"]] = x
        if name:
            env[name] = x
        try:
            out[x] = _ev(body["hir"], env)
        except Overflow:
            out[x] = "overflow"
    return out
