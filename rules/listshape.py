"""Shape of a separator-delimited list as a parser function accepts it, decided by
reachability on the function's MIR (no execution): which of

    empty           open close
    trailing        item sep close
    bare_last       item close            (no separator after the last item)
    juxtaposed      item item             (two items without a separator)

have a path.  Events are recognised in both parsers' idioms:

  alpha:  `if let Some(Token::X) = peek(tokens)`      test(X)  (true / false edge)
          `consume(Token::X, tokens)?`                 must(X)  (Ok edge)
  delta:  `tokens.consume_optional(BaseToken::X)`      test(X)
          `tokens.consume(BaseToken::X)?`              must(X)

An item is a call of one of the given item parsers."""
from . import mirq
from .core import norm_path


def _try_ok_target(cfg, call_block):
    """Block reached when the `?` applied to the result of the call in call_block continues."""
    t = cfg.term(call_block)
    nb = t.get("to")
    seen = 0
    while nb is not None and seen < 4:
        seen += 1
        tt = cfg.term(nb)
        if tt["k"] == "Call" and (mirq.call_target(tt) or "").endswith("Try>::branch"):
            sw = mirq.enum_switch_after_call(cfg, nb)
            if sw is None:
                return None
            targets, otherwise = sw
            return targets.get(0)
        if tt["k"] == "Goto":
            nb = cfg.succ[nb][0] if cfg.succ[nb] else None
            continue
        return None
    return None


def events(F, crate, body, token_enum):
    """Returns (tests, musts): tests = [(block, token, true_bb, false_bb)], musts = [(block, token, ok_bb)]."""
    cfg = mirq.CFG(body)
    du = mirq.DefUse(cfg)
    variants = [v["name"] for v in crate.adts[token_enum]["variants"]]
    tests, musts = [], []
    for u, t in cfg.calls():
        c = mirq.call_target(t) or ""
        short = c.split("::")[-1]
        if short == "peek" and "parser" in c:
            # Option discr switch, then Token discr switch
            nb = t.get("to")
            sw1 = cfg.term(nb) if nb is not None else None
            if not sw1 or sw1["k"] != "Switch":
                continue
            some_bb = dict((v, bb) for v, bb in sw1["targets"]).get(1)
            none_bb = sw1["otherwise"]
            if some_bb is None:
                continue
            sw2 = cfg.term(some_bb)
            if sw2["k"] != "Switch":
                continue
            for v, bb in sw2["targets"]:
                if 0 <= v < len(variants):
                    tests.append((u, variants[v], bb, sw2["otherwise"]))
        elif short == "consume_optional":
            tok = mirq.arg_variant(du, t, 1)
            sw = mirq.bool_switch_after_call(cfg, u)
            if tok and sw:
                tests.append((u, tok, sw[0], sw[1]))
        elif short == "consume":
            tok = mirq.arg_variant(du, t, 0) or mirq.arg_variant(du, t, 1)
            ok = _try_ok_target(cfg, u)
            if tok and ok is not None:
                musts.append((u, tok, ok))
    return cfg, tests, musts


def _reach(cfg, starts, goals, cut):
    seen = set()
    st = [s for s in starts if s is not None]
    while st:
        x = st.pop()
        if x in seen:
            continue
        seen.add(x)
        if x in goals:
            return True
        if x in cut:
            continue
        st.extend(cfg.succ[x])
    return False


def shape(F, crate, body, token_enum, sep, close, item_callees, open_token=None):
    cfg, tests, musts = events(F, crate, body, token_enum)
    sep_true = set(bb for u, tok, bb, fb in tests if tok == sep) | set(ok for u, tok, ok in musts if tok == sep)
    close_ok = set(bb for u, tok, bb, fb in tests if tok == close) | set(ok for u, tok, ok in musts if tok == close)
    item_blocks = {}
    for u, t in cfg.calls():
        c = mirq.call_target(t) or ""
        if c in item_callees:
            item_blocks[u] = c
    item_ok = set()
    for u in item_blocks:
        ok = _try_ok_target(cfg, u)
        if ok is None:
            ok = cfg.term(u).get("to")
        item_ok.add(ok)
    if open_token is not None:
        starts = set(ok for u, tok, ok in musts if tok == open_token) | set(bb for u, tok, bb, fb in tests if tok == open_token)
    else:
        starts = {0}
    cut_items = set(item_blocks)
    res = {
        "empty": _reach(cfg, starts, close_ok, cut_items),
        "trailing": _reach(cfg, sep_true, close_ok, cut_items),
        "bare_last": _reach(cfg, item_ok, close_ok, cut_items | sep_true),
        "juxtaposed": _reach(cfg, item_ok, set(item_blocks), sep_true | close_ok),
    }
    counts = {"sep_true": len(sep_true), "close_ok": len(close_ok), "items": len(item_blocks)}
    return res, counts
