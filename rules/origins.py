"""Backward def-use slice on the HIR of one body.

origins(body_hir, expr) returns the set of *source facts* an expression is
computed from, following local variables back through `let`, `match` / `if let`
/ `for` bindings and assignments:

  ("field", name)            a field read `x.name`
  ("patfield", variant, f)   a binding of field f in a pattern of `variant`
  ("call", callee)           the result of a call (also method calls)
  ("lit", value)             a literal
  ("param", name)            a parameter of the body
  ("tuplepos", i)            position i of a tuple pattern (e.g. `(i, x)` of enumerate)

Calls into the analysed crate are opaque (recorded, arguments not followed).
The slice is flow-insensitive (every definition of a local counts), which makes
"derives only from X" claims conservative: an extra definition adds origins."""
from . import hirq
from .core import walk


def _pat_defs(pat, src, path, out):
    """Record for every binding in `pat` the (source expr, access path)."""
    if not isinstance(pat, dict):
        return
    k = pat.get("k")
    if k == "Bind":
        out.setdefault(pat["lid"], []).append((src, tuple(path)))
        if "sub" in pat:
            _pat_defs(pat["sub"], src, path, out)
    elif k == "Struct":
        for f in pat.get("fields", []):
            _pat_defs(f["p"], src, path + [("patfield", hirq.short(pat.get("res") or ""), f["name"])], out)
    elif k == "TupleStruct":
        for i, p in enumerate(pat.get("pats", [])):
            _pat_defs(p, src, path + [("patfield", hirq.short(pat.get("res") or ""), str(i))], out)
    elif k == "Tuple":
        for i, p in enumerate(pat.get("pats", [])):
            _pat_defs(p, src, path + [("tuplepos", i)], out)
    elif k == "Or":
        for p in pat.get("pats", []):
            _pat_defs(p, src, path, out)
    else:
        for key in ("p", "sub", "pat"):
            if isinstance(pat.get(key), dict):
                _pat_defs(pat[key], src, path, out)
        for p in pat.get("pats", []) if isinstance(pat.get("pats"), list) else []:
            _pat_defs(p, src, path, out)


def definitions(hir, params=()):
    defs = {}
    handled = set()
    for p in params:
        if p.get("k") == "Bind":
            defs.setdefault(p["lid"], []).append((None, (("param", p.get("name")),)))
    for n in walk(hir):
        k = n.get("k")
        if k in ("Let", "LetExpr") and "init" in n:
            _pat_defs(n["pat"], n["init"], [], defs)
        elif k == "Match":
            for a in n["arms"]:
                _pat_defs(a["pat"], n["scrut"], [], defs)
        elif k in ("Assign", "AssignOp"):
            lhs = hirq.unwrap_trivial(n.get("lhs") or n.get("l_") or {})
            if lhs.get("k") == "Path" and lhs.get("rk") == "Local":
                defs.setdefault(lhs["lid"], []).append((n.get("rhs"), ()))
        elif k in ("MethodCall", "Call") and any(isinstance(a, dict) and a.get("k") == "Closure" for a in n.get("a", [])):
            # a closure handed to an adaptor (`xs.iter().map(|x| ..)`, `opt.map_or(d, |t| ..)`): its parameters are items of the
            # receiver; the slice continues there (marked, so that a rule can tell the hop)
            src = n.get("recv")
            if src is None:
                src = next((a for a in n.get("a", []) if isinstance(a, dict) and a.get("k") != "Closure"), None)
            for a in n.get("a", []):
                if isinstance(a, dict) and a.get("k") == "Closure":
                    handled.add(id(a))
                    for p in a.get("params", []):
                        _pat_defs(p, src, [("closureparam",)], defs)
        elif k == "Closure" and id(n) not in handled:
            for p in n.get("params", []):
                _pat_defs(p, None, [("closureparam",)], defs)
    return defs


def _opaque_call(n):
    """Calls into the crate under analysis are abstraction boundaries: their result is an origin of its own and the
    slice does not continue into the arguments (std conversions, iterator adaptors and `?` are followed through)."""
    if n.get("k") in ("Call", "MethodCall"):
        c = hirq.callee(n) or hirq.callee_decl(n) or ""
        if c.split("::")[-1] in ("from", "into", "try_from", "try_into") and len(n.get("a", [])) + (1 if n.get("recv") else 0) == 1:
            return False    # a conversion of one value (impl From<U24> for usize ..) denotes the same thing as its argument
        return c.startswith(("alpha::", "<alpha::", "delta::", "<delta::", "penne::"))
    return False


def origins(hir, expr, params=(), defs=None, limit=400, transparent=()):
    """transparent: suffixes of crate-local callees whose arguments are followed as well (a pure query such as
    `llvm.size_in_bits(t)` or `ty.generate(llvm)` denotes a property of its argument)."""
    defs = defs if defs is not None else definitions(hir, params)

    def opaque(n):
        if _opaque_call(n):
            c = hirq.callee(n) or hirq.callee_decl(n) or ""
            return not (transparent and c.endswith(tuple(transparent)))
        return False
    out = set()
    seen_l = set()
    work = [expr]
    steps = 0
    while work and steps < limit:
        steps += 1
        e = work.pop()
        if e is None:
            continue
        for n in walk(e, opaque):
            k = n.get("k")
            if k == "Field":
                out.add(("field", n.get("name")))
            elif k in ("Call", "MethodCall"):
                c = hirq.callee(n) or hirq.callee_decl(n) or n.get("name")
                if c:
                    out.add(("call", c))
                if k == "MethodCall" and opaque(n) and isinstance(n.get("recv"), dict):
                    work.append(n["recv"])  # the result of x.method(..) derives from x
            elif k == "Lit":
                out.add(("lit", n.get("v")))
            elif k == "Path" and n.get("rk") == "Local":
                lid = n.get("lid")
                if lid in seen_l:
                    continue
                seen_l.add(lid)
                for src, path in defs.get(lid, []):
                    for p in path:
                        out.add(p)
                    if src is not None:
                        work.append(src)
    return out


def producers(hir, expr, params=(), defs=None, limit=200):
    """The calls / literals / parameters that *produce* the value of expr: locals are followed back to their definitions, blocks
    to their tail, `if` / `match` to their branches -- but the arguments of a call are not entered (a block appended to the
    function `f` is produced by the append call, not by whatever produced `f`).  Returns a set of ("call", callee),
    ("lit", v), ("param", name), ("field", name), ("other", kind)."""
    defs = defs if defs is not None else definitions(hir, params)
    out = set()
    seen = set()
    work = [expr]
    steps = 0
    while work and steps < limit:
        steps += 1
        e = work.pop()
        if not isinstance(e, dict):
            continue
        e = hirq.unwrap_trivial(e)
        k = e.get("k")
        if k == "Block":
            if e.get("e") is not None:
                work.append(e["e"])
        elif k == "If":
            work.append(e["then"])
            if e.get("else") is not None:
                work.append(e["else"])
        elif k == "Match" and "Try" in str(e.get("msrc")):
            sc = hirq.unwrap_trivial(e["scrut"])      # `x?` is produced by x
            work.append(sc["a"][0] if sc.get("a") else sc)
        elif k == "Match":
            for a in e["arms"]:
                work.append(a["body"])
        elif k in ("Call", "MethodCall"):
            out.add(("call", hirq.callee(e) or hirq.callee_decl(e) or e.get("name")))
        elif k == "Lit":
            out.add(("lit", e.get("v")))
        elif k == "Field":
            out.add(("field", e.get("name")))
        elif k == "Path" and e.get("rk") == "Local":
            lid = e.get("lid")
            if lid in seen:
                continue
            seen.add(lid)
            for src, path in defs.get(lid, []):
                if src is None:
                    for p in path:
                        out.add(p)
                elif path:
                    out.add(path[-1] if isinstance(path[-1], tuple) else ("other", "pattern"))   # bound by a pattern: the place it names
                else:
                    work.append(src)
        elif k in ("AddrOf", "Cast", "Unary"):
            work.append(e.get("e"))
        else:
            out.add(("other", k))
    return out
