"""T6: inventory of panicking sites (explicit panic macros, implicit MIR
asserts, calls to std functions that panic) per function, compared with a
reviewed table. A site not in the table, or more sites of one key in a function
than reviewed, is reported."""
import json
import os
import re

from . import mirq
from .core import VERIF, norm_path, walk

PANICKY_STD = (
    "std::option::Option::unwrap", "std::option::Option::expect",
    "std::result::Result::unwrap", "std::result::Result::expect",
    "std::result::Result::unwrap_err", "std::result::Result::expect_err",
    "std::ops::Index>::index", "std::ops::IndexMut>::index_mut",
    "core::slice::index::index", "core::slice::index::index_mut", "core::str::traits::index",
    "std::cell::RefCell::borrow", "std::cell::RefCell::borrow_mut",
    "std::vec::Vec::remove", "std::vec::Vec::swap_remove", "std::vec::Vec::drain",
    "std::vec::Vec::insert", "std::vec::Vec::split_off", "std::vec::Vec::truncate_front",
    "core::slice::split_at", "core::slice::split_at_mut", "core::slice::copy_from_slice",
    "core::str::split_at", "std::string::String::remove", "std::string::String::insert",
    "std::collections::VecDeque::remove", "core::slice::swap",
    "std::process::exit", "std::process::abort", "std::iter::Iterator::step_by",
    "core::slice::chunks", "core::slice::windows", "std::string::String::drain",
    "core::unicode::conversions", "std::char::from_digit", "std::env::args",
    "core::num::pow", "core::num::abs", "std::iter::Iterator::sum", "std::iter::Iterator::product",
)


_INDEX_RE = re.compile(r" as std::ops::Index(Mut)?<.*>>::index(_mut)?$")


def is_panicky_std(callee):
    if callee is None:
        return False
    if _INDEX_RE.search(callee):
        return True
    for p in PANICKY_STD:
        if callee.endswith(p) or callee == p:
            return True
    return False


def outer_panic_macro(m):
    if not m:
        return "panic-call"
    for name in reversed(m.split("<")):
        if name in ("unreachable", "todo", "unimplemented", "panic", "assert", "assert_eq",
                    "assert_ne", "debug_assert", "debug_assert_eq", "debug_assert_ne",
                    "matches", "write", "writeln", "format"):
            return name
    return m.split("<")[-1]


_SNIP = {}


def _macro_message(body, line):
    """Formatted panic messages are not constants in MIR; take the first string literal of the macro call's source
    snippet (recorded by the driver on the expansion's HIR node), whitespace-normalised."""
    key = id(body)
    if key not in _SNIP:
        tab = {}
        for n in walk(body.get("hir") or {}):
            src = n.get("src")
            if src and n.get("l") is not None and n.get("m") and "panic" in str(n.get("m")):
                tab.setdefault(n["l"], src)
        _SNIP[key] = tab
    src = _SNIP[key].get(line, "")
    m = re.search(r'"((?:[^"\\]|\\.)*)"', src, re.S)
    if not m:
        return ""
    txt = re.sub(r"\\\s*\n\s*", "", m.group(1))
    return re.sub(r"\s+", " ", txt).strip()


def sites_of(body):
    """Panicking sites in one function body (MIR), reachable blocks only."""
    out = []
    if "mir" not in body:
        return out
    cfg = mirq.CFG(body)
    for i in sorted(cfg.reach):
        t = cfg.term(i)
        if t["k"] == "Assert":
            kind = "assert:%s" % t["ak"]
            detail = t.get("aty") or ""
            # shift/div by a constant operand: record operand constness
            msg = t.get("msg", "")
            m = re.search(r"const (\d+)_", msg)
            if t["ak"].startswith("Overflow:Sh") and m:
                detail += " by const"
            out.append({"kind": kind, "detail": detail, "line": t["l"], "msg": msg})
        elif t["k"] == "Call":
            c = mirq.call_target(t) or "?"
            if c.startswith("core::panicking::") or c.startswith("std::rt::begin_panic") or c == "std::rt::panic_fmt":
                mac = outer_panic_macro(t.get("m"))
                msg = ""
                for a in t.get("args", []):
                    if isinstance(a, dict) and isinstance(a.get("c"), str):
                        msg = a["c"].strip('"')
                        break
                if not msg:
                    msg = _macro_message(body, t["l"])
                # the default message of assert!/debug_assert! is the asserted expression as written: not part of the key
                # (flipping `a < b` into `b > a`, or renaming a local, does not make it another site)
                det = "" if msg.startswith("assertion failed:") else msg[:90]
                out.append({"kind": "panic:%s" % mac, "detail": det, "line": t["l"], "msg": msg})
            elif is_panicky_std(c):
                short = c
                g = t.get("g", "")
                recv = g.split(",")[0][:60] if g else ""
                out.append({"kind": "call:%s" % short, "detail": recv, "line": t["l"], "msg": ""})
    return out


def site_key(fn, s):
    return "%s|%s|%s" % (fn, s["kind"], s["detail"])


def collect(crate, fns):
    """{key: [lines]} over the given function paths."""
    res = {}
    per_fn = {}
    for fn in sorted(fns):
        b = crate.bodies.get(fn)
        if b is None or "mir" not in b:
            continue
        ss = sites_of(b)
        per_fn[fn] = len(ss)
        for s in ss:
            res.setdefault(site_key(fn, s), []).append(s["line"])
    return res, per_fn


def load_reviewed(name):
    p = os.path.join(VERIF, "props", "reviewed", name)
    with open(p) as fh:
        return json.load(fh)


def moved_sites(sites, reviewed, g):
    """Extract-function and inline-function refactors move a panicking site into a helper or back into its caller without
    adding one.  Returns {key: (n, origin key)} for the sites of an unreviewed or over-count key that are matched by the
    same (kind, detail) *missing* from a reviewed function that calls, or is called by, the function the site now lives in
    (or that no longer exists): such a site was moved, not added, and inherits the review of its origin.  FINDING entries
    are never matched (a recorded defect must stay where it was recorded)."""
    cur = {k: len(v) for k, v in sites.items()}
    spare = {}
    for k, rv in reviewed.items():
        if str(rv.get("reason", "")).startswith("FINDING"):
            continue
        n = rv.get("count", 1) - cur.get(k, 0)
        if n > 0:
            spare[k] = n
    out = {}
    for k, n_now in sorted(cur.items()):
        rv = reviewed.get(k)
        if rv is not None and str(rv.get("reason", "")).startswith("FINDING"):
            continue
        extra = n_now - (rv.get("count", 1) if rv is not None else 0)
        if extra <= 0:
            continue
        fn, kind, detail = k.split("|", 2)
        for sk in sorted(spare):
            sfn, skind, sdetail = sk.split("|", 2)
            if (skind, sdetail) != (kind, detail) or spare[sk] < extra or sfn == fn:
                continue
            related = fn in g.get(sfn, ()) or sfn in g.get(fn, ()) or sfn not in g
            if related:
                spare[sk] -= extra
                out[k] = (extra, sk)
                break
    return out
