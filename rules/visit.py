"""T2: visitor completeness.

For an impl of a traversal method on an AST type, every field of every matched
variant (or of the struct) whose type can contain a *relevant* child type must
flow into a call of the traversal method(s).  A field bound to `_`, hidden by
`..`, or bound but never passed on (directly, through a `for` loop, a
projection or a local) is reported."""
import re

from . import hirq
from .core import walk, norm_path


def type_closure(crate, targets, stop=("alpha::error::Error", "alpha::error::Poison", "alpha::lexer::Location")):
    """ADT paths whose values can contain one of `targets` (transitively).
    Types in `stop` (diagnostic payloads) never propagate containment."""
    clo = set(targets)
    changed = True
    adts = crate.adts
    while changed:
        changed = False
        for p, a in adts.items():
            if p in clo or p in stop:
                continue
            for v in a["variants"]:
                for f in v["fields"]:
                    if mentions(f["ty"], clo):
                        clo.add(p)
                        changed = True
                        break
                if p in clo:
                    break
    return clo


STOP_RE = re.compile(r"(?<![\w:])alpha::error::(Poison|Error)(?![\w])")


def mentions(tystr, paths):
    tystr = STOP_RE.sub("()", tystr)
    for p in paths:
        if re.search(r"(?<![\w:])" + re.escape(p) + r"(?![\w])", tystr):
            return True
    return False


def derived_lids(body, seeds, seed_nodes=()):
    """Locals that (transitively) receive a value computed from the seed locals
    (or from the seed expression nodes): let-bindings, for-loop variables,
    closure parameters of iterator adaptors, if-let / match bindings."""
    derived = set(seeds)

    def uses(expr):
        if any(hirq.uses_local(expr, l) for l in derived):
            return True
        if seed_nodes:
            for x in walk(expr):
                for sn in seed_nodes:
                    if x is sn:
                        return True
        return False
    changed = True
    while changed:
        changed = False
        for n in walk(body):
            k = n.get("k")
            src = None
            pats = []
            if k == "Let" and "init" in n:
                src, pats = n["init"], [n["pat"]]
            elif k == "LetExpr":
                src, pats = n["init"], [n["pat"]]
            elif k == "Match":
                src = n["scrut"]
                pats = [a["pat"] for a in n["arms"]]
            elif k == "MethodCall" and n.get("a"):
                # iterator adaptors with closures: recv.map(|x| ..)
                for a in n["a"]:
                    if a.get("k") == "Closure" and uses(n["recv"]):
                        for p in a.get("params", []):
                            for name, lid, t in hirq.pat_bindings(p):
                                if lid not in derived:
                                    derived.add(lid)
                                    changed = True
                continue
            if src is None:
                continue
            if uses(src):
                for p in pats:
                    for name, lid, t in hirq.pat_bindings(p):
                        if lid not in derived:
                            derived.add(lid)
                            changed = True
    return derived


def traversal_calls(body, is_traversal):
    out = []
    for c in hirq.calls(body):
        cn = hirq.callee(c)
        dn = hirq.callee_decl(c)
        if (cn and is_traversal(cn)) or (dn and is_traversal(dn)):
            out.append(c)
    return out


def call_inputs(c):
    ins = []
    if c.get("k") == "MethodCall":
        ins.append(c["recv"])
    ins.extend(c.get("a", []))
    return ins


def check_match(F, crate, body, m, adt, label, relevant, is_traversal, report, exceptions=None, whole_reject=None, subst=None):
    """One `match` over a value of enum `adt`: every field of every matched
    variant whose type can contain a relevant type must reach a traversal call
    in its arm.  whole_reject(arm) -> True when the arm rejects the whole value
    (nothing inside it needs visiting)."""
    exceptions = exceptions or {}
    n = 0

    def field_types(variant_name):
        for v in adt["variants"]:
            if v["name"] == variant_name:
                out = {}
                for f in v["fields"]:
                    t = f["ty"]
                    for g, actual in (subst or {}).items():
                        t = re.sub(r"(?<![\w:])" + re.escape(g) + r"(?![\w:])", actual, t)
                    out[f["name"]] = t
                return out
        return {}
    for a in m["arms"]:
        for alt in hirq.pat_alts(a["pat"]):
            if hirq.is_catchall(alt):
                continue
            vpath = hirq.pat_res(alt)
            if not vpath:
                continue
            vname = vpath.split("::")[-1]
            ftys = field_types(vname)
            fpats, rest = hirq.field_pats(alt)
            sp = hirq.strip_ref(alt)
            if fpats is None and sp.get("k") == "TupleStruct":
                fpats = {str(i): p for i, p in enumerate(sp.get("pats", []))}
                rest = "ddpos" in sp
            fpats = fpats or {}
            for fname, fty in ftys.items():
                if not mentions(fty, relevant):
                    continue
                key = "%s::%s.%s" % (label, vname, fname)
                n += 1
                exc = exceptions.get(key)
                if isinstance(exc, tuple):
                    # (reason, {other_field: "Some"|"None"|variant name}): only for arms whose pattern pins that field
                    reason, pins = exc
                    for of, want in pins.items():
                        op = fpats.get(of)
                        res = hirq.pat_res(hirq.strip_ref(op)) if isinstance(op, dict) else None
                        if not res or res.split("::")[-1] != want:
                            exc = None
                            break
                    else:
                        exc = reason
                if exc:
                    report(key, True, F.where(body, a), "reviewed exception: " + exc, {"exception": exc})
                    continue
                if whole_reject is not None and whole_reject(a):
                    report(key, True, F.where(body, a), "the arm rejects the whole value", {"whole_reject": True})
                    continue
                fp = fpats.get(fname)
                if fp is None:
                    report(key, False, F.where(body, a),
                           "field `%s` (%s) of %s is hidden by `..` and never traversed" % (fname, fty, vname), None)
                    continue
                binds = [b for b in hirq.pat_bindings(fp)
                         if b[2] is None or mentions(crate.types[b[2]], relevant)]
                if not binds:
                    # nested constant pattern such as `body: Err(_)` or `Some(Ok(x))`: nothing to traverse if no binding
                    inner_res = [x for x in walk(fp) if x.get("k") in ("TupleStruct", "Struct", "Path")]
                    if inner_res and not hirq.is_catchall(fp):
                        report(key, True, F.where(body, a), "field matched against a constant sub-pattern", None)
                    else:
                        report(key, False, F.where(body, a),
                               "field `%s` (%s) of %s is bound to `_` and never traversed" % (fname, fty, vname), None)
                    continue
                seeds = set(l for _, l, _ in binds)
                der = derived_lids(a["body"], seeds)
                tcs = traversal_calls(a["body"], is_traversal)
                visited = any(any(hirq.uses_local(i, l) for l in der) for c in tcs for i in call_inputs(c))
                report(key, visited, F.where(body, a),
                       "field `%s` (%s) of %s is bound but never reaches a traversal call" % (fname, fty, vname),
                       {"field": fname, "type": fty})
    return n


def check_impl(F, crate, body, relevant, is_traversal, report, exceptions=None, self_fields_of=None,
               skip_dispatch_only=False, whole_reject=None):
    """body: a fact body of `fn traverse(self/&self, ..)`.
    relevant: closure set of ADT paths. report(key, ok, where, detail, sample)."""
    exceptions = exceptions or {}
    impl_self = norm_path(body.get("impl_self") or "")
    adt = crate.adts.get(impl_self)
    n = 0
    if adt is None:
        return 0
    hir = body["hir"]
    self_lid = None
    for p in body.get("params", []):
        if p.get("k") == "Bind" and p.get("name") == "self":
            self_lid = p["lid"]

    def field_types(variant_name):
        for v in adt["variants"]:
            if v["name"] == variant_name or adt["kind"] == "struct":
                return {f["name"]: f["ty"] for f in v["fields"]}
        return {}

    if adt["kind"] == "enum":
        ms = [m for m in hirq.matches(hir) if hirq.unwrap_trivial(m["scrut"]).get("k") == "Path"
              and hirq.unwrap_trivial(m["scrut"]).get("lid") == self_lid]
        if skip_dispatch_only:
            trav = [m for m in ms if any(traversal_calls(a["body"], is_traversal) for a in m["arms"])]
            if trav:
                ms = trav
        for m in ms:
            n += check_match(F, crate, body, m, adt, impl_self.split("::")[-1], relevant, is_traversal, report, exceptions,
                             whole_reject=whole_reject)
    else:
        ftys = field_types(None)
        for fname, fty in ftys.items():
            if not mentions(fty, relevant):
                continue
            key = "%s.%s" % (impl_self.split("::")[-1], fname)
            n += 1
            if key in exceptions:
                report(key, True, F.where(body), "reviewed exception: " + exceptions[key], {"exception": exceptions[key]})
                continue
            # seeds: locals bound from self.<field> (destructuring `let X { f, .. } = self` or field access)
            seeds = set()
            field_nodes = []
            for nde in walk(hir):
                if nde.get("k") == "Field" and nde.get("name") == fname:
                    base = hirq.unwrap_trivial(nde["e"])
                    if base.get("k") == "Path" and base.get("lid") == self_lid:
                        field_nodes.append(nde)
                if nde.get("k") in ("Let", "LetExpr") and "init" in nde and \
                        hirq.unwrap_trivial(nde["init"]).get("lid") == self_lid and self_lid is not None:
                    fps, rest = hirq.field_pats(nde["pat"])
                    if fps and fname in fps:
                        for _, l, _ in hirq.pat_bindings(fps[fname]):
                            seeds.add(l)
            tcs = traversal_calls(hir, is_traversal)
            der = derived_lids(hir, seeds, field_nodes) if (seeds or field_nodes) else set()
            visited = False
            for c in tcs:
                for i in call_inputs(c):
                    if any(hirq.uses_local(i, l) for l in der):
                        visited = True
                    if any(any(x is fn_ for x in walk(i)) for fn_ in field_nodes):
                        visited = True
            report(key, visited, F.where(body),
                   "field `%s` (%s) of %s never reaches a traversal call" % (fname, fty, impl_self.split("::")[-1]),
                   {"field": fname, "type": fty})
    return n


def traverser_closure(crate, base, candidates, relevant, max_iter=20):
    """Least fixpoint of helper functions that pass a parameter of a relevant type on to a traversal:
    base(callee) -> bool recognises the traversal methods themselves; candidates are fact bodies.
    A candidate becomes a traverser when some parameter whose type can contain a relevant type (or a local derived
    from it) is an input of a call to a traverser. Returns {npath: [parameter names]}."""
    trav = {}

    def is_trav(c):
        return base(c) or c in trav
    for _ in range(max_iter):
        changed = False
        for b in candidates:
            if b["npath"] in trav or "hir" not in b:
                continue
            names = []
            for p, ty in zip(b.get("params", []), b.get("inputs", [])):
                if p.get("k") != "Bind" or not mentions(ty, relevant):
                    continue
                der = derived_lids(b["hir"], {p["lid"]})
                tcs = traversal_calls(b["hir"], is_trav)
                if any(any(hirq.uses_local(i, l) for l in der) for c in tcs for i in call_inputs(c)):
                    names.append(p.get("name"))
            if names:
                trav[b["npath"]] = names
                changed = True
        if not changed:
            break
    return trav


def result_leaves(node, lets=None):
    """The expressions a block can evaluate to: tails through blocks / if / match, plus every `return` value below it.
    A tail that is a local bound once by `let` in the same block is replaced by its initialiser."""
    lets = dict(lets or {})
    out = []

    def tails(n):
        n0 = n
        while n.get("k") in ("DropTemps", "Paren", "Use", "Type") and isinstance(n.get("e"), dict):
            n = n["e"]
        k = n.get("k")
        if k == "Block":
            for s in n.get("stmts", []):
                if s.get("k") == "Let" and isinstance(s.get("init"), dict) and hirq.strip_ref(s["pat"]).get("k") == "Bind":
                    lets[hirq.strip_ref(s["pat"])["lid"]] = s["init"]
            if n.get("e") is not None:
                tails(n["e"])
            return
        if k == "If":
            tails(n["then"])
            if n.get("else") is not None:
                tails(n["else"])
            return
        if k == "Match":
            for a in n["arms"]:
                tails(a["body"])
            return
        if k == "Ret":
            return      # collected below
        if k == "Path" and n.get("rk") == "Local" and n.get("lid") in lets:
            init = lets.pop(n["lid"])
            tails(init)
            return
        out.append(n0 if n0 is n else n)
    tails(node)
    for r in walk(node):
        if r.get("k") == "Ret" and isinstance(r.get("e"), dict):
            tails(r["e"])
    return out


def keeps_variant(F, body, report, self_lid=None, plain_fields=(), reviewed=None, crate_bodies=None, depth=0):
    """A rewriting pass `fn analyze(self, ..) -> Self` over an enum hands back the node it was given: in the arm for variant V
    every value the arm can evaluate to is `self`, a V rebuilt from the arm's own bindings, or a Poison.  A field named in
    `plain_fields` (an operator, a type annotation that is not rewritten) must be the arm's binding itself.  Returns the
    number of arms examined."""
    reviewed = reviewed or {}
    adt = norm_path(body.get("impl_self") or "")
    ms = [m for m in hirq.matches(body["hir"]) if hirq.unwrap_trivial(m["scrut"]).get("k") == "Path" and hirq.unwrap_trivial(m["scrut"]).get("res") == "self"]
    if not ms:
        # a pass over a struct (Array, Block, Reference, ..): it either hands every node back as it is (a checking-only impl) or
        # rebuilds every node from its visited children; a mixture means some nodes skip the visit through an early return
        leaves = [hirq.unwrap_trivial(l) for l in result_leaves(body["hir"])]
        selfs = [l for l in leaves if l.get("k") == "Path" and l.get("rk") == "Local" and l.get("res") == "self"]
        rebuilt = [l for l in leaves if l.get("k") == "Struct" and norm_path(l.get("path", "")) == adt]
        if selfs and rebuilt:
            report("%s -> self on some paths" % adt.split("::")[-1], False, F.where(body, selfs[0]),
                   "%s is rebuilt from its visited children on some paths and handed back unvisited on others: what the pass looks for is not found "
                   "in the nodes that take the shortcut" % adt.split("::")[-1], None)
        elif rebuilt:
            report("%s rebuilt on every path" % adt.split("::")[-1], True, F.where(body), "", None)
        return 1 if leaves else 0
    m = max(ms, key=lambda x: len(x["arms"]))
    n = 0
    for a in m["arms"]:
        alts = hirq.pat_alts(a["pat"])
        variants = {"::".join(hirq.pat_key(p).split("::")[-2:]) for p in alts}
        if any(hirq.is_catchall(p) for p in alts):
            variants = None
        n += 1
        fps, _ = hirq.field_pats(alts[0]) if len(alts) == 1 else (None, False)
        for leaf in result_leaves(a["body"]):
            x = hirq.unwrap_trivial(leaf)
            k = x.get("k")
            vkey = "|".join(sorted(v.split("::")[-1] for v in variants)) if variants else "_"
            if k == "Path" and x.get("rk") == "Local" and x.get("res") == "self":
                continue
            ctor = None
            if k == "Struct" and "path" in x:
                ctor = norm_path(x["path"])
            elif k == "Call" and (x.get("ck") or "").startswith("Ctor"):
                ctor = norm_path(x.get("ctor_of") or x.get("callee"))
            elif k == "Path" and (x.get("rk") or "").startswith("Ctor"):
                ctor = norm_path(x.get("ctor_of") or x.get("res"))
            if ctor and ctor.split("::")[-1] == "Poison":
                continue
            if k == "Call" and (hirq.panic_kind(x) or (hirq.callee(x) or "").endswith("FromResidual::from_residual")):
                continue      # diverges / propagates an error
            if ctor and variants is not None and "::".join(ctor.split("::")[-2:]) in variants:
                # rebuilt from the arm's own bindings
                if k == "Struct" and fps is not None:
                    for f in x.get("fields", []):
                        if f["name"] in plain_fields and f["name"] in fps:
                            p = hirq.strip_ref(fps[f["name"]])
                            e = hirq.unwrap_trivial(f["e"])
                            ok = p.get("k") == "Bind" and e.get("k") == "Path" and e.get("lid") == p.get("lid")
                            report("%s.%s" % (vkey, f["name"]), ok, F.where(body, f["e"]),
                                   "the %s of a rebuilt %s is the one of the node at hand" % (f["name"], vkey), None)
                continue
            if k == "Call" and not ctor and depth < 1:
                # a helper of the crate that builds the node: its own results decide (one level)
                hb = crate_bodies.get(hirq.callee(x) or "") if crate_bodies else None
                if hb is not None and "hir" in hb:
                    sub = [hirq.unwrap_trivial(y) for y in result_leaves(hb["hir"])]
                    subc = [norm_path(y.get("path") or y.get("ctor_of") or y.get("callee") or y.get("res") or "") for y in sub
                            if y.get("k") == "Struct" or (y.get("ck") or "").startswith("Ctor") or (y.get("rk") or "").startswith("Ctor")]
                    if sub and len(subc) == len(sub) and variants is not None and all(
                            c.split("::")[-1] == "Poison" or "::".join(c.split("::")[-2:]) in variants for c in subc):
                        continue
            what = ctor.split("::", 2)[-1] if ctor else (k + (" " + str(x.get("name") or hirq.callee(x) or "") if k in ("MethodCall", "Call") else ""))
            key = "%s -> %s" % (vkey, what)
            if key in reviewed:
                report(key + " (reviewed)", True, F.where(body, leaf), reviewed[key], None)
                continue
            report(key, False, F.where(body, leaf),
                   "the arm for %s of %s evaluates to %s: the pass must hand back the node it was given (self, the same variant rebuilt, or a Poison)" % (vkey, adt.split("::")[-1], what), None)
    return n
