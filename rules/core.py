"""Core of the static rule engine: facts loading (with a per-tree-hash cache),
obligation bookkeeping, known findings, evidence and replay files.

Nothing in here (or in any rule) executes penne.  Facts come from the
`pennefacts` rustc_private driver run over /repo's *current working tree*.
"""
import fcntl
import hashlib
import json
import os
import re
import subprocess
import sys
import time

VERIF = os.path.dirname(os.path.dirname(os.path.abspath(__file__)))
REPO = os.environ.get("PENNE_REPO", "/repo")
CACHE = os.path.join(VERIF, ".cache")
HASHED = ["src", "Cargo.toml", "Cargo.lock", "docs/errors.md", "README.md",
          "core", "vendor", "docs/features.md"]


class AnchorMissing(Exception):
    pass


class CannotAnalyse(Exception):
    pass


def tree_hash(repo=REPO):
    h = hashlib.sha256()
    for rel in HASHED:
        p = os.path.join(repo, rel)
        if os.path.isdir(p):
            for root, dirs, files in sorted(os.walk(p)):
                dirs.sort()
                for f in sorted(files):
                    fp = os.path.join(root, f)
                    h.update(os.path.relpath(fp, repo).encode())
                    with open(fp, "rb") as fh:
                        h.update(fh.read())
        elif os.path.isfile(p):
            h.update(rel.encode())
            with open(p, "rb") as fh:
                h.update(fh.read())
    # the driver itself is part of the key
    drv = os.path.join(VERIF, "driver", "src", "main.rs")
    with open(drv, "rb") as fh:
        h.update(fh.read())
    return h.hexdigest()[:24]


_CRATE_RE = re.compile(r"(?<![\w:])penne::")


def norm_path(p):
    """Strip generic argument segments (Tokens::<'a>::consume -> Tokens::consume) and
    shorten inherent-impl segments (m::<impl a::b::T>::f -> m::{T}::f)."""
    if "penne::" in p:
        p = _CRATE_RE.sub("", p)
    out = []
    i = 0
    n = len(p)
    while i < n:
        if p.startswith("::<", i):
            # find the matching '>'
            depth = 0
            j = i + 2
            while j < n:
                if p[j] == "<":
                    depth += 1
                elif p[j] == ">" and not (j > 0 and p[j - 1] == "-"):
                    depth -= 1
                    if depth == 0:
                        break
                j += 1
            seg = p[i + 3:j]
            if seg.startswith("impl ") and not p.startswith(("core::", "std::", "alloc::", "<")):
                ty = seg[5:]
                if " for " in ty:
                    # trait impl for a foreign type: keep `Trait<Arg> for Type` with short names
                    short = re.sub(r"(?:[A-Za-z_][A-Za-z0-9_]*::)+", "", ty)
                    out.append("::{" + short + "}")
                else:
                    # last path component of the self type, without generics
                    k = ty.find("<")
                    base = ty[:k] if k >= 0 else ty
                    base = base.strip().lstrip("&").replace("mut ", "").strip()
                    out.append("::{" + base.split("::")[-1] + "}")
            i = j + 1
            continue
        out.append(p[i])
        i += 1
    return "".join(out)


def _prune_cache(keep):
    if os.environ.get("VERIF_NO_PRUNE"):
        return
    try:
        ents = [e for e in os.listdir(CACHE) if e != keep and not e.endswith(".lock")]
    except FileNotFoundError:
        return
    ents.sort(key=lambda e: os.path.getmtime(os.path.join(CACHE, e)))
    # keep at most 3 old trees
    for e in ents[:-3]:
        subprocess.call(["rm", "-rf", os.path.join(CACHE, e)])


def ensure_facts(cfg, repo=REPO):
    """Return the directory holding penne-lib.json / penne-bin.json for cfg."""
    os.makedirs(CACHE, exist_ok=True)
    th = tree_hash(repo)
    d = os.path.join(CACHE, th, cfg)
    ok = os.path.join(d, "OK")
    if os.path.exists(ok):
        return d, th, False
    # one extraction per (tree, cfg) at a time; different trees may be extracted concurrently (tools/eval-all-seeds runs several)
    lock = os.path.join(CACHE, "extract-%s-%s.lock" % (th, cfg))
    with open(lock, "w") as lf:
        fcntl.flock(lf, fcntl.LOCK_EX)
        if os.path.exists(ok):
            return d, th, False
        os.makedirs(d, exist_ok=True)
        t0 = time.time()
        rc = subprocess.call([os.path.join(VERIF, "bin", "extract-facts"), repo, cfg, d])
        if rc != 0:
            raise CannotAnalyse("fact extraction failed for cfg %s (see %s/cargo.log)" % (cfg, d))
        for k in ("lib", "bin"):
            f = os.path.join(d, "penne-%s.json" % k)
            if not os.path.exists(f) or os.path.getsize(f) < 1000:
                raise CannotAnalyse("facts file missing: " + f)
        with open(ok, "w") as fh:
            fh.write("%.1f\n" % (time.time() - t0))
        _prune_cache(th)
    return d, th, True


def kids(node):
    """Child dict nodes of a HIR/JSON node (in source order)."""
    if isinstance(node, dict):
        for k, v in node.items():
            if isinstance(v, dict):
                yield v
            elif isinstance(v, list):
                for x in v:
                    if isinstance(x, dict):
                        yield x
                    elif isinstance(x, list):
                        for y in x:
                            if isinstance(y, dict):
                                yield y
    elif isinstance(node, list):
        for x in node:
            if isinstance(x, dict):
                yield x


def walk(node, prune=None):
    """Pre-order walk over all dict nodes. prune(node) -> True to skip below."""
    stack = [node]
    while stack:
        n = stack.pop()
        if isinstance(n, dict):
            yield n
            if prune is not None and prune(n):
                continue
            ch = list(kids(n))
            stack.extend(reversed(ch))
        elif isinstance(n, list):
            stack.extend(reversed([x for x in n if isinstance(x, (dict, list))]))


class Crate:
    def __init__(self, path):
        with open(path) as fh:
            d = json.load(fh)
        self.raw = d
        self.types = d["types"]
        self.bodies = {}
        for b in d["bodies"]:
            b["npath"] = norm_path(b["path"])
            # several closures etc. have unique paths; fns too
            self.bodies.setdefault(b["npath"], b)
        self.adts = {norm_path(a["path"]): a for a in d["adts"]}
        self.consts = {norm_path(c["path"]): c for c in d["consts"]}
        self.impls = d["impls"]

    def ty(self, i):
        if i is None:
            return None
        return self.types[i]


class Facts:
    """Facts of one build configuration (lib + bin)."""

    def __init__(self, cfg, repo=REPO):
        self.cfg = cfg
        d, th, fresh = ensure_facts(cfg, repo)
        self.dir = d
        self.tree_hash = th
        self.fresh = fresh
        self.lib = Crate(os.path.join(d, "penne-lib.json"))
        self.bin = Crate(os.path.join(d, "penne-bin.json"))
        self.repo = repo

    def rel(self, f):
        if f and f.startswith(self.repo + "/"):
            return f[len(self.repo) + 1:]
        return f

    # -- lookups (fail closed) -------------------------------------------
    def body(self, path, crate="lib"):
        c = self.lib if crate == "lib" else self.bin
        b = c.bodies.get(path)
        if b is None:
            raise AnchorMissing("function `%s` not found in %s crate (cfg %s)" % (path, crate, self.cfg))
        return b

    def has_body(self, path, crate="lib"):
        c = self.lib if crate == "lib" else self.bin
        return path in c.bodies

    def adt(self, path, crate="lib"):
        c = self.lib if crate == "lib" else self.bin
        a = c.adts.get(path)
        if a is None:
            raise AnchorMissing("type `%s` not found (cfg %s)" % (path, self.cfg))
        return a

    def variants(self, path, crate="lib"):
        return [v["name"] for v in self.adt(path, crate)["variants"]]

    def const(self, path, crate="lib"):
        c = self.lib if crate == "lib" else self.bin
        a = c.consts.get(path)
        if a is None:
            raise AnchorMissing("const `%s` not found (cfg %s)" % (path, self.cfg))
        return a

    def const_value(self, path, crate="lib"):
        c = self.const(path, crate)
        if "value" in c:
            return c["value"]
        if "value_str" in c:
            return int(c["value_str"])
        raise AnchorMissing("const `%s` has no scalar value" % path)

    def bodies_in_file(self, relfile, crate="lib"):
        c = self.lib if crate == "lib" else self.bin
        return [b for b in c.bodies.values() if self.rel(b["file"]) == relfile]

    def where(self, body, node=None):
        line = None
        if isinstance(node, dict):
            line = node.get("l")
        elif isinstance(node, int):
            line = node
        if line is None:
            line = body.get("line")
        return "%s:%s" % (self.rel(body["file"]), line)


# ---------------------------------------------------------------------------


class Run:
    """One check run for one property: collects obligations and writes
    evidence / replay / VIOLATION lines."""

    def __init__(self, prop, tier, replay=None):
        self.floor_short = []
        self.prop = prop
        self.tier = tier
        self.t0 = time.time()
        self.obligations = []   # dicts
        self.infos = []
        self.assumptions = []
        self.counts = {}
        self.analysed = {}
        self.key_prefix = ""
        self.replay_filter = None
        if replay:
            with open(replay) as fh:
                self.replay_filter = json.load(fh)["key"]
        kf = os.path.join(VERIF, "known_findings.json")
        self.known = {}
        self.fixed = []
        if os.path.exists(kf):
            with open(kf) as fh:
                data = json.load(fh)
            for e in data.get("known", []):
                if e["property"] == prop:
                    self.known[e["key"]] = e
            self.fixed = [e for e in data.get("fixed", []) if prop in e]
        self._facts = {}

    def facts(self, cfg):
        if cfg not in self._facts:
            self._facts[cfg] = Facts(cfg)
        return self._facts[cfg]

    # an obligation = one rule instance; ok False -> violation (unless known)
    def ob(self, rule, key, ok, where="", detail="", sample=None):
        full = "%s|%s%s" % (rule, self.key_prefix, key)
        if self.replay_filter is not None and full != self.replay_filter:
            return ok
        self.obligations.append({
            "rule": rule, "key": full, "ok": bool(ok), "where": where,
            "detail": detail, "sample": sample,
        })
        self.counts[rule] = self.counts.get(rule, 0) + 1
        return ok

    def floor(self, rule, minimum, what=""):
        """Fail closed when a rule matched fewer instances than counted by hand."""
        if self.replay_filter is not None:
            return
        n = self.counts.get(rule, 0)
        if n < minimum:
            # deferred: if the shortfall comes with violations of the same check, those are reported (exit 1);
            # alone it means the rule went blind (exit 2)
            self.floor_short.append("rule %s matched %d instances, floor is %d %s" % (rule, n, minimum, what))

    def require(self, cond, what):
        if not cond:
            raise AnchorMissing(what)

    def info(self, text):
        self.infos.append(text)

    def assume(self, text):
        if text not in self.assumptions:
            self.assumptions.append(text)

    def note_analysed(self, what, n=1):
        self.analysed[what] = self.analysed.get(what, 0) + n

    def unknown_failures(self):
        return [o for o in self.obligations if not o["ok"] and o["key"] not in self.known]

    def finish(self, level="other", explanation="", trusted=None, extra=None):
        os.makedirs(os.path.join(VERIF, "evidence"), exist_ok=True)
        os.makedirs(os.path.join(VERIF, "replay"), exist_ok=True)
        viol = []
        known_hit = []
        for o in self.obligations:
            if o["ok"]:
                continue
            if o["key"] in self.known:
                known_hit.append(o)
            else:
                viol.append(o)
        if getattr(self, "floor_short", None) and not viol:
            raise AnchorMissing("; ".join(self.floor_short))
        for o in known_hit:
            print("KNOWN-FINDING: property=%s %s [%s at %s]" % (
                self.prop, self.known[o["key"]]["what"], o["key"], o["where"]))
        n = 0
        no_files = bool(os.environ.get("VERIF_NO_EVIDENCE"))
        for o in viol:
            n += 1
            if no_files:
                print("  %s: rule %s violated at %s: %s" % (self.prop, o["rule"], o["where"], o["detail"]))
                print("VIOLATION property=%s replay=<not written: VERIF_NO_EVIDENCE>" % self.prop)
                continue
            slug = re.sub(r"[^A-Za-z0-9_.-]+", "_", o["key"])[:120]
            rp = os.path.join(VERIF, "replay", "%s-%s.json" % (self.prop, slug))
            with open(rp, "w") as fh:
                json.dump({"property": self.prop, "key": o["key"], "rule": o["rule"],
                           "where": o["where"], "detail": o["detail"], "sample": o["sample"]},
                          fh, indent=1)
            print("  %s: rule %s violated at %s: %s" % (self.prop, o["rule"], o["where"], o["detail"]))
            print("VIOLATION property=%s replay=%s" % (self.prop, rp))
        total = len(self.obligations)
        discharged = sum(1 for o in self.obligations if o["ok"])
        samples = []
        seen_rules = set()
        for o in self.obligations:
            if o["rule"] in seen_rules:
                continue
            seen_rules.add(o["rule"])
            samples.append({"rule": o["rule"], "key": o["key"], "where": o["where"],
                            "holds": o["ok"], "detail": o["detail"][:400],
                            "instance": o["sample"]})
        cov = {
            "obligations": total,
            "discharged": discharged,
            "known_findings_reported": len(known_hit),
            "explanation": explanation,
            "per_rule_instances": self.counts,
            "analysed": self.analysed,
            "samples": samples[:40],
            "checker_cmd": "./check %s --tier %s" % (self.prop, self.tier),
            "trusted_base": trusted or [
                "rustc nightly HIR/typeck/MIR as dumped by /verif/driver (pennefacts)",
                "the Python rule engine under /verif/rules",
                "reference tables and reviewed exception lists embedded in /verif/props",
            ],
            "exhaustive": True,
            "information": self.infos[:60],
            "tree_hash": {c: f.tree_hash for c, f in self._facts.items()},
        }
        if extra:
            cov.update(extra)
        ev = {
            "property_id": self.prop,
            "tier": self.tier,
            "seed": int(os.environ.get("VERIF_SEED", "0") or 0),
            "level": level,
            "coverage": cov,
            "assumptions": self.assumptions,
            "wall_s": round(time.time() - self.t0, 2),
            "violations": len(viol),
        }
        if self.replay_filter is None and not no_files:
            with open(os.path.join(VERIF, "evidence", "%s.json" % self.prop), "w") as fh:
                json.dump(ev, fh, indent=1)
        print("%s [%s]: %d obligations, %d discharged, %d known findings, %d violations (%.1fs)" % (
            self.prop, self.tier, total, discharged, len(known_hit), len(viol), time.time() - self.t0))
        return 1 if viol else 0
