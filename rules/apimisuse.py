"""T13: configured resolved-callee patterns with a known semantic trap."""
import json
import os

from . import hirq
from .core import walk, VERIF, Crate

ITER_METHODS = {"iter", "iter_mut", "into_iter", "keys", "values", "values_mut", "drain", "into_keys", "into_values"}


def _is_hash(types, t):
    if t is None:
        return False
    s = types[t]
    while s.startswith("&"):
        s = s[1:].lstrip()
        if s.startswith("mut "):
            s = s[4:]
    return s.startswith(("std::collections::HashMap<", "std::collections::HashSet<",
                         "std::collections::hash_map::", "std::collections::hash_set::"))


def hash_iterations(crate, body_filter=None):
    """Sites that iterate a std HashMap/HashSet (per-process random order)."""
    out = []
    T = crate.types
    for b in crate.bodies.values():
        if "hir" not in b or (body_filter is not None and not body_filter(b)):
            continue
        for n in walk(b["hir"]):
            if n.get("k") == "MethodCall" and n.get("name") in ITER_METHODS and \
                    (_is_hash(T, n["recv"].get("t")) or _is_hash(T, n["recv"].get("ta"))):
                out.append((b, n, "%s() on %s" % (n["name"], T[n["recv"]["t"]][:70])))
            elif n.get("k") == "Match" and (n.get("msrc") or "").startswith("ForLoopDesugar"):
                sc = n["scrut"]
                if sc.get("k") == "Call" and (sc.get("callee") or "").endswith("into_iter"):
                    a = sc["a"][0]
                    if a.get("k") == "MethodCall" and a.get("name") in ITER_METHODS:
                        continue  # reported as method call
                    if _is_hash(T, a.get("t")) or _is_hash(T, a.get("ta")):
                        out.append((b, n, "for-loop over %s" % T[a["t"]][:70]))
    return out


def lines_offset_sites(crate, body_filter=None):
    """Functions that call str::lines() and also accumulate an offset by `+ 1` per line."""
    out = []
    for b in crate.bodies.values():
        if "hir" not in b or (body_filter is not None and not body_filter(b)):
            continue
        lines_calls = [c for c in hirq.calls(b["hir"]) if (hirq.callee(c) or "") == "core::str::lines"]
        if not lines_calls:
            continue
        for n in walk(b["hir"]):
            if n.get("k") == "AssignOp" and n.get("op") in ("AddAssign", "Add"):
                r = n["rhs"]
                if r.get("k") == "Binary" and r.get("op") == "Add" and (r["rhs"].get("v") == 1 or r["lhs"].get("v") == 1):
                    out.append((b, n, "offset += <line length> + 1 in a function iterating str::lines()"))
    return out


def fixture():
    return Crate(os.path.join(VERIF, "rules", "fixtures", "fx-lib.json"))
