"""Queries over the HIR facts (type-checked, name-resolved syntax trees)."""
from .core import walk, kids, norm_path, AnchorMissing

PANIC_CALLEES = (
    "core::panicking::", "std::rt::begin_panic", "std::rt::panic_fmt",
    "core::panicking::panic_fmt", "std::rt::panic_display",
)

PANIC_MACROS = ("unreachable", "todo", "unimplemented", "panic", "assert", "assert_eq",
                "assert_ne", "debug_assert", "debug_assert_eq", "debug_assert_ne")


def short(p):
    """Last two path segments (Enum::Variant)"""
    if p is None:
        return None
    parts = norm_path(p).split("::")
    return "::".join(parts[-2:]) if len(parts) >= 2 else p


def last(p):
    if p is None:
        return None
    return norm_path(p).split("::")[-1]


def macro_chain(node):
    m = node.get("m")
    if not m:
        return []
    return m.split("<")


def outer_macro(node):
    """Name of the outermost user-written macro of the expansion this node is in."""
    ch = macro_chain(node)
    for name in reversed(ch):
        if name.startswith("desugar:") or name.startswith("astpass:"):
            continue
        return name
    return None


def in_macro(node, name):
    return name in macro_chain(node)


def callee(node):
    """Resolved callee path of a Call / MethodCall node (impl method if resolved)."""
    k = node.get("k")
    if k == "Call":
        return norm_path(node.get("inst") or node.get("callee") or "") or None
    if k == "MethodCall":
        return norm_path(node.get("inst") or node.get("def") or "") or None
    return None


def callee_decl(node):
    """Declared (trait-level) callee path."""
    k = node.get("k")
    if k == "Call":
        return norm_path(node.get("callee") or "") or None
    if k == "MethodCall":
        return norm_path(node.get("def") or "") or None
    return None


def panic_kind(node):
    """If node is the panicking call of a panic-family macro, return macro name."""
    if node.get("k") != "Call":
        return None
    c = node.get("callee") or ""
    if not c.startswith(PANIC_CALLEES):
        return None
    ch = macro_chain(node)
    for name in reversed(ch):
        if name in PANIC_MACROS:
            return name
    return "panic-call"


def calls(node, prune=None):
    """All Call/MethodCall nodes below node (inclusive)."""
    for n in walk(node, prune):
        if n.get("k") in ("Call", "MethodCall"):
            yield n


def calls_to(node, name_pred, prune=None):
    for n in calls(node, prune):
        c = callee(n)
        d = callee_decl(n)
        if (c and name_pred(c)) or (d and name_pred(d)):
            yield n


def matches(node, msrc="Normal"):
    for n in walk(node):
        if n.get("k") == "Match" and (msrc is None or n.get("msrc") == msrc):
            yield n


def pat_alts(pat):
    """Flatten or-patterns at the top level."""
    if pat.get("k") == "Or":
        out = []
        for p in pat["pats"]:
            out.extend(pat_alts(p))
        return out
    return [pat]


def n_alts(match):
    """Number of pattern alternatives of a match, or-patterns flattened: the measure that finder predicates use instead of
    the number of arms, so that merging arms with `|` (or splitting them) does not lose the anchor."""
    return sum(len(pat_alts(a["pat"])) for a in match["arms"])


def strip_ref(pat):
    while pat.get("k") in ("Ref", "Box", "Deref"):
        pat = pat["p"]
    return pat


def pat_res(pat):
    """Resolved variant/struct path that a pattern tests, or None."""
    pat = strip_ref(pat)
    k = pat.get("k")
    if k in ("Struct", "TupleStruct", "Path"):
        r = pat.get("ctor_of") or pat.get("res")
        return norm_path(r) if r else None
    if k == "Bind" and "sub" in pat:
        return pat_res(pat["sub"])
    return None


def is_catchall(pat):
    pat = strip_ref(pat)
    k = pat.get("k")
    if k == "Wild":
        return True
    if k == "Bind" and "sub" not in pat:
        return True
    return False


def pat_key(pat):
    """Canonical, line-free description of a pattern."""
    pat = strip_ref(pat)
    k = pat.get("k")
    if k == "Wild":
        return "_"
    if k == "Bind":
        if "sub" in pat:
            return pat_key(pat["sub"])
        return "_"
    if k == "Or":
        return "|".join(sorted(pat_key(p) for p in pat["pats"]))
    if k in ("Struct", "TupleStruct", "Path"):
        return short(pat_res(pat)) or "?"
    if k == "Lit":
        v = pat.get("v")
        if pat.get("lk") in ("byte", "char") and isinstance(v, int):
            return "ch:%d" % v
        return "lit:%r" % (v,)
    if k == "Range":
        lo = pat_key(pat["lo"]) if "lo" in pat else ""
        hi = pat_key(pat["hi"]) if "hi" in pat else ""
        return "%s..%s%s" % (lo, "=" if pat.get("end") == "Included" else "", hi)
    if k == "Tuple":
        return "(" + ",".join(pat_key(p) for p in pat["pats"]) + ")"
    if k == "Slice":
        return "[slice]"
    return k or "?"


def pat_bindings(pat):
    """All bindings in a pattern: list of (name, lid, type index)."""
    out = []
    for n in walk(pat):
        if n.get("k") == "Bind":
            out.append((n["name"], n["lid"], n.get("t")))
    return out


def field_pats(pat):
    """For a Struct pattern: {field: subpattern}, rest flag."""
    pat = strip_ref(pat)
    if pat.get("k") == "Bind" and "sub" in pat:
        pat = strip_ref(pat["sub"])
    if pat.get("k") != "Struct":
        return None, False
    return {f["name"]: f["p"] for f in pat["fields"]}, bool(pat.get("rest"))


def constructs(node, prune=None):
    """Variants / structs constructed below node: yields (path, node)."""
    for n in walk(node, prune):
        k = n.get("k")
        if k == "Struct" and "path" in n:
            yield norm_path(n["path"]), n
        elif k == "Call" and (n.get("ck") or "").startswith("Ctor"):
            yield norm_path(n.get("ctor_of") or n.get("callee")), n
        elif k == "Path" and not n.get("inpat") and (n.get("rk") or "").startswith("Ctor") and "Const" in n.get("rk", ""):
            yield norm_path(n.get("ctor_of") or n.get("res")), n


def uses_local(node, lid):
    for n in walk(node):
        if n.get("k") == "Path" and n.get("rk") == "Local" and n.get("lid") == lid:
            return True
    return False


def local_uses(node, lid):
    return [n for n in walk(node) if n.get("k") == "Path" and n.get("rk") == "Local" and n.get("lid") == lid]


def lits(node, lk=None):
    for n in walk(node):
        if n.get("k") == "Lit" and (lk is None or n.get("lk") == lk):
            yield n


def find_match(body, scrut_pred=None, arm_pred=None, min_arms=1, all_matches=False):
    """Find match expression(s) in a body by predicate on scrutinee / arms."""
    out = []
    for m in matches(body["hir"], msrc=None):
        if m.get("msrc") not in ("Normal",):
            continue
        if n_alts(m) < min_arms:
            continue
        if scrut_pred is not None and not scrut_pred(m["scrut"]):
            continue
        if arm_pred is not None and not any(arm_pred(a) for a in m["arms"]):
            continue
        out.append(m)
    if all_matches:
        return out
    if not out:
        raise AnchorMissing("no matching `match` found in %s" % body["path"])
    return out[0]


def arm_for(match, variant_short):
    """Arms whose pattern alternatives include the given Enum::Variant."""
    out = []
    for a in match["arms"]:
        for alt in pat_alts(a["pat"]):
            if short(pat_res(alt)) == variant_short or pat_key(alt) == variant_short:
                out.append(a)
                break
    return out


def table(match, outcome):
    """Decision table of a match: list of (pattern key, has_guard, outcome(arm))."""
    rows = []
    for a in match["arms"]:
        for alt in pat_alts(a["pat"]):
            rows.append((pat_key(alt), "guard" in a, outcome(a)))
    return rows


def local_name_of(node):
    if node.get("k") == "Path" and node.get("rk") == "Local":
        return node.get("res")
    return None


def unwrap_trivial(node):
    """Peel blocks with a single tail expression, references, derefs, casts."""
    while True:
        k = node.get("k")
        if k == "Block" and not node.get("stmts") and "e" in node:
            node = node["e"]
        elif k in ("AddrOf", "Use", "Type") and "e" in node:
            node = node["e"]
        elif k == "Unary" and node.get("op") == "Deref":
            node = node["e"]
        else:
            return node


def summarize_bool(node):
    """Compact, line-free summary of a boolean-valued expression."""
    n = unwrap_trivial(node)
    k = n.get("k")
    if k == "Lit":
        return str(n.get("v")).lower()
    if k == "MethodCall":
        recv = unwrap_trivial(n["recv"])
        r = local_name_of(recv) or (recv.get("name") if recv.get("k") in ("MethodCall", "Field") else recv.get("k"))
        args = ",".join(local_name_of(unwrap_trivial(a)) or unwrap_trivial(a).get("k", "?") for a in n.get("a", []))
        return "%s.%s(%s)" % (r, n["name"], args)
    if k == "Binary":
        op = {"Eq": "==", "Ne": "!=", "And": "&&", "Or": "||", "Lt": "<", "Le": "<=", "Gt": ">", "Ge": ">="}.get(n["op"], n["op"])
        return "(%s %s %s)" % (summarize_bool(n["lhs"]), op, summarize_bool(n["rhs"]))
    if k == "Path":
        return n.get("res", "?").split("::")[-1]
    if k == "Unary":
        return "%s%s" % ("!" if n.get("op") == "Not" else n.get("op"), summarize_bool(n["e"]))
    if k == "Call":
        return "%s(..)" % (last(callee(n)) or "call")
    if k == "Field":
        return "%s.%s" % (summarize_bool(n["e"]), n["name"])
    if k == "Block":
        return "{..}"
    return k or "?"


def nested_table(match, prefix=()):
    """Rows of a (possibly nested) match: (tuple of pattern keys, guard summary or None, outcome summary)."""
    rows = []
    for a in match["arms"]:
        body = unwrap_trivial(a["body"])
        g = summarize_bool(a["guard"]) if "guard" in a else None
        for alt in pat_alts(a["pat"]):
            key = prefix + (pat_key(alt),)
            if body.get("k") == "Match" and (body.get("msrc") == "Normal"):
                rows.extend(nested_table(body, key + ((g,) if g else ())))
            else:
                rows.append((key, g, summarize_bool(body)))
    return rows
