"""Queries over the HIR facts (type-checked, name-resolved syntax trees)."""
from .core import walk, kids, norm_path, AnchorMissing

PANIC_CALLEES = (
    "core::panicking::", "std::rt::begin_panic", "std::rt::panic_fmt",
    "core::panicking::panic_fmt", "std::rt::panic_display",
)

PANIC_MACROS = ("unreachable", "todo", "unimplemented", "panic", "assert", "assert_eq",
                "assert_ne", "debug_assert", "debug_assert_eq", "debug_assert_ne")


def short(p):
    """Last two path segments (Enum::Variant)"""
    if p is None:
        return None
    parts = norm_path(p).split("::")
    return "::".join(parts[-2:]) if len(parts) >= 2 else p


def last(p):
    if p is None:
        return None
    return norm_path(p).split("::")[-1]


def macro_chain(node):
    m = node.get("m")
    if not m:
        return []
    return m.split("<")


def outer_macro(node):
    """Name of the outermost user-written macro of the expansion this node is in."""
    ch = macro_chain(node)
    for name in reversed(ch):
        if name.startswith("desugar:") or name.startswith("astpass:"):
            continue
        return name
    return None


def in_macro(node, name):
    return name in macro_chain(node)


def callee(node):
    """Resolved callee path of a Call / MethodCall node (impl method if resolved)."""
    k = node.get("k")
    if k == "Call":
        return norm_path(node.get("inst") or node.get("callee") or "") or None
    if k == "MethodCall":
        return norm_path(node.get("inst") or node.get("def") or "") or None
    return None


def callee_decl(node):
    """Declared (trait-level) callee path."""
    k = node.get("k")
    if k == "Call":
        return norm_path(node.get("callee") or "") or None
    if k == "MethodCall":
        return norm_path(node.get("def") or "") or None
    return None


def panic_kind(node):
    """If node is the panicking call of a panic-family macro, return macro name."""
    if node.get("k") != "Call":
        return None
    c = node.get("callee") or ""
    if not c.startswith(PANIC_CALLEES):
        return None
    ch = macro_chain(node)
    for name in reversed(ch):
        if name in PANIC_MACROS:
            return name
    return "panic-call"


def calls(node, prune=None):
    """All Call/MethodCall nodes below node (inclusive)."""
    for n in walk(node, prune):
        if n.get("k") in ("Call", "MethodCall"):
            yield n


def calls_to(node, name_pred, prune=None):
    for n in calls(node, prune):
        c = callee(n)
        d = callee_decl(n)
        if (c and name_pred(c)) or (d and name_pred(d)):
            yield n


def matches(node, msrc="Normal"):
    for n in walk(node):
        if n.get("k") == "Match" and (msrc is None or n.get("msrc") == msrc):
            yield n


def pat_alts(pat):
    """Flatten or-patterns at the top level."""
    if pat.get("k") == "Or":
        out = []
        for p in pat["pats"]:
            out.extend(pat_alts(p))
        return out
    return [pat]


def n_alts(match):
    """Number of pattern alternatives of a match, or-patterns flattened: the measure that finder predicates use instead of
    the number of arms, so that merging arms with `|` (or splitting them) does not lose the anchor."""
    return sum(len(pat_alts(a["pat"])) for a in match["arms"])


def matches_on_type(crate, hir, type_suffix, min_alts=1):
    """The `match` expressions whose scrutinee has a type ending in type_suffix (references stripped), in source order:
    the way to find "the match over the token kind" without knowing what the local is called."""
    out = []
    for m in matches(hir):
        sc = unwrap_trivial(m["scrut"])
        t = sc.get("t")
        ty = str(crate.ty(t) if isinstance(t, int) else "").replace("&", "").replace("mut ", "").strip()
        if ty.endswith(type_suffix) and n_alts(m) >= min_alts:
            out.append(m)
    return out


def strip_ref(pat):
    while pat.get("k") in ("Ref", "Box", "Deref"):
        pat = pat["p"]
    return pat


def pat_res(pat):
    """Resolved variant/struct path that a pattern tests, or None."""
    pat = strip_ref(pat)
    k = pat.get("k")
    if k in ("Struct", "TupleStruct", "Path"):
        r = pat.get("ctor_of") or pat.get("res")
        return norm_path(r) if r else None
    if k == "Bind" and "sub" in pat:
        return pat_res(pat["sub"])
    return None


def is_catchall(pat):
    pat = strip_ref(pat)
    k = pat.get("k")
    if k == "Wild":
        return True
    if k == "Bind" and "sub" not in pat:
        return True
    return False


def pat_key(pat):
    """Canonical, line-free description of a pattern."""
    pat = strip_ref(pat)
    k = pat.get("k")
    if k == "Wild":
        return "_"
    if k == "Bind":
        if "sub" in pat:
            return pat_key(pat["sub"])
        return "_"
    if k == "Or":
        return "|".join(sorted(pat_key(p) for p in pat["pats"]))
    if k in ("Struct", "TupleStruct", "Path"):
        return short(pat_res(pat)) or "?"
    if k == "Lit":
        v = pat.get("v")
        if pat.get("lk") in ("byte", "char") and isinstance(v, int):
            return "ch:%d" % v
        return "lit:%r" % (v,)
    if k == "Range":
        lo = pat_key(pat["lo"]) if "lo" in pat else ""
        hi = pat_key(pat["hi"]) if "hi" in pat else ""
        return "%s..%s%s" % (lo, "=" if pat.get("end") == "Included" else "", hi)
    if k == "Tuple":
        return "(" + ",".join(pat_key(p) for p in pat["pats"]) + ")"
    if k == "Slice":
        return "[slice]"
    return k or "?"


def pat_bindings(pat):
    """All bindings in a pattern: list of (name, lid, type index)."""
    out = []
    for n in walk(pat):
        if n.get("k") == "Bind":
            out.append((n["name"], n["lid"], n.get("t")))
    return out


def field_pats(pat):
    """For a Struct pattern: {field: subpattern}, rest flag."""
    pat = strip_ref(pat)
    if pat.get("k") == "Bind" and "sub" in pat:
        pat = strip_ref(pat["sub"])
    if pat.get("k") != "Struct":
        return None, False
    return {f["name"]: f["p"] for f in pat["fields"]}, bool(pat.get("rest"))


def constructs(node, prune=None):
    """Variants / structs constructed below node: yields (path, node)."""
    for n in walk(node, prune):
        k = n.get("k")
        if k == "Struct" and "path" in n:
            yield norm_path(n["path"]), n
        elif k == "Call" and (n.get("ck") or "").startswith("Ctor"):
            yield norm_path(n.get("ctor_of") or n.get("callee")), n
        elif k == "Path" and not n.get("inpat") and (n.get("rk") or "").startswith("Ctor") and "Const" in n.get("rk", ""):
            yield norm_path(n.get("ctor_of") or n.get("res")), n


def uses_local(node, lid):
    for n in walk(node):
        if n.get("k") == "Path" and n.get("rk") == "Local" and n.get("lid") == lid:
            return True
    return False


def local_uses(node, lid):
    return [n for n in walk(node) if n.get("k") == "Path" and n.get("rk") == "Local" and n.get("lid") == lid]


def lits(node, lk=None):
    for n in walk(node):
        if n.get("k") == "Lit" and (lk is None or n.get("lk") == lk):
            yield n


def find_match(body, scrut_pred=None, arm_pred=None, min_arms=1, all_matches=False):
    """Find match expression(s) in a body by predicate on scrutinee / arms."""
    out = []
    for m in matches(body["hir"], msrc=None):
        if m.get("msrc") not in ("Normal",):
            continue
        if n_alts(m) < min_arms:
            continue
        if scrut_pred is not None and not scrut_pred(m["scrut"]):
            continue
        if arm_pred is not None and not any(arm_pred(a) for a in m["arms"]):
            continue
        out.append(m)
    if all_matches:
        return out
    if not out:
        raise AnchorMissing("no matching `match` found in %s" % body["path"])
    return out[0]


def arm_for(match, variant_short):
    """Arms whose pattern alternatives include the given Enum::Variant."""
    out = []
    for a in match["arms"]:
        for alt in pat_alts(a["pat"]):
            if short(pat_res(alt)) == variant_short or pat_key(alt) == variant_short:
                out.append(a)
                break
    return out


def table(match, outcome):
    """Decision table of a match: list of (pattern key, has_guard, outcome(arm))."""
    rows = []
    for a in match["arms"]:
        for alt in pat_alts(a["pat"]):
            rows.append((pat_key(alt), "guard" in a, outcome(a)))
    return rows


def local_name_of(node):
    if node.get("k") == "Path" and node.get("rk") == "Local":
        return node.get("res")
    return None


def unwrap_trivial(node):
    """Peel blocks with a single tail expression, references, derefs, casts."""
    while True:
        k = node.get("k")
        if k == "Block" and not node.get("stmts") and "e" in node:
            node = node["e"]
        elif k in ("AddrOf", "Use", "Type") and "e" in node:
            node = node["e"]
        elif k == "Unary" and node.get("op") == "Deref":
            node = node["e"]
        else:
            return node


def canon_params(body):
    """lid -> canonical name for the parameters of a body: `self` stays, the others become $1, $2, .. by position (source
    names of locals are free: rules must not depend on them)."""
    env = {}
    i = 0
    for p in body.get("params", []) or []:
        pat = p.get("pat", p)
        if pat.get("k") == "Bind":
            if pat.get("name") == "self":
                env[pat["lid"]] = "self"
            else:
                i += 1
                env[pat["lid"]] = "$%d" % i
        else:
            i += 1
    return env


def canon_of(node, env):
    """Canonical name of a place expression under env, or None: locals via env, `.as_ref()` / `&` / `*` transparent,
    field reads as `<base>.<field>`."""
    n = unwrap_trivial(node)
    k = n.get("k")
    if k == "Path" and n.get("rk") == "Local":
        return env.get(n.get("lid"))
    if k in ("AddrOf", "Unary") and (k == "AddrOf" or n.get("op") == "Deref"):
        return canon_of(n["e"], env)
    if k == "MethodCall" and n.get("name") in ("as_ref", "as_mut", "deref", "as_deref", "borrow") and not n.get("a"):
        return canon_of(n["recv"], env)
    if k == "Field":
        b = canon_of(n["e"], env)
        return "%s.%s" % (b, n["name"]) if b else None
    return None


def bind_pattern(pat, base, env):
    """Extend env with the bindings of `pat` matched against the place called `base`."""
    if not isinstance(pat, dict) or base is None:
        return
    pat = strip_ref(pat)
    k = pat.get("k")
    if k == "Bind":
        env[pat["lid"]] = base
        if "sub" in pat:
            bind_pattern(pat["sub"], base, env)
    elif k == "Struct":
        for f in pat.get("fields", []):
            bind_pattern(f["p"], "%s.%s" % (base, f["name"]), env)
    elif k in ("TupleStruct", "Tuple"):
        for i, q in enumerate(pat.get("pats", [])):
            bind_pattern(q, "%s.%d" % (base, i), env)
    elif k == "Or":
        for q in pat.get("pats", []):
            bind_pattern(q, base, env)


def full_env(body, inline_lets=True):
    """lid -> canonical name for every local of a body: parameters by position (`self`, $1, $2 ..), pattern bindings by the
    place they are bound to (`self.value_type`, `$1.element_type`, for a non-place scrutinee `{summary}.field`), and let-bound
    locals by the summary of their initialiser in braces (`{self.value_type.is_signed()}`), so that tables extracted with
    summarize_bool do not depend on the names the source happens to use."""
    env = canon_params(body)
    hir = body.get("hir")

    def base_of(e):
        c = canon_of(e, env)
        if c:
            return c
        return "{%s}" % summarize_bool(e, env)
    for n in walk(hir):
        k = n.get("k")
        if k == "Match":
            sc = unwrap_trivial(n["scrut"])
            if sc.get("k") == "Tup":
                # `match (a, b) { (X { f }, Y { g }) => ..`: bind position by position to the elements
                elems = [base_of(e) for e in sc.get("a", [])]
                for a in n["arms"]:
                    for alt in pat_alts(a["pat"]):
                        q = strip_ref(alt)
                        if q.get("k") == "Tuple" and len(q.get("pats", [])) == len(elems):
                            for sub, eb in zip(q["pats"], elems):
                                bind_pattern(sub, eb, env)
                        else:
                            bind_pattern(alt, "(%s)" % ",".join(elems), env)
                continue
            base = base_of(n["scrut"])
            for a in n["arms"]:
                for alt in pat_alts(a["pat"]):
                    bind_pattern(alt, base, env)
        elif k == "Closure":
            for i, q in enumerate(n.get("params", []) or []):
                bind_pattern(q, "$c%d" % (i + 1), env)
        elif k in ("Let", "LetExpr") and isinstance(n.get("init"), dict):
            pat = strip_ref(n["pat"])
            if pat.get("k") == "Bind" and "sub" not in pat:
                if inline_lets:
                    c = canon_of(n["init"], env)
                    env[pat["lid"]] = c if c else "{%s}" % summarize_bool(n["init"], env)
            else:
                bind_pattern(pat, base_of(n["init"]), env)
    return env


def summarize_bool(node, env=None):
    """Compact, line-free summary of a boolean-valued expression.  With env (lid -> canonical name, see canon_params /
    bind_pattern) locals are printed by what they denote instead of by their source name."""
    n = unwrap_trivial(node)
    k = n.get("k")

    def name_of(x):
        x = unwrap_trivial(x)
        if env is not None:
            c = canon_of(x, env)
            if c:
                return c
        return local_name_of(x)
    if k == "Lit":
        return str(n.get("v")).lower()
    if k == "MethodCall":
        recv = unwrap_trivial(n["recv"])
        r = name_of(recv) or (summarize_bool(recv, env) if env is not None and recv.get("k") in ("MethodCall", "Field") else None) \
            or (recv.get("name") if recv.get("k") in ("MethodCall", "Field") else recv.get("k"))
        args = ",".join(name_of(a) or unwrap_trivial(a).get("k", "?") for a in n.get("a", []))
        return "%s.%s(%s)" % (r, n["name"], args)
    if k == "Binary":
        op = {"Eq": "==", "Ne": "!=", "And": "&&", "Or": "||", "Lt": "<", "Le": "<=", "Gt": ">", "Ge": ">="}.get(n["op"], n["op"])
        return "(%s %s %s)" % (summarize_bool(n["lhs"], env), op, summarize_bool(n["rhs"], env))
    if k == "Path":
        if env is not None and n.get("rk") == "Local" and n.get("lid") in env:
            return env[n["lid"]]
        return n.get("res", "?").split("::")[-1]
    if k == "Unary":
        return "%s%s" % ("!" if n.get("op") == "Not" else n.get("op"), summarize_bool(n["e"], env))
    if k == "Call":
        return "%s(..)" % (last(callee(n)) or "call")
    if k == "Field":
        return "%s.%s" % (summarize_bool(n["e"], env), n["name"])
    if k == "Block":
        return "{..}"
    if k == "Tup":
        return "(%s)" % ",".join(summarize_bool(x, env) for x in n.get("a", []))
    if k == "Match":
        sc = unwrap_trivial(n["scrut"])
        if "Try" in str(n.get("msrc")) and sc.get("k") == "Call" and sc.get("a"):
            return "%s?" % summarize_bool(sc["a"][0], env)        # `e?`
        return "match(%s)" % summarize_bool(sc, env)
    return k or "?"


def nested_table(match, prefix=(), env=None):
    """Rows of a (possibly nested) match: (tuple of pattern keys, guard summary or None, outcome summary).  With env (see
    canon_params) the bindings of each arm are named after the place they are bound to (`self.element_type`, `$1.length`),
    so that the table does not depend on the names chosen in the source."""
    rows = []
    base = canon_of(match["scrut"], env) if env is not None else None
    for a in match["arms"]:
        body = unwrap_trivial(a["body"])
        for alt in pat_alts(a["pat"]):
            e2 = env
            if env is not None:
                e2 = dict(env)
                bind_pattern(alt, base, e2)
            g = summarize_bool(a["guard"], e2) if "guard" in a else None
            key = prefix + (pat_key(alt),)
            if body.get("k") == "Match" and (body.get("msrc") == "Normal"):
                rows.extend(nested_table(body, key + ((g,) if g else ()), e2))
            else:
                rows.append((key, g, summarize_bool(body, e2)))
    return rows


def _children(n):
    for k, v in n.items():
        if isinstance(v, dict):
            if "k" in v:
                yield k, v
            else:
                for kk, vv in v.items():
                    if isinstance(vv, dict) and "k" in vv:
                        yield k + "." + kk, vv
        elif isinstance(v, list):
            for x in v:
                if isinstance(x, dict):
                    if "k" in x:
                        yield k, x
                    else:
                        for kk, vv in x.items():
                            if isinstance(vv, dict) and "k" in vv:
                                yield k + "." + kk, vv


DISCARDING_ADAPTORS = ("ok", "err", "unwrap_or", "unwrap_or_default", "unwrap_or_else", "is_ok", "is_err", "map", "map_err", "and_then", "or_else")


def discarded_values(root, wanted):
    """Expressions below root for which wanted(node) holds and whose value is thrown away: an expression statement (`e;`), a
    `let _ = e`, or either of these after adaptors that cannot fail the function (`.ok()`, `.unwrap_or_default()`, ...).
    Yields (node, how)."""
    def visit(n, parents):
        if wanted(n):
            # climb through adaptors
            i = len(parents) - 1
            how = []
            cur = n
            while i >= 0:
                p, slot = parents[i]
                pk = p.get("k")
                if pk in ("DropTemps", "Paren", "Use", "Type") and slot == "e":
                    cur = p
                    i -= 1
                    continue
                if pk == "MethodCall" and slot == "recv" and p.get("name") in DISCARDING_ADAPTORS:
                    how.append("." + p["name"] + "()")
                    cur = p
                    i -= 1
                    continue
                break
            if i >= 0:
                p, slot = parents[i]
                pk = p.get("k")
                if pk in ("Semi",) and slot == "e":
                    yield n, "".join(how) + ";"
                elif pk == "Block" and slot == "stmts":
                    yield n, "".join(how) + ";"
                elif pk == "Let" and slot == "init" and strip_ref(p.get("pat", {})).get("k") == "Wild":
                    yield n, "let _ = .." + "".join(how)
        for slot, c in _children(n):
            parents.append((n, slot))
            yield from visit(c, parents)
            parents.pop()
    yield from visit(root, [])


def increments(node):
    """Statements that add to a local: `x += e`, `x = x + e`, `x = e + x`.  Yields (lhs Path node, statement node)."""
    for n in walk(node):
        if n.get("k") == "AssignOp" and n.get("op") in ("Add", "AddAssign"):
            l = unwrap_trivial(n["lhs"])
            if l.get("k") == "Path" and l.get("rk") == "Local":
                yield l, n
        elif n.get("k") == "Assign":
            l = unwrap_trivial(n["lhs"])
            r = unwrap_trivial(n["rhs"])
            if l.get("k") == "Path" and l.get("rk") == "Local" and r.get("k") == "Binary" and r.get("op") == "Add" and \
                    any(unwrap_trivial(r[s]).get("k") == "Path" and unwrap_trivial(r[s]).get("lid") == l.get("lid") for s in ("lhs", "rhs")):
                yield l, n
