"""Decision tables over a set of flags, read off typed HIR by folding.

A piece of code that chooses between enum values (`LLVMLinkage::..`, `LLVMCallConv::..`) by testing
`flags.contains(DeclarationFlag::X)` is a finite function of the flag set.  Its *form* is free (one `if` with `||`, nested
ifs, intermediate bools, tuples that carry two decisions at once, a helper function): this module evaluates the value of
an expression under every assignment of the flags it tests, following let-bound locals back to their initialisers through
`if` / `match` on booleans / tuples / blocks.  Nothing of the crate is compiled or run; anything outside the small
expression language makes the evaluation fail closed (CannotAnalyse)."""
import itertools
from . import hirq
from .core import walk, CannotAnalyse


class _Unknown(Exception):
    pass


def flags_tested(node, contains_suffix="EnumSet::contains"):
    out = set()
    for c in hirq.calls(node):
        if (hirq.callee(c) or hirq.callee_decl(c) or "").split("<")[0].endswith(contains_suffix.split("::")[-1]) and c.get("k") == "MethodCall" and c.get("name") == "contains":
            for x in walk(c["a"][0] if c.get("a") else {}):
                r = str(x.get("ctor_of") or x.get("res") or "")
                if "DeclarationFlag::" in r:
                    out.add(r.split("::")[-1])
    return out


class Folder:
    def __init__(self, body, defs_scope, assignment, helper_bodies=None):
        self.body = body
        self.assignment = assignment            # flag name -> bool
        self.helpers = helper_bodies or {}
        self.lets = {}                          # lid -> (pattern path, init expr)
        for n in walk(defs_scope):
            if n.get("k") in ("Let", "LetExpr") and isinstance(n.get("init"), dict):
                self._bind(n["pat"], n["init"], ())

    def _bind(self, pat, init, path):
        pat = hirq.strip_ref(pat)
        k = pat.get("k")
        if k == "Bind":
            self.lets[pat["lid"]] = (path, init)
            if "sub" in pat:
                self._bind(pat["sub"], init, path)
        elif k == "Tuple":
            for i, q in enumerate(pat.get("pats", [])):
                self._bind(q, init, path + (i,))

    def ev(self, n, depth=0):
        if depth > 40:
            raise _Unknown()
        n = hirq.unwrap_trivial(n)
        k = n.get("k")
        if k == "Lit":
            v = n.get("v")
            if isinstance(v, (bool, int)):
                return v
            raise _Unknown()
        if k == "Path":
            if n.get("rk") == "Local":
                lid = n.get("lid")
                if lid not in self.lets:
                    raise _Unknown()
                path, init = self.lets[lid]
                v = self.ev(init, depth + 1)
                for i in path:
                    if not isinstance(v, tuple) or i >= len(v):
                        raise _Unknown()
                    v = v[i]
                return v
            r = str(n.get("ctor_of") or n.get("res") or "")
            if "::" in r and str(n.get("rk", "")).startswith(("Ctor", "Const", "AssocConst")):
                return "::".join(r.split("::")[-2:])
            raise _Unknown()
        if k == "Cast":
            return self.ev(n["e"], depth + 1)
        if k == "Unary" and n.get("op") == "Not":
            return not self.ev(n["e"], depth + 1)
        if k == "Binary":
            op = n.get("op")
            if op == "Or":
                return bool(self.ev(n["lhs"], depth + 1)) or bool(self.ev(n["rhs"], depth + 1))
            if op == "And":
                return bool(self.ev(n["lhs"], depth + 1)) and bool(self.ev(n["rhs"], depth + 1))
            if op in ("Eq", "Ne"):
                a, b = self.ev(n["lhs"], depth + 1), self.ev(n["rhs"], depth + 1)
                return (a == b) if op == "Eq" else (a != b)
            raise _Unknown()
        if k == "MethodCall" and n.get("name") == "contains":
            fl = [str(x.get("ctor_of") or x.get("res") or "").split("::")[-1] for x in walk(n["a"][0]) if "DeclarationFlag::" in str(x.get("ctor_of") or x.get("res") or "")]
            if len(fl) == 1 and fl[0] in self.assignment:
                return self.assignment[fl[0]]
            raise _Unknown()
        if k == "Tup":
            return tuple(self.ev(x, depth + 1) for x in n.get("a", []))
        if k == "If":
            c = self.ev(n["cond"], depth + 1)
            if c:
                return self.ev(n["then"], depth + 1)
            if n.get("else") is None:
                raise _Unknown()
            return self.ev(n["else"], depth + 1)
        if k == "Block":
            for s in n.get("stmts", []):
                if s.get("k") == "Let" and isinstance(s.get("init"), dict):
                    self._bind(s["pat"], s["init"], ())
            if n.get("e") is None:
                raise _Unknown()
            return self.ev(n["e"], depth + 1)
        if k == "Match":
            v = self.ev(n["scrut"], depth + 1)
            for a in n["arms"]:
                for alt in hirq.pat_alts(a["pat"]):
                    q = hirq.strip_ref(alt)
                    if q.get("k") == "Wild" or (q.get("k") == "Lit" and q.get("v") == v) or \
                            (q.get("k") == "Path" and "::".join(str(q.get("res")).split("::")[-2:]) == v):
                        return self.ev(a["body"], depth + 1)
            raise _Unknown()
        if k == "Call":
            c = hirq.callee(n) or ""
            hb = self.helpers.get(c)
            if hb is not None:
                # a helper taking the flag set: evaluate its body under the same assignment
                sub = Folder(hb, hb["hir"], self.assignment, self.helpers)
                return sub.ev(hb["hir"], depth + 1)
            raise _Unknown()
        raise _Unknown()


def table(body, expr, flags, defs_scope=None, helper_bodies=None):
    """{frozenset(flags that are set): value of expr} over all assignments of `flags`."""
    out = {}
    flags = sorted(flags)
    for bits in itertools.product((False, True), repeat=len(flags)):
        asg = dict(zip(flags, bits))
        try:
            out[frozenset(f for f in flags if asg[f])] = Folder(body, defs_scope if defs_scope is not None else body["hir"], asg, helper_bodies).ev(expr)
        except _Unknown:
            raise CannotAnalyse("flagfn: the value of the expression at line %s of %s does not fold over the flags %s" % (expr.get("l"), body.get("npath"), flags))
    return out
