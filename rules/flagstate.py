"""Interprocedural may-typestate over boolean flag fields of an analyzer struct.

Domain: tuples over {'E', 0, 1} per flag ('E' = value at function entry) for exit
summaries, concrete {0,1} tuples for reachable call-site states.  Field writes
`(*analyzer).flag = const` are MIR statements; calls to functions of the module
apply the callee's exit summary; std calls that receive a closure created
earlier in the function may run it zero or more times."""
from . import mirq, typestate
from .core import norm_path


class FlagModule:
    def __init__(self, F, relfile, flags, struct_suffix):
        self.F = F
        self.flags = tuple(flags)
        self.struct_suffix = struct_suffix
        self.types = F.lib.types
        self.fns = {p: b for p, b in F.lib.bodies.items() if F.rel(b["file"]) == relfile and "mir" in b}
        self.cfgs = {p: mirq.CFG(b) for p, b in self.fns.items()}
        self.created = {p: {c: blk for c, blk in self._closures_created(cfg).items() if c in self.fns}
                        for p, cfg in self.cfgs.items()}
        self.ctx = {p: self._context(cfg) for p, cfg in self.cfgs.items()}
        self.summary = {p: set() for p in self.fns}
        self._summaries()

    def _is_flag_place(self, place):
        fp = mirq.field_proj(place)
        if fp and fp[-1][0] in self.flags and norm_path(fp[-1][1]).endswith(self.struct_suffix):
            return fp[-1][0]
        return None

    def _context(self, cfg):
        """Per function: which temporaries hold Option::None / Option::Some (flags of Option type are 0 / 1), and which
        temporaries are `&mut analyzer.flag` references."""
        optval, refs = {}, {}
        for blk in cfg.blocks:
            for st in blk["s"]:
                d, r = st["d"], st["r"]
                if not isinstance(d, int):
                    continue
                if r.get("k") == "Agg" and str(r.get("adt", "")).endswith("option::Option"):
                    optval.setdefault(d, set()).add(0 if r.get("variant") == "None" else 1)
                elif r.get("k") == "Ref" and self._is_flag_place(r.get("p")):
                    refs[d] = self._is_flag_place(r.get("p"))
                else:
                    optval.setdefault(d, set()).add(None)
            t = blk["t"]
            if t.get("k") == "Call" and isinstance(t.get("dest"), int):
                optval.setdefault(t["dest"], set()).add(None)
        return {"optval": optval, "refs": refs}

    # ---- field writes
    def flag_write(self, stmt, ctx=None):
        """(flag, set of possible values) for a statement writing a flag field, else None."""
        flag = self._is_flag_place(stmt["d"]) if isinstance(stmt["d"], dict) else None
        if not flag:
            return None
        r = stmt["r"]
        if r.get("k") == "Use":
            c = mirq.op_const(r["a"])
            if c in (0, 1):
                return flag, {c}
            l = mirq.op_local(r["a"])
            if l is not None and ctx is not None:
                vals = ctx["optval"].get(l, set())
                if vals and None not in vals:
                    return flag, set(vals)
        if r.get("k") == "Agg" and str(r.get("adt", "")).endswith("option::Option"):
            return flag, {0 if r.get("variant") == "None" else 1}
        return flag, {0, 1}

    def write(self, st, flag, vals):
        idx = self.flags.index(flag)
        out = set()
        for s in st:
            for v in vals:
                t = list(s)
                t[idx] = v
                out.add(tuple(t))
        return out

    def make_stmt_transfer(self, p):
        ctx = self.ctx[p]

        def stmt_transfer(stmt, st):
            w = self.flag_write(stmt, ctx)
            if not w:
                return st
            return self.write(st, w[0], w[1])
        return stmt_transfer

    def stmt_transfer(self, stmt, st):
        w = self.flag_write(stmt)
        if not w:
            return st
        return self.write(st, w[0], w[1])

    def apply_summary(self, summ, st):
        out = set()
        for s in st:
            for u in summ:
                out.add(tuple(s[i] if u[i] == "E" else u[i] for i in range(len(self.flags))))
        return out

    @staticmethod
    def _closures_created(cfg):
        created = {}
        for i in sorted(cfg.reach):
            for s in cfg.blocks[i]["s"]:
                r = s["r"]
                if r.get("k") == "Agg" and "closure" in r:
                    created[norm_path(r["closure"])] = i
        return created

    def live_closures(self, cfg, created, t):
        blk = None
        for i in cfg.reach:
            if cfg.term(i) is t:
                blk = i
        out = []
        for cl, cb in created.items():
            if blk is not None and (blk == cb or blk in cfg.reachable_from(cfg.succ[cb])):
                out.append(cl)
        return out

    def takes_closure(self, t, cfg):
        for a in t.get("args", []):
            l = mirq.op_local(a)
            if l is not None:
                ty = cfg.mir["locals"][l]["ty"]
                if "{closure" in self.types[ty]:
                    return True
        return False

    def make_transfer(self, p):
        cfg = self.cfgs[p]
        created = self.created[p]

        refs = self.ctx[p]["refs"]

        def transfer(t, st):
            c = mirq.call_target(t)
            if c in self.fns:
                return self.apply_summary(self.summary.get(c, set()), st)
            # `&mut analyzer.flag` handed to a std function: Option::take leaves None, anything else may write anything
            for a in t.get("args", []):
                l = mirq.op_local(a)
                if l in refs:
                    if c is not None and c.endswith("option::Option::take"):
                        st = self.write(st, refs[l], {0})
                    elif c is not None and c.endswith(("option::Option::is_some", "option::Option::is_none", "option::Option::as_ref")):
                        pass
                    else:
                        st = self.write(st, refs[l], {0, 1})
            if c is not None and not c.startswith(("alpha::", "<alpha::", "delta::", "<delta::")) and created:
                live = self.live_closures(cfg, created, t)
                if not live or not self.takes_closure(t, cfg):
                    return st
                out = set(st)
                changed = True
                while changed:
                    changed = False
                    for cl in live:
                        new = self.apply_summary(self.summary.get(cl, set()), out)
                        if not new <= out:
                            out |= new
                            changed = True
                return out
            return st
        return transfer

    def exit_states(self, cfg, inst, p=None):
        out = set()
        stf = self.make_stmt_transfer(p) if p is not None else self.stmt_transfer
        for b in cfg.exits():
            st = set(inst.get(b, set()))
            for stmt in cfg.blocks[b]["s"]:
                st = stf(stmt, st)
            out |= st
        return out

    def _summaries(self):
        sym = {tuple("E" for _ in self.flags)}
        for _ in range(60):
            changed = False
            for p, cfg in self.cfgs.items():
                inst = typestate.run(cfg, sym, self.make_transfer(p), None, None, stmt_transfer=self.make_stmt_transfer(p))
                ex = self.exit_states(cfg, inst, p)
                if ex != self.summary[p]:
                    self.summary[p] = ex
                    changed = True
            if not changed:
                break

    def reachable_calls(self, roots):
        """Concrete pass from root entry states. Returns entries per fn and records {fn: [(block, terminator, pre-states)]}."""
        entries = {p: set() for p in self.fns}
        for p, st in roots.items():
            entries[p] |= st
        records = {}
        for _ in range(60):
            changed = False
            for p, cfg in self.cfgs.items():
                if not entries[p]:
                    continue
                recs = []

                def observe(u, t, st, recs=recs):
                    recs.append((u, t, set(st)))
                typestate.run(cfg, entries[p], self.make_transfer(p), None, observe, stmt_transfer=self.make_stmt_transfer(p))
                records[p] = recs
                for u, t, st in recs:
                    c = mirq.call_target(t)
                    if c in self.fns and not st <= entries[c]:
                        entries[c] |= st
                        changed = True
                    if c is not None and not c.startswith(("alpha::", "<alpha::", "delta::", "<delta::")) and self.takes_closure(t, cfg):
                        for cl in self.live_closures(cfg, self.created[p], t):
                            pre = set(st)
                            grow = True
                            while grow:
                                new = self.apply_summary(self.summary.get(cl, set()), pre)
                                grow = not new <= pre
                                pre |= new
                            if not pre <= entries[cl]:
                                entries[cl] |= pre
                                changed = True
            if not changed:
                break
        return entries, records
