"""Extraction of the lexical tables of both lexers (alpha: chars, delta: bytes)
from their HIR: operators with look-ahead, keywords, suffixes, escapes,
identifier classes, whitespace.  Shared by C09, C14, C19, C20."""
from . import hirq
from .core import walk, AnchorMissing

ALPHA_LEX = "alpha::lexer::lex_line"
DELTA_LEX = "delta::lexer::lex_source_into_buffer"

# alpha Token variant -> delta BaseToken variant where names differ
TOKEN_RENAME = {"Bool": "BoolLiteral", "Type": "ValueTypeKeyword"}


def tok(name):
    if name is None:
        return None
    n = name.split("::")[-1]
    return TOKEN_RENAME.get(n, n)


def char_lits(pat):
    """Character/byte literals (as code points) and ranges inside a pattern."""
    out = []
    for n in walk(pat):
        if n.get("k") == "Lit" and n.get("lk") in ("char", "byte"):
            out.append(n["v"])
    return out


def pat_chars(pat):
    """Alternatives of a top-level pattern as keys: 'c' code point or (lo,hi) range."""
    res = []
    for alt in hirq.pat_alts(pat):
        alt = hirq.strip_ref(alt)
        if alt.get("k") == "Lit" and alt.get("lk") in ("char", "byte"):
            res.append(alt["v"])
        elif alt.get("k") == "Range":
            lo = alt.get("lo", {}).get("v")
            hi = alt.get("hi", {}).get("v")
            res.append((lo, hi))
        elif hirq.is_catchall(alt):
            res.append("_")
        else:
            res.append("?")
    return res


def token_constructs(node, enum_suffix):
    return [p.split("::")[-1] for p, _ in hirq.constructs(node) if p.rsplit("::", 1)[0].endswith(enum_suffix)]


def main_match(F, fn):
    b = F.body(fn)
    ms = [m for m in hirq.matches_on_type(F.lib, b["hir"], "char", 21) + hirq.matches_on_type(F.lib, b["hir"], "u8", 21)
          if hirq.unwrap_trivial(m["scrut"]).get("k") == "Path"]
    if len(ms) != 1:
        raise AnchorMissing("the main match over the current character of %s was not found (%d candidates)" % (fn, len(ms)))
    return b, ms[0]


def is_peek(node):
    node = hirq.unwrap_trivial(node)
    return node.get("k") == "MethodCall" and node.get("name") == "peek"


def is_next(node):
    node = hirq.unwrap_trivial(node)
    return node.get("k") == "MethodCall" and node.get("name") in ("next", "next_if") and \
        hirq.local_name_of(hirq.unwrap_trivial(node["recv"])) == "iter"


class LexTables:
    def __init__(self, F, which):
        self.which = which
        self.fn = ALPHA_LEX if which == "alpha" else DELTA_LEX
        self.enum = "lexer::Token" if which == "alpha" else "lexer::BaseToken"
        self.body, self.match = main_match(F, self.fn)
        self.single = {}        # ch -> token
        self.double = {}        # ch -> {next ch or None: token or 'COMMENT'}
        self.whitespace = set()
        self.ident_start = []
        self.digit_arms = {}
        self.quote_arms = {}    # quote ch -> arm
        self.fallthrough = None
        self.keywords = {}      # spelling -> (token, value type, bool)
        self.ident_arm = None
        self._classify(F)

    def _classify(self, F):
        for a in self.match["arms"]:
            chars = pat_chars(a["pat"])
            body = hirq.unwrap_trivial(a["body"])
            toks = token_constructs(a["body"], self.enum)
            if chars == ["_"]:
                self.fallthrough = a
                continue
            if any(isinstance(c, tuple) for c in chars):
                # ranges: identifier start or nonzero digit
                if (97, 122) in chars:
                    self.ident_start = chars
                    self.ident_arm = a
                elif (49, 57) in chars:
                    self.digit_arms["1-9"] = a
                continue
            if chars == [48]:
                self.digit_arms["0"] = a
                continue
            if set(chars) <= {34, 39}:
                for c in chars:
                    self.quote_arms[c] = a
                continue
            if body.get("k") == "Match" and is_peek(body["scrut"]):
                tbl = {}
                for ia in body["arms"]:
                    cl = char_lits(ia["pat"])
                    itoks = token_constructs(ia["body"], self.enum)
                    out = tok(itoks[0]) if len(itoks) == 1 else ("COMMENT" if not itoks else "?")
                    if hirq.is_catchall(ia["pat"]):
                        tbl[None] = out
                    elif len(cl) == 1:
                        tbl[cl[0]] = out
                    else:
                        tbl["?"] = out
                for c in chars:
                    self.double[c] = tbl
                continue
            if len(toks) == 1 and body.get("k") == "Call":
                for c in chars:
                    self.single[c] = tok(toks[0])
                continue
            if not toks:
                # no token produced: whitespace-like arm
                for c in chars:
                    self.whitespace.add(c)
                continue
            for c in chars:
                self.single[c] = "?" + ",".join(toks)
        if self.ident_arm is not None:
            self._keywords(F)

    def _keywords(self, F):
        kms = [m for m in hirq.matches(self.ident_arm["body"]) if hirq.n_alts(m) >= 20]
        if len(kms) != 1:
            raise AnchorMissing("keyword match not found in %s" % self.fn)
        self.keyword_match = kms[0]
        suffix = suffix_table(F, self.which)
        for a in kms[0]["arms"]:
            spellings = []
            for alt in hirq.pat_alts(a["pat"]):
                alt = hirq.strip_ref(alt)
                if alt.get("k") == "Lit" and alt.get("lk") in ("str", "bytes"):
                    spellings.append(alt["v"])
            if not spellings:
                continue
            toks = token_constructs(a["body"], self.enum)
            vts = [p.split("::")[-1] for p, _ in hirq.constructs(a["body"])
                   if p.rsplit("::", 1)[0].endswith("ValueType") or p.rsplit("::", 1)[0].endswith("ValueTypeKeyword")]
            bools = [n["v"] for n in hirq.lits(a["body"], "bool")]
            ints = [n["v"] for n in hirq.lits(a["body"], "int")]
            via_suffix = any((hirq.callee(c) or "").endswith("parse_integer_suffix") for c in hirq.calls(a["body"]))
            # .. or through another lookup function of the lexer that maps spellings to type keywords (one level)
            via_table = None
            if not vts and not via_suffix:
                for c in hirq.calls(a["body"]):
                    cn = hirq.callee(c) or ""
                    if cn.startswith(self.fn.rsplit("::", 1)[0] + "::") and F.has_body(cn):
                        try:
                            hm = hirq.find_match(F.body(cn), min_arms=5)
                        except AnchorMissing:
                            continue
                        t_ = {}
                        for ha in hm["arms"]:
                            hv = [p_.split("::")[-1] for p_, _ in hirq.constructs(ha["body"]) if "ValueType" in p_.rsplit("::", 1)[0]]
                            for halt in hirq.pat_alts(ha["pat"]):
                                halt = hirq.strip_ref(halt)
                                if halt.get("k") == "Lit" and halt.get("lk") in ("str", "bytes") and hv:
                                    t_[halt["v"]] = hv[0]
                        if t_:
                            via_table = t_
            for sp in spellings:
                vt = vts[0] if vts else None
                if via_suffix:
                    vt = suffix.get(sp)
                elif via_table is not None:
                    vt = via_table.get(sp)
                bv = None
                if tok(toks[0] if toks else None) == "BoolLiteral":
                    if bools:
                        bv = bool(bools[0])
                    elif ints:
                        bv = bool(ints[0])
                self.keywords[sp] = (tok(toks[0]) if toks else None, vt, bv)

    def escape_tables(self):
        """quote char -> {escape char: byte value or 'complex'}; plus catch-all kinds"""
        out = {}
        for q, arm in self.quote_arms.items():
            ms = [m for m in hirq.matches(arm["body"]) if is_next(m["scrut"])]
            if len(ms) != 1:
                raise AnchorMissing("escape match (match iter.next()) not found for quote %r in %s (%d)" % (chr(q), self.fn, len(ms)))
            tbl = {}
            for a in ms[0]["arms"]:
                cl = char_lits(a["pat"])
                if len(cl) == 1:
                    body = hirq.unwrap_trivial(a["body"])
                    val = "complex"
                    if body.get("k") in ("Call", "MethodCall"):
                        bl = [n["v"] for n in hirq.lits(body) if n.get("lk") in ("byte", "char", "int")]
                        if len(bl) == 1:
                            val = bl[0]
                    tbl[cl[0]] = val
            out[q] = tbl
        return out


def suffix_table(F, which):
    fn = "alpha::lexer::parse_integer_suffix" if which == "alpha" else "delta::lexer::parse_integer_suffix"
    b = F.body(fn)
    try:
        m = hirq.find_match(b, min_arms=5)
    except AnchorMissing:
        # the table may live in a helper that this function hands its argument to (one level): every spelling the helper knows and
        # this function passes on is then an accepted suffix
        helpers = [hirq.callee(c) for c in hirq.calls(b["hir"]) if (hirq.callee(c) or "").startswith(fn.rsplit("::", 1)[0] + "::") and F.has_body(hirq.callee(c))]
        ms = []
        for h in helpers:
            try:
                ms.append(hirq.find_match(F.body(h), min_arms=5))
            except AnchorMissing:
                pass
        if len(ms) != 1:
            raise
        m = ms[0]
    tbl = {}
    for a in m["arms"]:
        for alt in hirq.pat_alts(a["pat"]):
            alt = hirq.strip_ref(alt)
            if alt.get("k") == "Lit" and alt.get("lk") in ("str", "bytes"):
                vts = [p.split("::")[-1] for p, _ in hirq.constructs(a["body"])
                       if "ValueType" in p.rsplit("::", 1)[0]]
                tbl[alt["v"]] = vts[0] if vts else None
    return tbl


def ident_continuation(F, which):
    """Classes of characters that continue an identifier, as maximal runs of code points: the classifier is a pure function
    of one character, so its definition is folded over the code points 0..0x3FF (rules/bytefn.py; ASCII, Latin-1, Latin
    Extended, Greek -- enough to see a Unicode predicate where an ASCII one is meant) whatever form it is written in."""
    from . import bytefn
    fn = "alpha::lexer::is_identifier_continuation" if which == "alpha" else "delta::lexer::is_identifier_continuation"
    b = F.body(fn)
    dom = range(0x400) if which == "alpha" else range(256)
    t = bytefn.table(b, dom)
    acc = [x for x in dom if t[x] is True]
    classes = set()
    i = 0
    while i < len(acc):
        j = i
        while j + 1 < len(acc) and acc[j + 1] == acc[j] + 1:
            j += 1
        classes.add((acc[i], acc[j]) if j > i else acc[i])
        i = j + 1
    return classes


def in_class(classes, cp):
    for c in classes:
        if isinstance(c, tuple):
            if c[0] <= cp <= c[1]:
                return True
        elif c == cp:
            return True
    return False
