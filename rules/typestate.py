"""Small forward typestate/product dataflow over a MIR CFG.

Abstract state at a block = set of hashable tuples.  `transfer(t, states)`
rewrites the states across a call terminator; `bool_filter(t)` may return a
pair (f_true, f_false) of functions filtering the states on the two edges of
the SwitchInt that tests the call's bool result directly.  `observe(block, t,
states)` is called once per reachable call terminator with the final states
*before* the call."""
from . import mirq


def run(cfg, init, transfer, bool_filter=None, observe=None, max_iter=10000, stmt_transfer=None):
    instate = {0: set(init)}
    edge_filter = {}
    if bool_filter is not None:
        for u, t in cfg.calls():
            ff = bool_filter(t)
            if ff is None:
                continue
            sw = mirq.bool_switch_after_call(cfg, u)
            if sw is None:
                continue
            nb = t["to"]
            tt, ft = sw
            edge_filter[(nb, tt)] = ff[0]
            edge_filter[(nb, ft)] = ff[1]
    work = [0]
    it = 0
    while work and it < max_iter:
        it += 1
        b = work.pop()
        st = set(instate.get(b, set()))
        if stmt_transfer is not None:
            for stmt in cfg.blocks[b]["s"]:
                st = set(stmt_transfer(stmt, st))
        t = cfg.term(b)
        if t["k"] == "Call":
            st = set(transfer(t, st))
        for v in cfg.succ[b]:
            out = st
            f = edge_filter.get((b, v))
            if f is not None:
                out = set(s for s in st if f(s))
            old = instate.get(v)
            if old is None:
                instate[v] = set(out)
                work.append(v)
            elif not out <= old:
                old |= out
                work.append(v)
    if observe is not None:
        for u, t in cfg.calls():
            if u in instate:
                st = set(instate[u])
                if stmt_transfer is not None:
                    for stmt in cfg.blocks[u]["s"]:
                        st = set(stmt_transfer(stmt, st))
                observe(u, t, st)
    return instate
