// Positive controls for rules whose expected match count on penne is zero.
use std::collections::{HashMap, HashSet};

pub fn for_over_hashset(s: HashSet<(usize, usize)>, out: &mut Vec<usize>)
{
	for (a, _b) in s
	{
		out.push(a);
	}
}

pub fn method_iter_over_hashmap(m: &HashMap<u32, u32>, out: &mut Vec<u32>)
{
	for (k, _v) in m.iter()
	{
		out.push(*k);
	}
	let _ks: Vec<&u32> = m.keys().collect();
}

pub fn todo_site(x: u8) -> u8
{
	match x
	{
		0 => todo!(),
		1 => unimplemented!(),
		_ => x,
	}
}

pub fn lines_with_offset(source: &str) -> usize
{
	let mut offset = 0;
	for line in source.lines()
	{
		offset += line.chars().count() + 1;
	}
	offset
}
