"""T4: interprocedural path-balance analysis over MIR control-flow graphs.

Events carry integer weights:
  * a resolved call to a primitive callee (`prim`): constant weight;
  * a call to a bool-returning primitive (`prim_true`): weight on the edge the
    CFG takes when the result is true (the SwitchInt on the direct result,
    through copies and `Not`); if the result is not switched on directly the
    weight is dropped -- callers state which direction is conservative;
  * a call to a function of the analysed region: the callee's summary.
The solver computes, per function, the maximum (mode='max') or minimum
(mode='min') total weight over all CFG paths from entry to a `Return`.
Loops/recursion whose weight can grow without bound are reported with a
witness (function + blocks of the cycle).  All paths are considered feasible,
so a max-summary over-approximates and a min-summary under-approximates the
real extremum: a bound proven on the summary holds on every real execution.
"""
from . import mirq

INF = float("inf")


class Result:
    def __init__(self):
        self.summary = {}     # fn -> weight (may be +-inf)
        self.unbounded = []   # [(fn, [blocks], [lines])]
        self.dropped = []     # conditional weights that could not be placed
        self.functions = 0
        self.blocks = 0
        self.edges = 0
        self.call_sites = 0
        self.witness = {}     # fn -> list of (line, event) along an extremal path


SITE_OVERRIDE = None  # optional callable (fn, terminator) -> weight or None


def _edges(cfg, prim, prim_true, summary, region, mode, res, fn):
    """Weighted edges of one function's CFG under the current summaries."""
    E = []
    extra = {}  # (u,v) -> additional weight
    dead = -INF if mode == "max" else INF
    for u in sorted(cfg.reach):
        t = cfg.term(u)
        if t["k"] == "Call":
            c = mirq.call_target(t)
            d = mirq.call_decl(t)
            w = 0
            ov = SITE_OVERRIDE(fn, t) if SITE_OVERRIDE is not None else None
            if ov is not None:
                w = ov
            elif c in prim:
                w = prim[c]
            elif d in prim:
                w = prim[d]
            elif c in prim_true or d in prim_true:
                wt = prim_true.get(c, prim_true.get(d))
                sw = mirq.bool_switch_after_call(cfg, u)
                nb = t.get("to")
                if sw is not None and nb is not None and len([p for p in cfg.pred[nb] if p in cfg.reach]) == 1:
                    extra[(nb, sw[0])] = extra.get((nb, sw[0]), 0) + wt
                else:
                    placed = _place_via_then_some(cfg, u, wt, extra)
                    if not placed:
                        res.dropped.append((fn, t["l"], c))
            elif c in region:
                w = summary.get(c, dead)
            if t.get("to") is not None:
                if w in (INF, -INF) and w == dead:
                    continue  # callee never returns: edge is dead
                E.append((u, t["to"], w, (t["l"], c)))
        else:
            for v in cfg.succ[u]:
                E.append((u, v, 0, None))
    if extra:
        E2 = []
        seen = set()
        for (u, v, w, ev) in E:
            if (u, v) in extra and (u, v) not in seen:
                seen.add((u, v))
                E2.append((u, v, w + extra[(u, v)], (cfg.term(u)["l"], "true-edge %+d" % extra[(u, v)])))
            else:
                E2.append((u, v, w, ev))
        E = E2
    return E


def _place_via_then_some(cfg, u, wt, extra):
    """`flag = prim_true(..).then_some(v)` ... `if let Some(..) = flag`: put the
    weight on the Some-edge of the (unique, loop-free) discriminant switch."""
    t = cfg.term(u)
    d = t.get("dest")
    nb = t.get("to")
    if nb is None or not isinstance(d, int):
        return False
    t2 = cfg.term(nb)
    if t2["k"] != "Call" or (mirq.call_target(t2) or "") != "core::bool::then_some":
        return False
    if not t2["args"] or mirq.op_local(t2["args"][0]) != d:
        return False
    o = t2.get("dest")
    if not isinstance(o, int):
        return False
    # aliases of o (moves into a named local)
    aliases = {o}
    changed = True
    while changed:
        changed = False
        for blk in cfg.blocks:
            for s in blk["s"]:
                if s["r"].get("k") == "Use" and mirq.op_local(s["r"]["a"]) in aliases \
                        and isinstance(s["d"], int) and s["d"] not in aliases:
                    aliases.add(s["d"])
                    changed = True
    sws = [sw for sw in mirq.discr_switches(cfg)
           if isinstance(sw["place"], int) and sw["place"] in aliases]
    if len(sws) != 1:
        return False
    sw = sws[0]
    b = sw["block"]
    # the switch must not sit in a loop (one consumption, one subtraction)
    if b in cfg.reachable_from(cfg.succ[b]):
        return False
    some = sw["targets"].get(1)
    if some is None:
        return False
    extra[(b, some)] = extra.get((b, some), 0) + wt
    return True


def _extremal(cfg, E, mode):
    """Bellman-Ford longest/shortest path from block 0.
    Returns (dist dict, parent dict, cycle_blocks or None)."""
    better = (lambda a, b: a > b) if mode == "max" else (lambda a, b: a < b)
    dist = {0: 0}
    parent = {}
    n = len(cfg.reach)
    changed_edge = None
    for it in range(n + 1):
        changed_edge = None
        for (u, v, w, ev) in E:
            if u not in dist:
                continue
            nd = dist[u] + w
            if v not in dist or better(nd, dist[v]):
                dist[v] = nd
                parent[v] = (u, ev)
                changed_edge = (u, v)
        if changed_edge is None:
            break
    if changed_edge is not None:
        # unbounded cycle: walk parents from v to find the cycle
        v = changed_edge[1]
        for _ in range(n):
            v = parent[v][0]
        cyc = [v]
        x = parent[v][0]
        while x != v and len(cyc) <= n:
            cyc.append(x)
            x = parent[x][0]
        cyc.reverse()
        return dist, parent, cyc
    return dist, parent, None


def solve(crate, region, prim, prim_true=None, mode="max", max_rounds=None):
    """region: set of function paths (with MIR) to analyse interprocedurally."""
    prim_true = prim_true or {}
    res = Result()
    cfgs = {}
    for fn in sorted(region):
        b = crate.bodies.get(fn)
        if b is None or "mir" not in b:
            continue
        cfgs[fn] = mirq.CFG(b)
    region = set(cfgs)
    res.functions = len(cfgs)
    res.blocks = sum(len(c.reach) for c in cfgs.values())
    dead = -INF if mode == "max" else INF
    summary = {fn: dead for fn in cfgs}
    rounds = max_rounds or (len(cfgs) * 4 + 20)
    unb = {}
    last_parent = {}
    for r in range(rounds):
        changed = False
        res.dropped = []
        for fn, cfg in cfgs.items():
            if fn in unb:
                continue
            E = _edges(cfg, prim, prim_true, summary, region, mode, res, fn)
            dist, parent, cyc = _extremal(cfg, E, mode)
            if cyc is not None:
                unb[fn] = cyc
                summary[fn] = INF if mode == "max" else -INF
                changed = True
                continue
            vals = [dist[x] for x in cfg.exits() if x in dist]
            if not vals:
                s = dead
            else:
                s = max(vals) if mode == "max" else min(vals)
            last_parent[fn] = (dist, parent)
            if s != summary[fn]:
                summary[fn] = s
                changed = True
        if not changed:
            break
    else:
        # still changing after the round cap: recursion with unbounded weight
        for fn in cfgs:
            if fn not in unb and summary[fn] not in (INF, -INF):
                pass
        res.unbounded.append(("<recursion>", [], []))
    for fn, cyc in unb.items():
        cfg = cfgs[fn]
        res.unbounded.append((fn, cyc, sorted({cfg.term(b)["l"] for b in cyc})))
    res.summary = summary
    res.edges = sum(len(_edges(cfg, prim, prim_true, summary, region, mode, Result(), fn))
                    for fn, cfg in cfgs.items())
    # witnesses: events along the extremal path of each function
    for fn, (dist, parent) in last_parent.items():
        cfg = cfgs[fn]
        ex = [x for x in cfg.exits() if x in dist]
        if not ex:
            continue
        best = max(ex, key=lambda x: dist[x]) if mode == "max" else min(ex, key=lambda x: dist[x])
        path = []
        x = best
        guard = 0
        while x in parent and guard < 10000:
            u, ev = parent[x]
            if ev is not None:
                path.append(ev)
            x = u
            guard += 1
        path.reverse()
        res.witness[fn] = path
    return res


def recursion_growth(crate, region, prim, prim_true=None, mode="max"):
    """Detect unbounded growth through recursion: solve with increasing round
    caps and compare."""
    a = solve(crate, region, prim, prim_true, mode, max_rounds=len(region) * 2 + 10)
    b = solve(crate, region, prim, prim_true, mode, max_rounds=len(region) * 4 + 40)
    grow = [fn for fn in a.summary if a.summary[fn] != b.summary[fn]]
    return b, grow
