"""C18 -- the command line tool reports outcomes faithfully."""
import re
from rules import hirq, mirq
from rules.core import walk, norm_path, AnchorMissing

LEVEL = "other"
EXPLANATION = (
    "Static analysis of src/main.rs and alpha/stdout.rs (cfg B, bin + lib crates). Process status and bytes for "
    "concrete invocations are NOT decided. Decided: R1 exit status plumbing: main returns do_main()'s Result; in "
    "compile_to_ir_using_alpha no path from the success edge of a show_errors::<Errors> call reaches the function's "
    "Ok(..) exit (diagnosed errors always end in `return Err`), while lints are shown without failing; R2 "
    "generate_output: under is_lli the child's exit code is shown through stdout.output and a signal becomes an error; "
    "otherwise status.success() is required; the IR is piped to the backend's stdin; R3 backend resolution order in "
    "get_backend: flag, then std::env::var(name), then config file, then default, and MainArgs::try_from passes "
    "(PENNE_BACKEND, clang) for build and (PENNE_LLI, lli) for run; R4 --out-dir: inside the per-module loop, under "
    "Some(out_dir): set_extension(\"pn.ll\") < create_dir_all < fs::write(outputpath, ir) where ir is that iteration's "
    "generate_ir() result; R5 StdOut: every method that writes to self.stdout starts with the `is_silent` early return "
    "which dominates every write, and progress chatter is additionally under is_verbose; ColorChoice/CharSet tables "
    "map options to termcolor/ariadne one-to-one."
    " ADDED LATER: R3-BACKEND-SOURCES: the slots of get_backend are fed from the command line and the parsed config file respectively; R4 the emitted file name is injective in the module path; R6 text coloured by penne itself takes its colour from the filtered Colors; R7 the output path may be missing for the two reviewed reasons only."
    " ROUND 7: R1-EXIT-STATUS also: main has no early return and builds no Result of its own; R4-OUT-DIR follows one level of helper."
    " ROUND 8: R4-OUT-DIR 'no two modules share a file' (set_extension replaces: the write is dominated by an insert into the set of written paths whose 'already there' edge leaves without writing) and 'an existing file is replaced, not overlaid' (std::fs::write, File::create, or OpenOptions with truncate)."
    " ROUND 10: R2-BACKEND-INVOKED: the flag that lets do_main skip generate_output is produced by a field of the resolved arguments, which is a literal in every arm of MainArgs::try_from and true in exactly one (emit)."
    " ROUND 11: R1-ERRORS-FAIL 'the source is lexed as read': no statement before lexer::lex in the per-file loop changes the source text (an empty file must reach the lexer empty, E101).")

SO = "alpha::stdout::StdOut::"


def r1_status(run, F):
    m = F.bin.bodies.get("main")
    run.require(m is not None, "main not found in bin crate")
    tail = hirq.unwrap_trivial(m["hir"].get("e", {}))
    # main's value is do_main()'s Result: the tail expression is the call itself or a local initialised from it (its name is free)
    from rules import origins as _or
    o = _or.origins(m["hir"], tail, m.get("params", ())) if tail else set()
    ok = ("call", "do_main") in o and not any(k[0] == "call" and str(k[1]).split("::")[-1] in ("Ok", "Err", "map", "or", "and_then", "map_err") for k in o)
    # ... on every exit: main has no early return and builds no Result of its own (an `Ok(())` for some kinds of failure turns a
    # failed backend into exit status 0)
    own = [hirq.short(p) for p, _ in hirq.constructs(m["hir"]) if hirq.short(p).split("::")[-1] in ("Ok", "Err")]
    early = [n for n in walk(m["hir"]) if n.get("k") == "Ret"]
    ok = ok and not own and not early
    run.ob("R1-EXIT-STATUS", "main returns do_main()", bool(ok), F.where(m), "the process status is do_main()'s Result")
    c = F.bin.bodies.get("compile_to_ir_using_alpha")
    run.require(c is not None, "compile_to_ir_using_alpha not found (cfg B)")
    cfg = mirq.CFG(c)
    ok_blocks = set()
    for i in sorted(cfg.reach):
        for s in cfg.blocks[i]["s"]:
            if s["d"] == 0 and s["r"].get("k") == "Agg" and s["r"].get("adt", "").endswith("Result") and s["r"].get("variant") == "Ok":
                ok_blocks.add(i)
    run.require(ok_blocks, "Ok(..) exit of compile_to_ir_using_alpha not found")
    n_err, n_lint = 0, 0
    for i, t in cfg.calls():
        if mirq.call_target(t) == SO + "show_errors":
            g = t.get("g", "")
            is_errors = g.split(",")[0].strip().endswith("::Errors")
            reach = cfg.reachable_from([t["to"]]) if t.get("to") is not None else set()
            if is_errors:
                n_err += 1
                run.ob("R1-ERRORS-FAIL", "show_errors::<Errors>@%d" % n_err, not (reach & ok_blocks), F.where(c, t),
                       "after diagnosed errors were shown, compilation must fail: no path may reach the Ok(..) exit")
            else:
                n_lint += 1
                run.ob("R1-LINTS-DO-NOT-FAIL", "show_errors::<Vec<Lint>>", bool(reach & ok_blocks), F.where(c, t), "lints are warnings: compilation continues")
    run.ob("R1-ERRORS-FAIL", "sites", n_err == 2 and n_lint == 1, F.where(c), "%d error sites, %d lint site" % (n_err, n_lint))
    # Err(errors) arms of the two checks lead to show_errors
    d = F.bin.bodies.get("do_main")
    cs = [hirq.callee(x) for x in hirq.calls(d["hir"])]
    run.ob("R1-EXIT-STATUS", "do_main runs compile then backend", "compile_to_ir_using_alpha" in cs and "generate_output" in cs and SO + "done" in cs, F.where(d),
           "do_main: compile, run the backend, report Done")


def r2_output(run, F):
    g = F.bin.bodies.get("generate_output")
    run.require(g is not None, "generate_output not found")
    ifs = [n for n in walk(g["hir"]) if n.get("k") == "If" and "else" in n and hirq.local_name_of(hirq.unwrap_trivial(n["cond"])) == "is_lli"]
    ok = False
    for n in ifs:
        tc = [hirq.callee(x) or "" for x in hirq.calls(n["then"])]
        ec = [hirq.callee(x) or "" for x in hirq.calls(n["else"])]
        if any(x.endswith("ExitStatus::code") for x in tc) and SO + "output" in tc and any(x.endswith("ok_or_else") for x in tc) and \
                any(x.endswith("ExitStatus::success") for x in ec):
            ok = True
    run.ob("R2-BACKEND-STATUS", "generate_output", ok, F.where(g),
           "`penne run` shows the program's exit code (status.code() -> stdout.output) and treats a signal as an error; other backends must succeed")
    cs = [hirq.callee(x) or "" for x in hirq.calls(g["hir"])]
    run.ob("R2-BACKEND-STATUS", "IR piped to stdin", any(x.endswith("write_all") for x in cs) and any(x.endswith("Command::spawn") for x in cs) and any(x.endswith("Child::wait") for x in cs),
           F.where(g), "the generated IR is written to the backend's stdin and the child is awaited")
    e = F.bin.bodies.get("error_from_status")
    run.ob("R2-BACKEND-STATUS", "signal -> error", e is not None and any(x.get("k") == "Call" for x in walk(e["hir"])), F.where(e) if e else "src/main.rs",
           "a backend killed by a signal yields an error")


def method_chain(node):
    names = []
    x = hirq.unwrap_trivial(node)
    while x.get("k") == "MethodCall":
        names.append((x["name"], x))
        x = hirq.unwrap_trivial(x["recv"])
    names.reverse()
    return names, x


def r3_backend(run, F):
    b = F.bin.bodies.get("get_backend")
    run.require(b is not None, "get_backend not found")
    gp = [q.get("name") for q in b.get("params", [])]
    run.require(len(gp) == 4, "get_backend: expected (flag, env var, config, default) parameters, found %s" % gp)
    P_FLAG, P_ENV, P_CONFIG, P_DEFAULT = gp
    chain, base = method_chain(b["hir"].get("e", {}))
    names = [n for n, _ in chain]
    ok = names == ["map", "or_else", "or_else", "unwrap_or_else"] and hirq.local_name_of(base) == P_FLAG
    srcs = []
    for n, node in chain:
        cl = node["a"][0] if node.get("a") else {}
        cs = [hirq.callee(x) or "" for x in hirq.calls(cl)]
        loc = [x.get("res") for x in walk(cl) if x.get("k") == "Path" and x.get("rk") == "Local"]
        if any(c == "std::env::var" for c in cs):
            srcs.append("env")
        elif P_CONFIG in loc:
            srcs.append("config")
        elif P_DEFAULT in loc:
            srcs.append("default")
        else:
            srcs.append("flag" if n == "map" else "?")
    chain_ok = ok and srcs == ["flag", "env", "config", "default"]
    if not chain_ok and b["hir"].get("k") == "Block" and b["hir"].get("stmts"):
        # early-return form: one statement per source, in order of precedence; the first three return when their source is present
        def source_of(node):
            cs = [hirq.callee(x) or "" for x in hirq.calls(node)]
            loc = [x.get("res") for x in walk(node) if x.get("k") == "Path" and x.get("rk") == "Local"]
            out = []
            if P_FLAG in loc:
                out.append("flag")
            if any(c == "std::env::var" for c in cs):
                out.append("env")
            if P_CONFIG in loc:
                out.append("config")
            if P_DEFAULT in loc:
                out.append("default")
            return out

        def returns_when_present(st, src):
            st = hirq.unwrap_trivial(st.get("e", st)) if st.get("k") in ("Semi", "Expr") else st
            if st.get("k") == "If":
                cond = hirq.unwrap_trivial(st["cond"])
                some = cond.get("k") == "LetExpr" and hirq.pat_key(cond["pat"]).endswith("Some")
                return some and any(x.get("k") == "Ret" for x in walk(st["then"])) and not any(x.get("k") == "Ret" for x in walk(st.get("else") or {}))
            if st.get("k") == "Match":
                res = {}
                for a in st["arms"]:
                    for alt in hirq.pat_alts(a["pat"]):
                        key = hirq.pat_key(alt)
                        res["Ok" if key.endswith("Ok") else "NotPresent" if "NotPresent" in json_dumps(alt) else "Err"] = any(x.get("k") == "Ret" for x in walk(a["body"]))
                return res.get("Ok") is True and res.get("NotPresent") is False
            return False
        import json as _json
        json_dumps = _json.dumps
        seq = list(b["hir"]["stmts"]) + ([b["hir"]["e"]] if b["hir"].get("e") is not None else [])
        srcs = [source_of(x) for x in seq]
        names = ["early-return"]
        chain_ok = srcs == [["flag"], ["env"], ["config"], ["default"]] and all(returns_when_present(seq[i], srcs[i][0]) for i in range(3))
    run.ob("R3-BACKEND-ORDER", "get_backend", chain_ok, F.where(b),
           "backend = flag, else environment variable, else config file, else default: chain %s sources %s" % (names, srcs), sample={"chain": names, "sources": srcs})
    tf = [x for p, x in F.bin.bodies.items() if p.endswith("TryFrom<Cli>>::try_from") or (p.endswith("::try_from") and "MainArgs" in p)]
    run.require(tf, "MainArgs::try_from not found")
    calls = []
    for c in hirq.calls(tf[0]["hir"]):
        if hirq.callee(c) == "get_backend":
            calls.append([hirq.unwrap_trivial(a).get("v") for a in c["a"] if hirq.unwrap_trivial(a).get("k") == "Lit"])
    # the slots of get_backend are fed from the right sources at each call site: slot 0 = the command line, slot 2 = the config file
    t0 = tf[0]
    arm_binds = set()
    for m in hirq.matches(t0["hir"]):
        for a in m["arms"]:
            for _, lid, _ in hirq.pat_bindings(a["pat"]):
                arm_binds.add(lid)
    lets = {}
    for n in walk(t0["hir"]):
        if n.get("k") == "Let" and "init" in n:
            for _, lid, _ in hirq.pat_bindings(n["pat"]):
                lets[lid] = n["init"]
    nsites = 0
    for c in hirq.calls(t0["hir"]):
        if hirq.callee(c) != "get_backend" or len(c.get("a", [])) != 4:
            continue
        nsites += 1
        a0, a2 = hirq.unwrap_trivial(c["a"][0]), hirq.unwrap_trivial(c["a"][2])
        envname = hirq.unwrap_trivial(c["a"][1]).get("v")

        def field_of(n, depth=0):
            if n.get("k") == "Path" and n.get("rk") == "Local" and n.get("lid") in lets and depth < 4:
                return field_of(hirq.unwrap_trivial(lets[n["lid"]]), depth + 1)  # `let flag = args.backend;`
            if n.get("k") == "Field" and n.get("name") == "backend":
                b = hirq.unwrap_trivial(n["e"])
                if b.get("k") == "Path" and b.get("rk") == "Local":
                    return b.get("lid")
            return None
        l0 = field_of(a0)
        run.ob("R3-BACKEND-SOURCES", "%s|flag slot" % envname, l0 is not None and l0 in arm_binds, F.where(t0, c),
               "the first argument of get_backend must be exactly the --backend option of the parsed command line "
               "(anything merged into it would outrank the environment variable)")
        l2 = field_of(a2)
        is_none = a2.get("k") == "Path" and str(a2.get("res", "")).endswith("::None")
        from_cfg = l2 is not None and l2 in lets and any("toml::" in (hirq.callee(x) or "") for x in hirq.calls(lets[l2]))
        run.ob("R3-BACKEND-SOURCES", "%s|config slot" % envname, is_none or from_cfg, F.where(t0, c),
               "the third argument of get_backend must be the backend key of the parsed config file (or None where the subcommand has no config file)")
        if envname == "PENNE_BACKEND":
            run.ob("R3-BACKEND-SOURCES", "%s|config consulted" % envname, from_cfg, F.where(t0, c),
                   "`penne build --config FILE` must pass the config file's backend in the config slot, below the environment variable")
    run.require(nsites == 2, "expected two get_backend call sites in MainArgs::try_from (found %d)" % nsites)
    run.ob("R3-BACKEND-ORDER", "names and defaults", sorted(calls) == sorted([["PENNE_BACKEND", "clang"], ["PENNE_LLI", "lli"]]), F.where(tf[0]),
           "build: PENNE_BACKEND / clang; run: PENNE_LLI / lli: %s" % calls)


def r4_outdir(run, F):
    c = F.bin.bodies.get("compile_to_ir_using_alpha")
    # by role: the out-dir parameter is the one of type Option<..PathBuf..>; the IR local is the one initialised from
    # Compiler::generate_ir inside the module loop; the output path is the first argument of std::fs::write
    outdir_params = [q.get("lid") for q in (c or {}).get("params", []) if "PathBuf" in str(F.bin.types[q["t"]]) and "Option" in str(F.bin.types[q["t"]])]
    ok = False
    detail = ""
    write_path_lids = set()
    writers = []
    for n in walk(c["hir"]):
        if n.get("k") == "If":
            cond = hirq.unwrap_trivial(n["cond"])
            if cond.get("k") == "LetExpr" and hirq.pat_key(cond["pat"]).endswith("Some") and \
                    any(x.get("k") == "Path" and x.get("lid") in outdir_params for x in walk(cond["init"])):
                seq = []
                for x in hirq.calls(n["then"]):
                    cn = hirq.callee(x) or ""
                    if cn.endswith("PathBuf::set_extension"):
                        seq.append(("set_extension:%s" % hirq.unwrap_trivial(x["a"][0]).get("v"), x["l"]))
                    elif cn == "std::fs::create_dir_all":
                        seq.append(("create_dir_all", x["l"]))
                    elif cn == "std::fs::write":
                        from rules import origins as _or
                        ow = _or.origins(c["hir"], x["a"][1], c.get("params", ()))
                        seq.append(("write:%s" % ("ir" if ("call", "alpha::Compiler::generate_ir") in ow else "?"), x["l"]))
                        write_path_lids.add(hirq.unwrap_trivial(x["a"][0]).get("lid"))
                        writers.append((x, True))
                    elif (x.get("k") == "MethodCall" and x.get("name") == "write_all" and x.get("a")) or (x.get("k") == "Call" and cn.endswith("Write::write_all") and len(x.get("a", [])) == 2):
                        # the same through an explicit file handle: File::create(path) or OpenOptions..open(path), then write_all(ir)
                        from rules import origins as _or
                        ow = _or.origins(c["hir"], x["a"][-1], c.get("params", ()))
                        opens = [y for y in hirq.calls(n["then"]) if (hirq.callee(y) or "").endswith(("File::create", "OpenOptions::open", "File::create_new"))]
                        if not opens:
                            continue
                        seq.append(("write:%s" % ("ir" if ("call", "alpha::Compiler::generate_ir") in ow else "?"), x["l"]))
                        for y in opens:
                            pa = [z for z in walk(y["a"][-1] if y.get("a") else {}) if z.get("k") == "Path" and z.get("rk") == "Local"]
                            write_path_lids.update(z.get("lid") for z in pa)
                            chain = [(z.get("name"), hirq.unwrap_trivial(z["a"][0]).get("v") if z.get("a") else None) for z in walk(y) if z.get("k") == "MethodCall"]
                            trunc = (hirq.callee(y) or "").endswith(("File::create", "File::create_new")) or \
                                ((("truncate", True) in chain or ("create_new", True) in chain) and ("append", True) not in chain)
                            writers.append((y, trunc))
                names = [s[0] for s in sorted(seq, key=lambda s: s[1])]
                detail = str(names)
                ok = names == ["set_extension:pn.ll", "create_dir_all", "write:ir"]
    if not ok and not detail.strip("[]"):
        # nothing of the sequence is in this body: if the then-branch hands the work to another function of the binary, this
        # rule (which reads one body) cannot follow it -- say so instead of reporting a violation
        from rules.core import CannotAnalyse
        for n in walk(c["hir"]):
            if n.get("k") == "If":
                cond = hirq.unwrap_trivial(n["cond"])
                if cond.get("k") == "LetExpr" and any(x.get("k") == "Path" and x.get("lid") in outdir_params for x in walk(cond["init"])):
                    helpers = [hirq.callee(x) for x in hirq.calls(n["then"]) if (hirq.callee(x) or "") in F.bin.bodies]
                    if helpers:
                        raise CannotAnalyse("compile_to_ir_using_alpha hands the writing of a module's IR to %s; R4-OUT-DIR analyses one body" % helpers[0])
    run.ob("R4-OUT-DIR", "per-module .pn.ll", ok, F.where(c), "under --out-dir every module's IR is written to <out_dir>/<module>.pn.ll: %s" % detail)
    # the file name is injective in the module path: out_dir + the whole path as given + ".pn.ll" (nothing dropped or rewritten)
    lets_o = [n for n in walk(c["hir"]) if n.get("k") == "Let" and n["pat"].get("lid") in write_path_lids and "init" in n]
    run.require(len(lets_o) == 1, "compile_to_ir_using_alpha: the local holding the path given to std::fs::write was not found")
    init = lets_o[0]["init"]
    used = sorted(set((hirq.callee(x) or hirq.callee_decl(x) or x.get("name") or "?").split("::")[-1] for x in hirq.calls(init)))
    allowed = {"to_path_buf", "push", "clone", "set_extension", "join", "with_extension", "as_path", "as_ref"}
    extra = [u for u in used if u not in allowed]
    pushes = [x for x in hirq.calls(init) if (x.get("name") in ("push", "join"))]
    whole = False
    for x in pushes:
        a = hirq.unwrap_trivial(x["a"][0]) if x.get("a") else {}
        locs = [y for y in walk(a) if y.get("k") == "Path" and y.get("rk") == "Local"]
        inner = [(hirq.callee(y) or y.get("name") or "").split("::")[-1] for y in hirq.calls(a)]
        # by role: the module's own path, i.e. the first component of the (path, declarations) pair the module loop iterates over
        from rules import origins as _or
        is_module_path = len(locs) == 1 and ("tuplepos", 0) in _or.origins(c["hir"], locs[0], c.get("params", ()))
        whole = whole or (is_module_path and all(i in ("clone", "as_path", "as_ref") for i in inner))
    run.ob("R4-OUT-DIR", "file name injective in the module path", whole and not extra, F.where(c, init),
           "the IR of module P goes to <out_dir>/P.pn.ll with P the whole path as given; dropping or rewriting components lets two modules "
           "share one file (the later silently overwrites the earlier): path operations %s, not reviewed: %s" % (used, extra))
    run.ob("R4-OUT-DIR", "an existing file is replaced, not overlaid", bool(writers) and all(t for _, t in writers), F.where(c, writers[0][0]) if writers else F.where(c),
           "the module's IR replaces whatever the file held (std::fs::write, File::create, or OpenOptions with truncate): otherwise the tail of a longer, older "
           ".pn.ll survives behind the new IR and the tool still exits 0")
    # `ir` is this iteration's generate_ir()
    ok2 = "write:ir" in detail
    run.ob("R4-OUT-DIR", "ir = compiler.generate_ir()", ok2, F.where(c), "the text written is the module's own IR")
    # the write happens inside the per-module loop, after compile()
    cfg = mirq.CFG(c)
    comp = [i for i, t in cfg.calls() if mirq.call_target(t) == "alpha::Compiler::compile"]
    wr = [i for i, t in cfg.calls() if mirq.call_target(t) == "std::fs::write" or (mirq.call_target(t) or "").endswith("io::Write>::write_all") or (mirq.call_target(t) or "").endswith("Write::write_all")]
    ok3 = bool(comp) and bool(wr) and all(cfg.dominates(comp[0], w) for w in wr) and any(w in cfg.reachable_from(cfg.succ[w]) for w in wr)
    run.ob("R4-OUT-DIR", "write inside the module loop after compile", ok3, F.where(c), "one file per module")
    # `set_extension` *replaces* the last extension (x.pn and x.txt, or x.pn given twice, name the same file): either the file name is
    # built by appending only, or a set of the paths written so far is consulted before each write and a repeated path ends the run
    rewrites = [u for u in used if u in ("set_extension", "with_extension")]
    guarded = False
    ins = [i for i, t in cfg.calls() if re.search(r"(HashSet|BTreeSet)(<.*>)?::insert$", mirq.call_target(t) or "")]
    for i in ins:
        sw = mirq.bool_switch_after_call(cfg, i)
        if not sw or not wr or not all(cfg.dominates(i, w) for w in wr):
            continue
        fresh, repeated = sw
        # on the "already there" edge the function returns without writing
        after = cfg.reachable_from([repeated])
        guarded = guarded or (any(e in after for e in cfg.exits()) and not any(_reaches_without_loop(cfg, repeated, w, i) for w in wr))
    run.ob("R4-OUT-DIR", "no two modules share a file", (not rewrites) or guarded, F.where(c, init),
           "the file name is built with %s, which replaces an extension instead of appending (x.pn and x.txt both give x.pn.ll): a repeated "
           "output path must end the run before the second write (guard found: %s)" % (rewrites, guarded))


def _reaches_without_loop(cfg, start, target, barrier):
    """target is reachable from start without passing through barrier (the guard itself, i.e. the next iteration)."""
    return target in cfg.reachable_from([start], cut={barrier})


def r2b_backend_always_invoked(run, F):
    """`penne build` and `penne run` hand the IR to a backend, whatever its name resolves to; only `penne emit` stops before that.
    Whether the backend step is skipped is a constant of the subcommand (the `skip_backend` field of MainArgs: a literal in each
    arm of the argument resolution, true for one arm only), never something computed from the backend string, the environment or
    the config file -- an empty PENNE_LLI must end in "No such file or directory", not in a silent success that runs nothing."""
    from rules import origins
    b = F.bin.bodies.get("do_main")
    run.require(b is not None and "hir" in b, "do_main not found in the binary crate")
    sites = []

    def visit(n, anc):
        if n.get("k") == "Call" and (hirq.callee(n) or "") == "generate_output":
            sites.append(list(anc))
        for slot, c in hirq._children(n):
            anc.append((n, slot))
            visit(c, anc)
            anc.pop()
    visit(b["hir"], [])
    run.require(len(sites) >= 1, "do_main: call of generate_output not found")
    flags = []
    for anc in sites:
        for a, slot in anc:
            if a.get("k") == "If" and slot == "then":
                for x in walk(a["cond"]):
                    if x.get("k") == "Path" and x.get("rk") == "Local" and str(F.bin.types[x["t"]]) == "bool":
                        flags.append(x)
    run.require(len(flags) >= 1, "do_main: the flag that guards generate_output was not found")
    for x in flags[:1]:
        prod = sorted(map(str, origins.producers(b["hir"], x, b.get("params", ()))))
        ok = bool(prod) and all(p_.startswith("('patfield', 'MainArgs'") for p_ in prod)
        run.ob("R2-BACKEND-INVOKED", "skip decided by the subcommand", ok, F.where(b, x),
               "the flag that lets do_main skip generate_output is a field of the resolved arguments, not computed from other data: produced by %s" % prod)
    tf = [bb for p, bb in F.bin.bodies.items() if "hir" in bb and p.endswith("TryFrom<Cli>>::try_from") and "MainArgs" in p]
    run.require(len(tf) == 1, "MainArgs::try_from not found")
    vals = []
    for path, node in hirq.constructs(tf[0]["hir"]):
        if path.endswith("MainArgs"):
            for f in node.get("fields", []):
                t = str(F.bin.types[hirq.unwrap_trivial(f["e"])["t"]]) if hirq.unwrap_trivial(f["e"]).get("t") is not None else ""
                if t == "bool" and any(("patfield", "MainArgs", f["name"]) == k for k in origins.producers(b["hir"], flags[0], b.get("params", ()))):
                    vals.append(hirq.unwrap_trivial(f["e"]).get("v"))
    run.ob("R2-BACKEND-INVOKED", "one subcommand skips the backend", len(vals) >= 3 and all(isinstance(v, bool) for v in vals) and vals.count(True) == 1, F.where(tf[0]),
           "the skip flag is a literal in every arm of the argument resolution and true in exactly one (emit): %s" % vals)


def r1b_source_lexed_as_read(run, F):
    """A zero-byte file is a compile error (E101), and the tool must say so and fail.  The driver pads an empty source with a blank
    so that the *report* has something to anchor on -- after lexing.  Whatever is handed to lexer::lex is the file's contents
    as read: no statement before the lex call in that loop body changes the source text (padded first, the lexer sees a valid
    empty module, the tool prints Done. and exits 0)."""
    c = F.bin.bodies.get("compile_to_ir_using_alpha")
    run.require(c is not None and "hir" in c, "compile_to_ir_using_alpha not found")
    sites = []
    for blk in [x for x in walk(c["hir"]) if x.get("k") == "Block"]:
        st = blk.get("stmts", [])
        for i, s_ in enumerate(st):
            lex = [x for x in hirq.calls(s_) if (hirq.callee(x) or "").endswith("alpha::lexer::lex")]
            if not lex or any(y.get("k") == "Block" and any(z is lex[0] for z in walk(y)) for y in walk(s_) if y is not s_ and y.get("k") == "Block"):
                continue
            src = [y for y in walk(lex[0]["a"][0]) if y.get("k") == "Path" and y.get("rk") == "Local"] if lex[0].get("a") else []
            if not src:
                continue
            lid = src[0].get("lid")
            before = []
            for t in st[:i]:
                for x in hirq.calls(t):
                    if x.get("k") == "MethodCall" and x.get("name") in ("push_str", "push", "insert", "insert_str", "clear", "truncate", "replace_range", "extend", "retain", "drain", "pop", "remove") \
                            and any(y.get("k") == "Path" and y.get("lid") == lid for y in walk(x["recv"])):
                        before.append(x)
                for x in walk(t):
                    if x.get("k") in ("Assign", "AssignOp") and hirq.unwrap_trivial(x["lhs"]).get("lid") == lid:
                        before.append(x)
            sites.append((lex[0], before))
    run.require(len(sites) >= 1, "compile_to_ir_using_alpha: the call of lexer::lex was not found in a statement list")
    for lx, before in sites:
        run.ob("R1-ERRORS-FAIL", "the source is lexed as read", not before, F.where(c, before[0]) if before else F.where(c, lx),
               "no statement before lexer::lex changes the source text (%d do): an empty file must reach the lexer empty (E101)" % len(before))


def r5_stdout(run, F):
    methods = [b for p, b in F.lib.bodies.items() if p.startswith(SO) and "{closure" not in p and p != SO + "new" and "mir" in b]
    run.require(len(methods) >= 15, "StdOut methods not found (%d)" % len(methods))
    n = 0
    for b in sorted(methods, key=lambda x: x["npath"]):
        cfg = mirq.CFG(b)
        writes = []
        for i, t in cfg.calls():
            c = mirq.call_target(t) or ""
            if c.endswith(("WriteColor>::set_color", "Write>::write_fmt", "Write::write_fmt", "WriteColor>::reset", "Report::eprint", "io::Write>::write_all")) or \
                    ("StandardStream" in c and ("write" in c or "set_color" in c or "reset" in c)) or "Report" in c and "print" in c:
                writes.append(i)
        if not writes:
            continue
        n += 1
        # is_silent test: switch on the bool field; writes dominated by the false edge
        guard = None
        for i in sorted(cfg.reach):
            t = cfg.term(i)
            if t["k"] == "Switch":
                pl = mirq.op_place(t["on"])
                l = mirq.op_local(t["on"])
                fld = None
                if isinstance(pl, dict):
                    fp = mirq.field_proj(pl)
                    fld = fp[-1][0] if fp else None
                elif l is not None:
                    for s in cfg.blocks[i]["s"]:
                        if s["d"] == l and s["r"].get("k") == "Use":
                            fp = mirq.field_proj(mirq.op_place(s["r"]["a"]))
                            fld = fp[-1][0] if fp else None
                if fld == "is_silent":
                    zero = [bb for v, bb in t["targets"] if v == 0]
                    guard = zero[0] if zero else None
                    break
        ok = guard is not None and all(cfg.dominates(guard, w) for w in writes)
        run.ob("R5-SILENT-GATE", b["npath"].split("::")[-1], ok, F.where(b),
               "every write of StdOut::%s must be behind `if self.is_silent { return Ok(()) }`" % b["npath"].split("::")[-1])
    run.require(n >= 12, "too few writing StdOut methods (%d)" % n)
    # verbose-only chatter
    for name in ("newline", "header", "basic_header", "dump_tokens", "dump_code", "dump_resolved", "dump_text", "dump_xml", "linting"):
        b = F.body(SO + name)
        ifs = [x for x in walk(b["hir"]) if x.get("k") == "If" and hirq.summarize_bool(x["cond"]) == "self.is_verbose"]
        inside = set()
        for x in ifs:
            for y in walk(x["then"]):
                inside.add(id(y))
        ws = [x for x in walk(b["hir"]) if x.get("src", "").startswith(("write!", "writeln!"))]
        ok = bool(ifs) and all(id(w) in inside for w in ws)
        run.ob("R5-VERBOSE-GATE", name, ok, F.where(b), "StdOut::%s only prints under is_verbose" % name)
    # option tables
    for fn_suffix, want in (("{From<ColorChoice> for ColorChoice}::from", {"Auto": "Auto", "Always": "Always", "Never": "Never"}),
                            ("{From<CharSet> for CharSet}::from", {"Unicode": "Unicode", "Ascii": "Ascii"})):
        cands = [b for p, b in F.lib.bodies.items() if p.endswith(fn_suffix)]
        if not cands:
            run.ob("R5-OPTION-TABLES", fn_suffix, False, "src/alpha/stdout.rs", "conversion %s not found" % fn_suffix)
            continue
        b = cands[0]
        m = hirq.find_match(b, min_arms=2)
        rows = {}
        for a in m["arms"]:
            outs = [hirq.short(p).split("::")[-1] for p, _ in hirq.constructs(a["body"])]
            rows[hirq.pat_key(a["pat"]).split("::")[-1]] = outs[0] if len(outs) == 1 else outs
        run.ob("R5-OPTION-TABLES", fn_suffix, rows == want, F.where(b),
               "option mapping must be the identity: %s" % rows, sample=rows)


def r6_colour_filtered(run, F):
    """--color=never reaches text that penne colours itself only through the filtered `Colors` struct
    (Option<Color>, None when colour is off): no `.fg()` / `.bg()` may be given a raw ariadne::Color."""
    n = 0
    for p, b in F.lib.bodies.items():
        if "hir" not in b or not F.rel(b["file"]).startswith("src/alpha/"):
            continue
        for c in hirq.calls(b["hir"]):
            if c.get("k") == "MethodCall" and c.get("name") in ("fg", "bg") and str(c.get("def", "")).startswith("ariadne::"):
                a = hirq.unwrap_trivial(c["a"][0])
                ty = F.lib.types[a["t"]] if a.get("t") is not None else "?"
                n += 1
                ok = ty.replace(" ", "").startswith("std::option::Option<ariadne::Color>")
                if not ok or n <= 1:
                    run.ob("R6-COLOUR-FILTERED", "%s|%s" % (b["npath"].split("::")[-1], hirq.local_name_of(a) or a.get("name") or a.get("res")), ok, F.where(b, c),
                           "text coloured by penne itself must take its colour from the filtered Colors (Option<Color>); argument type %s" % ty)
    run.ob("R6-COLOUR-FILTERED", "sites", n >= 40, "src/alpha/error.rs", "%d fg()/bg() call sites checked" % n)
    cn = [b for p, b in F.lib.bodies.items() if p.startswith("<alpha::error::Colors as std::convert::From<")]
    run.require(len(cn) == 1, "impl From<Config> for Colors not found")
    ok = False
    for path, node in hirq.constructs(cn[0]["hir"]):
        if hirq.short(path).endswith("Colors") and node.get("k") == "Struct":
            ok = all(hirq.unwrap_trivial(f["e"]).get("k") == "MethodCall" and hirq.unwrap_trivial(f["e"]).get("name") == "filter" for f in node["fields"])
    run.ob("R6-COLOUR-FILTERED", "Colors::from", ok, F.where(cn[0]), "every field of Colors is config.filter(<constant>)")


def r7_output_path_total(run, F):
    """do_main runs the backend only `if let Some(path) = output_filepath` -- a missing path skips the backend silently and
    the tool still exits 0.  derive_output_filepath may therefore only be None for the two reviewed reasons (no source
    file at all, a path without a file name); every further fallible step (to_str(), file_stem(), parse ..) adds inputs
    for which `penne build`/`penne run` do nothing and report success."""
    b = F.bin.bodies.get("derive_output_filepath")
    run.require(b is not None, "derive_output_filepath not found")
    fallible = []
    for c in hirq.calls(b["hir"]):
        ty = F.bin.types[c["t"]] if c.get("t") is not None else ""
        name = (hirq.callee(c) or hirq.callee_decl(c) or c.get("name") or "?")
        if ty.replace(" ", "").startswith(("std::option::Option<", "std::result::Result<")) and not name.startswith("std::option::Option::"):
            fallible.append(name)
    allowed = {"core::slice::get", "std::path::Path::file_name"}
    extra = sorted(set(f for f in fallible if f not in allowed))
    run.ob("R7-OUTPUT-PATH-TOTAL", "derive_output_filepath", not extra and set(fallible) <= allowed, F.where(b),
           "steps that can yield None/Err: %s; beyond the reviewed two: %s" % (sorted(set(fallible)), extra))
    dm = F.bin.bodies.get("do_main")
    run.require(dm is not None, "do_main not found")
    cs = [hirq.callee(c) or hirq.callee_decl(c) for c in hirq.calls(dm["hir"])]
    run.ob("R7-OUTPUT-PATH-TOTAL", "do_main derives the path", "derive_output_filepath" in cs and "generate_output" in cs, F.where(dm),
           "do_main falls back to derive_output_filepath and hands the path to generate_output")


def check(run):
    F = run.facts("B")
    r1_status(run, F)
    r2_output(run, F)
    r2b_backend_always_invoked(run, F)
    r1b_source_lexed_as_read(run, F)
    r3_backend(run, F)
    r4_outdir(run, F)
    r5_stdout(run, F)
    r6_colour_filtered(run, F)
    r7_output_path_total(run, F)
