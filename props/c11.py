"""C11 -- top-level declarations are order-independent and must be well-formed."""
import json
import os

from rules import hirq, mirq, apimisuse, visit
from rules.core import walk, norm_path, AnchorMissing, VERIF
from props import c05

LEVEL = "other"
EXPLANATION = (
    "Static analysis of declaration ordering and type legality (cfg B). Decided: R1 stage ordering: the scoper "
    "predeclares every top-level name before analysing any body (shared with C05.R3); Compiler::analyze_and_resolve "
    "sorts by container depth with a stable sort, splits containers from functions with partition_point(is_container), "
    "resolves containers first, and in the function pass declares every signature (typer.declare, analyzer.declare) "
    "before any body is analysed; R2 the legality predicates is_wellformed*, can_be_{element,sized,struct_member,"
    "word_member,constant,variable,parameter,returned} equal the reviewed legality matrix row by row, and each "
    "Illegal*Type / TypeLacksKnownSize error is raised under the negation of its predicate; R3 externalize_type accepts "
    "exactly the ABI types (i8-i64, u8-u64, usize, char8, and pointers/views/arraylikes of those) and rejects the rest "
    "with E358; R4 emission sites of the duplicate/cycle/constant errors: each declare_* builds its "
    "DuplicateDeclaration* error, found_container_1 builds the three Cyclical* errors exactly when the container comes "
    "to contain itself, use_constant builds NotACompileTimeConstant, align_struct WordSizeMismatch, with their codes; "
    "R5 ordering-sensitive state is deterministic: no hash-container iteration in scoper, typer, expander and "
    "Compiler; R6 the containment relation behind cycle detection and the depth sort is complete: in found_container every "
    "by-value component of every ValueType variant (element types, named lengths, struct/word names; pointers and views "
    "are the two reviewed exceptions) reaches found_container/found_container_1, constant types and member types are "
    "passed to it, and names used in a constant initialiser go through use_containee. Metamorphic equality under permutation is not decided."
    " ADDED LATER: C05.R8 (who may write the scoper's state, the constant-initialiser context included) is shared."
    " ROUNDS 5-6: R6 has no exception for Pointer/View any more (named lengths behind them are ordering dependencies: found_named_lengths, T2) and requires the constant named by E416 to be part of the cycle."
    " ROUND 7: C10.R2-MEMBER-PADDING is shared (E380 is decided from that size model)."
    " ROUND 8: R7-WELLFORMED-EVERYWHERE: parse_inner_type is called only by itself and by parse_wellformed_type (7 callers counted): no type position of the parser skips the well-formedness check."
    " ROUND 9: C10.R1-SIZE-AGREEMENT is shared: the member sizes E380 adds up are the sizes of the LLVM types."
    " ROUND 10: R8-VERDICT-ON-STORED-TYPE: the receiver of every can_be_* predicate asked in a function that also lowers the type (fix_type_for_flags; 5 sites) derives from the result of the lowering.")

VR = "alpha::scoper::variable_references::"


def r1_order(run, F):
    c05.r3_passes(run, F)
    b = F.body("alpha::Compiler::analyze_and_resolve")
    seq = []
    for c in hirq.calls(b["hir"]):
        if c.get("k") == "MethodCall" and c.get("name") in ("sort_by_key", "sort_by", "sort_unstable_by_key", "sort_by_cached_key", "partition_point", "split_off"):
            seq.append((c["name"], c["l"]))
        if hirq.callee(c) == "alpha::Compiler::analyze_and_resolve_sorted":
            flag = hirq.unwrap_trivial(c["a"][1]).get("v") if len(c["a"]) > 1 else None
            recv = hirq.local_name_of(hirq.unwrap_trivial(c["a"][0])) if c["a"] else None
            seq.append(("sorted(%s,%s)" % (recv, flag), c["l"]))
    names = [x[0] for x in sorted(seq, key=lambda x: x[1])]
    want = ["sort_by_key", "partition_point", "split_off", "sorted(containers,True)", "sorted(functions,False)"]
    run.ob("R1-CONTAINERS-FIRST", "Compiler::analyze_and_resolve", names == want, F.where(b),
           "constants and structures are ordered by containment depth (stable sort) and resolved before any function: %s" % names, sample=names)
    # key and predicate
    keys = []
    for c in hirq.calls(b["hir"]):
        if c.get("k") == "MethodCall" and c.get("name") in ("sort_by_key", "partition_point"):
            cl = c["a"][0]
            keys.append((c["name"], [hirq.callee(x) for x in hirq.calls(cl.get("body", {}))]))
    ok = keys == [("sort_by_key", ["alpha::scoper::get_container_depth"]), ("partition_point", ["alpha::scoper::is_container"])]
    run.ob("R1-CONTAINERS-FIRST", "sort key / split predicate", ok, F.where(b), "%s" % keys)
    s = F.body("alpha::Compiler::analyze_and_resolve_sorted")
    cfg = mirq.CFG(s)
    fold = [i for i, t in cfg.calls() if (mirq.call_target(t) or "").endswith("::try_fold")]
    # the declare-all pass: a collect() of map(typer.declare) and a loop of analyzer.declare, both before try_fold
    col = [i for i, t in cfg.calls() if (mirq.call_target(t) or "").endswith("Iterator::collect")]
    adecl = [i for i, t in cfg.calls() if mirq.call_target(t) == "alpha::analyzer::Analyzer::declare"]
    ok = bool(fold) and bool(col) and bool(adecl) and not (cfg.reachable_from(cfg.succ[fold[0]]) & set(col + adecl))
    run.ob("R1-SIGNATURES-BEFORE-BODIES", "analyze_and_resolve_sorted", ok, F.where(s),
           "every function signature is declared (typer.declare collected, analyzer.declare looped) before the per-declaration pipeline starts")
    tcl = [p for p in F.lib.bodies if p.startswith("alpha::Compiler::analyze_and_resolve_sorted::{closure") and
           any(mirq.call_target(t) == "alpha::typer::Typer::declare" for i, t in mirq.CFG(F.lib.bodies[p]).calls())]
    run.ob("R1-SIGNATURES-BEFORE-BODIES", "typer.declare sites", len(tcl) == 2, F.where(s),
           "typer.declare is applied up front for functions and inside the pipeline for containers (closures: %d)" % len(tcl))
    # forward declaration of structures precedes everything
    fwd = [i for i, t in cfg.calls() if mirq.call_target(t) in ("alpha::typer::Typer::forward_declare_structure", "alpha::generator::Generator::forward_declare_structure")]
    ok = len(fwd) == 2 and all(not (cfg.reachable_from(cfg.succ[fold[0]]) & {f}) for f in fwd) if fold else False
    run.ob("R1-SIGNATURES-BEFORE-BODIES", "structures forward-declared", ok, F.where(s), "structures are forward-declared so that pointer members do not depend on order")
    gd = F.body("alpha::scoper::get_container_depth")
    m = hirq.find_match(gd, min_arms=5)
    rows = {hirq.pat_key(a["pat"]).split("::")[-1]: hirq.summarize_bool(a["body"]) for a in m["arms"]}
    ok = rows.get("Constant") == "depth.as_ref()" and rows.get("Structure") == "depth.as_ref()" and all(rows.get(k) == "None" for k in ("Function", "FunctionHead", "Import", "Poison"))
    run.ob("R1-CONTAINERS-FIRST", "get_container_depth", ok, F.where(gd), "only constants and structures have a depth: %s" % rows)


def r2_legality(run, F):
    with open(os.path.join(VERIF, "props", "reviewed", "c11_legality.json")) as fh:
        ref = json.load(fh)
    for fn, want in ref["tables"].items():
        if fn == "externalize_type":
            continue
        b = F.body("alpha::value_type::ValueType::" + fn)
        if want and want[0][0] == "expr":
            got = [["expr", None, hirq.summarize_bool(b["hir"].get("e", {}), hirq.canon_params(b))]]
        else:
            m = hirq.find_match(b, min_arms=2)
            got = [["/".join(x.split("::")[-1] for x in k), g, o] for k, g, o in hirq.nested_table(m, (), hirq.canon_params(b))]
        gs, ws = set(json.dumps(r) for r in got), set(json.dumps(r) for r in want)
        for r in sorted(ws - gs):
            run.ob("R2-LEGALITY-MATRIX", "%s|missing %s" % (fn, r), False, F.where(b), "%s lost the reviewed row %s" % (fn, r))
        for r in sorted(gs - ws):
            run.ob("R2-LEGALITY-MATRIX", "%s|changed %s" % (fn, r), False, F.where(b), "%s has a row outside the reviewed legality matrix: %s" % (fn, r))
        run.ob("R2-LEGALITY-MATRIX", fn, gs == ws, F.where(b), "%s equals the reviewed matrix (%d rows)" % (fn, len(want)), sample={"rows": got[:5]})
    # predicates gate their errors
    uses = [
        ("alpha::typer::", "Error::IllegalConstantType", "can_be_constant"),
        ("alpha::typer::", "Error::IllegalMemberType", "can_be_struct_member"),
        ("alpha::typer::", "Error::IllegalMemberType", "can_be_word_member"),
        ("alpha::typer::", "Error::IllegalParameterType", "can_be_parameter"),
        ("alpha::typer::", "Error::IllegalReturnType", "can_be_returned"),
        ("alpha::typer::", "Error::TypeLacksKnownSize", "can_be_sized"),
        ("alpha::analyzer::function_calls::", "Error::IllegalVariableType", "can_be_variable"),
    ]
    for prefix, err, pred in uses:
        fns = []
        for b in F.lib.bodies.values():
            if "hir" not in b or not (b["npath"].startswith(prefix) or ("as " + prefix) in b["npath"]):
                continue
            cons = [hirq.short(p) for p, _ in hirq.constructs(b["hir"])]
            cs = [(hirq.callee(c) or "").split("::")[-1] for c in hirq.calls(b["hir"])]
            if err in cons and pred in cs:
                fns.append(b["npath"])
        run.ob("R2-PREDICATE-GATES-ERROR", "%s by %s" % (err.split("::")[-1], pred), len(fns) >= 1, "src/alpha",
               "%s must be raised by a function that consults %s(): %s" % (err, pred, fns[:2]))
    wf = F.body("alpha::parser::parse_wellformed_type")
    cons = [hirq.short(p) for p, _ in hirq.constructs(wf["hir"])]
    cs = [(hirq.callee(c) or "").split("::")[-1] for c in hirq.calls(wf["hir"])]
    run.ob("R2-PREDICATE-GATES-ERROR", "IllegalType by is_wellformed", "Error::IllegalType" in cons and "is_wellformed" in cs, F.where(wf),
           "parse_wellformed_type rejects ill-formed types with E350")


def r3_extern(run, F):
    with open(os.path.join(VERIF, "props", "reviewed", "c11_legality.json")) as fh:
        ref = json.load(fh)["tables"]["externalize_type"]
    b = F.body("alpha::typer::externalize_type")
    m = hirq.find_match(b, min_arms=5)
    rows = []
    for a in m["arms"]:
        cons = [hirq.short(p) for p, _ in hirq.constructs(a["body"])]
        rec = any(hirq.callee(c) == "alpha::typer::externalize_type" for c in hirq.calls(a["body"]))
        out = "E358" if "Error::TypeNotAllowedInExtern" in cons else \
            ("recurse->" + [c for c in cons if c.startswith("ValueType::")][0].split("::")[-1] if rec else "ok")
        rows.append([hirq.pat_key(a["pat"]).split("::")[-1], None, out])
    gs, ws = set(json.dumps(r) for r in rows), set(json.dumps(r) for r in ref)
    for r in sorted(gs ^ ws):
        run.ob("R3-EXTERN-ABI", "row %s" % r, False, F.where(b), "externalize_type differs from the README's ABI list at %s" % r)
    run.ob("R3-EXTERN-ABI", "table", gs == ws, F.where(b), "extern signatures accept exactly i8-i64, u8-u64, usize, char8 and pointers/views/[]T of those", sample=rows)


def r4_emission(run, F):
    AN = VR + "Analyzer::"
    spec = [(AN + "declare_constant", "Error::DuplicateDeclarationConstant"), (AN + "declare_function", "Error::DuplicateDeclarationFunction"),
            (AN + "declare_struct", "Error::DuplicateDeclarationStructure"), (AN + "declare_variable", "Error::DuplicateDeclarationVariable"),
            (AN + "use_constant", "Error::NotACompileTimeConstant"), ("alpha::typer::Typer::align_struct", "Error::WordSizeMismatch")]
    for fn, err in spec:
        b = F.body(fn)
        cons = [hirq.short(p) for p, _ in hirq.constructs(b["hir"])]
        run.ob("R4-EMISSION-SITE", err.split("::")[-1], err in cons, F.where(b), "%s must build %s" % (fn.split("::")[-1], err))
    # duplicates are searched among the right kind of previous declarations
    for fn, flt in ((AN + "declare_constant", "($c1.is_structure == false)"), (AN + "declare_struct", "$c1.is_structure")):
        b = F.body(fn)
        fl = [c for c in hirq.calls(b["hir"]) if c.get("k") == "MethodCall" and c.get("name") == "filter"]
        got = hirq.summarize_bool(fl[0]["a"][0]["body"], hirq.full_env(b)) if fl and fl[0]["a"][0].get("k") == "Closure" else None
        if got == "!$c1.is_structure":
            got = "($c1.is_structure == false)"
        run.ob("R4-DUPLICATE-SCOPE", fn.split("::")[-1], got == flt, F.where(b), "duplicates are looked up with filter %s (found %s)" % (flt, got))
    fc = F.body(AN + "found_container_1")
    cons = [hirq.short(p) for p, _ in hirq.constructs(fc["hir"])]
    ok = all(e in cons for e in ("Error::CyclicalConstant", "Error::CyclicalStructure", "Error::CyclicalStructureWithConstant"))
    run.ob("R4-EMISSION-SITE", "Cyclical*", ok, F.where(fc), "found_container_1 must build the three cycle errors")
    # cycle condition: container.contained_ids.contains(&container_id) after the union
    conds = []
    for n in walk(fc["hir"]):
        if n.get("k") == "If":
            conds.append((hirq.summarize_bool(n["cond"]), [hirq.short(p).split("::")[-1] for p, _ in hirq.constructs(n["then"]) if hirq.short(p).startswith(("Error::", "Poison::"))]))
    self_checks = [c for c in conds if c[0] == "contained_ids.contains(AddrOf)" or "contains" in c[0]]
    union = [n for n in walk(fc["hir"]) if n.get("k") == "Binary" and n.get("op") == "BitOr"]
    ok = len([c for c in conds if "contains" in c[0] and "Poisoned" in c[1]]) == 1 and \
        len([c for c in conds if "contains" in c[0] and any(x.startswith("Cyclical") for x in c[1])]) == 1 and len(union) == 2
    run.ob("R4-CYCLE-CONDITION", "found_container_1", ok, F.where(fc),
           "a cycle is reported exactly when the container contains itself after taking the union with the containee's closure; "
           "an already reported cycle only poisons: %s" % [(c[0], c[1]) for c in conds if "contains" in c[0]])
    code = F.body("alpha::error::Error::code")
    cm = [x for x in hirq.matches(code["hir"]) if hirq.n_alts(x) > 40][0]
    rows = {hirq.pat_key(a["pat"]).split("::")[-1]: hirq.unwrap_trivial(a["body"]).get("v") for a in cm["arms"]}
    for v, c in (("DuplicateDeclarationFunction", 421), ("DuplicateDeclarationConstant", 423), ("DuplicateDeclarationParameter", 424),
                 ("DuplicateDeclarationStructure", 425), ("DuplicateDeclarationMember", 426), ("CyclicalConstant", 413), ("CyclicalStructure", 415),
                 ("CyclicalStructureWithConstant", 416), ("NotACompileTimeConstant", 433), ("WordSizeMismatch", 380), ("IllegalType", 350),
                 ("IllegalReturnType", 351), ("IllegalVariableType", 352), ("IllegalConstantType", 353), ("IllegalParameterType", 354),
                 ("IllegalMemberType", 356), ("TypeNotAllowedInExtern", 358), ("TypeLacksKnownSize", 359)):
        run.ob("R4-CODES", v, rows.get(v) == c, F.where(code), "Error::%s must have code %d (found %s)" % (v, c, rows.get(v)))


def r5_determinism(run, F):
    fx = apimisuse.fixture()
    run.ob("R5-POSITIVE-CONTROL", "hash-iteration matcher", len(apimisuse.hash_iterations(fx)) >= 3, "rules/fixtures/fx/src/lib.rs", "matcher recognises the fixture")
    files = ("src/alpha/scoper", "src/alpha/typer.rs", "src/alpha/expander.rs", "src/alpha.rs", "src/alpha/resolver.rs", "src/alpha/analyzer")
    sites = apimisuse.hash_iterations(F.lib, lambda b: F.rel(b["file"]).startswith(files))
    for b, n, d in sites:
        run.ob("R5-NO-HASH-ORDER", "%s|%s" % (b["npath"], d.split(" on ")[0].split(" over ")[0]), False, F.where(b, n),
               "%s: declaration order / diagnostics would depend on hash iteration order" % d)
    scanned = sum(1 for b in F.lib.bodies.values() if "hir" in b and F.rel(b["file"]).startswith(files))
    run.ob("R5-NO-HASH-ORDER", "scan", scanned > 200, "src/alpha", "%d bodies scanned" % scanned)


def r6_containment(run, F):
    """T2 on the containment relation that feeds cycle detection and the depth sort: every type that a constant or a
    structure member embeds by value must reach found_container / found_container_1."""
    C = F.lib
    AN = VR + "Analyzer::"
    fc = F.body(AN + "found_container")
    vt = C.adts.get("alpha::value_type::ValueType")
    run.require(vt is not None, "ValueType not found")
    ms = [m for m in hirq.matches(fc["hir"]) if hirq.n_alts(m) >= 20]
    run.require(len(ms) == 1, "found_container: the match over ValueType was not found (%d candidates)" % len(ms))

    def is_trav(c):
        return c in (AN + "found_container", AN + "found_container_1", AN + "found_named_lengths")
    # no exceptions: a pointer or view does not embed its target, but a named length inside the target's type still has to
    # be resolved before the container is (`struct A { p: &[N]i32 }` before `const N` was E433), so the target is walked by
    # found_named_lengths (checked below)
    exceptions = {}

    def rep(key, ok, where, detail, sample):
        run.ob("R6-CONTAINMENT-VISITS", key, ok, where,
               detail + ": a structure or constant embedded through it is missing from the containment relation "
               "(no E413/E415/E416 for a cycle through it; the depth sort may place the container first)", sample)
    rel = rel0 = {"alpha::value_type::ValueType", "alpha::common::Identifier"}
    n = visit.check_match(F, C, fc, ms[0], vt, "ValueType", rel, is_trav, rep, exceptions, subst={"I": "alpha::common::Identifier"})
    run.require(n >= 12, "too few containment obligations (%d)" % n)
    # behind a pointer or view: named lengths are dependencies, structures are not (recursive structures are written that way)
    if F.has_body(AN + "found_named_lengths"):
        fl = F.body(AN + "found_named_lengths")
        ml = [m for m in hirq.matches(fl["hir"]) if hirq.n_alts(m) >= 8]
        run.require(len(ml) == 1, "found_named_lengths: the match over ValueType was not found (%d candidates)" % len(ml))
        behind = {
            "ValueType::Struct.identifier": "a structure behind a pointer is not embedded; recursive structures are written through pointers",
            "ValueType::Word.identifier": "a word behind a pointer is not embedded",
            "ValueType::UnresolvedStructOrWord.identifier": "a structure or word behind a pointer is not embedded",
        }

        def rep1(key, ok, where, detail, sample):
            run.ob("R6-CONTAINMENT-VISITS", "behind pointer|" + key, ok, where,
                   detail + ": a named length in the target of a pointer or view is missing from the ordering relation (E433 when the container comes first)", sample)
        visit.check_match(F, C, fl, ml[0], vt, "ValueType", rel0, lambda c: c in (AN + "found_named_lengths", AN + "found_container_1"), rep1, behind,
                          subst={"I": "alpha::common::Identifier"})
    # E416 names a constant: it must be one that is part of the cycle, i.e. one that itself contains the container
    f1 = F.body(AN + "found_container_1")
    tested = False
    pnames = [q.get("name") for q in f1.get("params", []) if q.get("name") != "self"]
    run.require(len(pnames) == 3, "found_container_1: expected (container, member, containee) parameters, found %s" % pnames)
    container_param = pnames[0]
    for b in [f1] + [x for x in C.bodies.values() if x["npath"].startswith(AN + "found_container_1::{closure") and "hir" in x]:
        for x in walk(b["hir"]):
            if x.get("k") == "MethodCall" and x.get("name") == "contains":
                r = hirq.unwrap_trivial(x["recv"])
                a = hirq.unwrap_trivial(x["a"][0]) if x.get("a") else {}
                while a.get("k") == "AddrOf":
                    a = hirq.unwrap_trivial(a["e"])
                if r.get("k") == "Field" and r.get("name") == "contained_ids" and a.get("k") == "Path" and a.get("rk") == "Local":
                    # the argument is the container's id: a local initialised from <first parameter>.resolution_id
                    from rules import origins as _or
                    oa = _or.origins(f1["hir"], a, f1.get("params", ()))
                    is_container_id = ("field", "resolution_id") in oa and ("param", container_param) in oa and not any(
                        k[0] == "param" and k[1] not in (container_param, "self") for k in oa)
                    base = hirq.unwrap_trivial(r.get("e") or r.get("base") or {})
                    # ... and the receiver is an item of an iteration over self.containers (a closure parameter), not the container itself
                    ob_ = _or.origins(f1["hir"], base, f1.get("params", ())) if base.get("k") == "Path" else set()
                    if is_container_id and ("closureparam",) in ob_ and ("field", "containers") in ob_:
                        tested = True
    run.ob("R6-CONTAINMENT-VISITS", "E416 constant is in the cycle", tested, F.where(f1),
           "the constant named by E416 (CyclicalStructureWithConstant) must be tested for containing the container (x.contained_ids.contains(&container_id)); "
           "picking any constant among the container's containees makes the code depend on declaration order (`const N; struct Foo { bar: Bar, buf: [N]u8 } "
           "struct Bar { foo: Foo }` was E416, with Bar first E415)")
    # callers: constant types, member types, and names used in a constant's initialiser
    mw = F.body(VR + "{Member}::analyze_wellfoundedness")
    cs = [c for c in hirq.calls(mw["hir"]) if hirq.callee(c) == AN + "found_container"]
    ok = any(any(x.get("k") == "Field" and x.get("name") == "value_type" for a in c.get("a", []) for x in walk(a)) for c in cs)
    run.ob("R6-CONTAINMENT-VISITS", "Member.value_type", ok, F.where(mw), "the member's type must be passed to found_container")
    decl = [b for b in C.bodies.values() if b.get("impl_trait") == VR + "Analyzable" and norm_path(b.get("impl_self") or "") == "alpha::common::Declaration"
            and "{closure" not in b["npath"]]
    run.require(len(decl) == 1, "variable_references: impl Analyzable for Declaration not found")
    d = decl[0]
    dadt = C.adts["alpha::common::Declaration"]
    dm = [m for m in hirq.matches(d["hir"]) if hirq.n_alts(m) >= 5]
    run.require(dm, "Declaration::analyze: match not found")

    def rep2(key, ok, where, detail, sample):
        if key in ("Declaration::Constant.value_type", "Declaration::Structure.members"):
            run.ob("R6-CONTAINMENT-VISITS", key, ok, where, detail + " (must reach found_container / analyze_wellfoundedness)", sample)
    visit.check_match(F, C, d, dm[0], dadt, "Declaration", visit.type_closure(C, {"alpha::value_type::ValueType"}),
                      lambda c: c in (AN + "found_container", VR + "{Member}::analyze_wellfoundedness"), rep2)
    got = [o for o in run.obligations if o["key"].endswith(("Declaration::Constant.value_type", "Declaration::Structure.members")) and o["rule"] == "R6-CONTAINMENT-VISITS"]
    run.require(len(got) >= 2 or run.replay_filter is not None, "constant/structure containment obligations not generated")
    # names used while analysing a constant's initialiser are containees of that constant
    uc = F.body(AN + "use_containee")
    ok = AN + "found_container_1" in [hirq.callee(c) for c in hirq.calls(uc["hir"])]
    run.ob("R6-CONTAINMENT-VISITS", "use_containee", ok, F.where(uc), "use_containee must record the containee through found_container_1")
    for fn in ("use_constant", "use_struct"):
        try:
            b = F.body(AN + fn)
        except AnchorMissing:
            continue
        ok = AN + "use_containee" in [hirq.callee(c) for c in hirq.calls(b["hir"])]
        run.ob("R6-CONTAINMENT-VISITS", fn, ok, F.where(b), "%s must go through use_containee" % fn)


def r7_wellformed_at_every_position(run, F):
    """Ill-formed types are rejected (E350) by parse_wellformed_type, and later stages *assert* well-formedness instead of
    diagnosing it.  Who may call: the raw type parser parse_inner_type is called only by itself and by parse_wellformed_type;
    every type position of the grammar (constant, member, parameter, return type, variable, cast, size-of) goes through
    parse_wellformed_type."""
    g = mirq.callgraph(F.lib)
    raw = "alpha::parser::parse_inner_type"
    ok_callers = {raw, "alpha::parser::parse_wellformed_type"}
    callers = sorted(f for f, outs in g.items() if raw in outs)
    for c in callers:
        run.ob("R7-WELLFORMED-EVERYWHERE", "caller %s" % c.split("::")[-1], c.split("::{closure")[0] in ok_callers, F.where(F.body(c.split("::{closure")[0])),
               "%s parses a type with parse_inner_type, bypassing the well-formedness check: an ill-formed type in that position is not "
               "E350 but an assertion failure or an unreachable!() in a later stage" % c)
    wf = sorted(f for f, outs in g.items() if "alpha::parser::parse_wellformed_type" in outs)
    run.ob("R7-WELLFORMED-EVERYWHERE", "positions", len(wf) >= 7 and callers, "src/alpha/parser.rs",
           "%d functions parse types through parse_wellformed_type (7 counted: constant, member, parameter, signature, cast, statement, size-of)" % len(wf))


def r8_verdict_on_the_stored_type(run, F):
    """The type written in the source is *lowered* for its position (`&[]T` as a member becomes a slice pointer, ..) by
    fix_type_for_flags, and the lowered type is what is stored and generated.  The legality predicates (can_be_struct_member,
    can_be_word_member, can_be_parameter, can_be_returned, can_be_constant) therefore judge the lowered type: in every function of
    the typer that lowers a type and asks a predicate, the predicate's receiver derives from the result of the lowering.  Asked
    first, `&[]T` passes as "pointer to an array view" and is stored as the slice pointer the predicate forbids (E356)."""
    from rules import origins
    n = 0
    for p, b in sorted(F.lib.bodies.items()):
        if "hir" not in b or not F.rel(b["file"]).endswith("alpha/typer.rs") or "{closure" in p:
            continue
        fixes = [c for c in hirq.calls(b["hir"]) if (hirq.callee(c) or "").split("::")[-1] == "fix_type_for_flags"]
        preds = [c for c in hirq.calls(b["hir"]) if c.get("k") == "MethodCall" and str(c.get("name", "")).startswith("can_be_")]
        if not fixes or not preds:
            continue
        for c in preds:
            n += 1
            o = origins.origins(b["hir"], c["recv"], b.get("params", ()))
            ok = any(k[0] == "call" and str(k[1]).split("::")[-1] == "fix_type_for_flags" for k in o)
            run.ob("R8-VERDICT-ON-STORED-TYPE", "%s|%s" % (p.split("::")[-1] if "{" not in p.split("::")[-2] else p.split("::")[-2].strip("{}") + "::" + p.split("::")[-1], c.get("name")), ok, F.where(b, c),
                   "%s is asked about a type that does not derive from fix_type_for_flags in this function: the verdict is about the written type, the stored type is the lowered one" % c.get("name"))
    run.floor("R8-VERDICT-ON-STORED-TYPE", 5, "legality predicates asked next to a lowering in the typer (5 counted)")


def check(run):
    F = run.facts("B")
    r7_wellformed_at_every_position(run, F)
    # E380 (a word larger than declared) is decided from the size model of align_struct (shared with C10.R2)
    from props import c10 as _c10
    _c10.r2b_member_padding(run, F)
    _c10.r1_sizes(run, F)          # the member sizes E380 adds up are the sizes of the LLVM types (shared with C10.R1)
    r1_order(run, F)
    r2_legality(run, F)
    r8_verdict_on_the_stored_type(run, F)
    r3_extern(run, F)
    r4_emission(run, F)
    r5_determinism(run, F)
    r6_containment(run, F)
    c05.r8_state_writers(run, F)   # who may write the scoper's state, in_constexpr_of_constant included
