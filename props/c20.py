"""C20 -- rebuilt source parses back to the same tree."""
import re

from rules import hirq, lexq
from rules.core import walk, norm_path, AnchorMissing
from props import c16, c19

LEVEL = "other"
EXPLANATION = (
    "Static analysis of the rebuilder against the extracted lexer and parser tables (cfg B). Round-trip equality on "
    "programs is NOT decided. Decided: R1 spelling composition: for every BinaryOp / ComparisonOp / UnaryOp variant "
    "the spelling printed by its Display impl lexes (extracted alpha tables, maximal munch) into exactly one token which "
    "the alpha parser maps back to the same operator; the 14 primitive type spellings are type keywords that lex back to "
    "the same type; composite type spellings start with the token sequence the parser's type grammar maps to the same "
    "constructor; statement/declaration keywords used in format strings are keywords of the lexer; R2 print completeness: "
    "in every Rebuildable arm no field is hidden by `..`, bound-but-unused or ignored with `_` except locations and the "
    "reviewed type annotations (literal value_type, ArrayLiteral.element_type, FunctionCall.return_type), and struct impls "
    "read every non-location field; R3 literals: signed integers print with {} and bit integers with {:#x} (both lex back "
    "to integer literals), strings through ascii::escape_default whose escapes are in the string escape table; "
    "R4 indentation only ever increases by one level per nesting (Indentation::increased) and nested output is embedded "
    "unchanged."
    " ADDED LATER: R5 fragments printed for parser-built nodes must lex (`#` annotations: known finding), every declaration kind prints `pub` and `extern` through independent tests, import paths are printed escaped."
    " ROUNDS 5-6: R6-LOCATION-BLIND: no body of the rebuilder reads a value of a location type; Display tables are read in match form and in literal-table form."
    " ROUND 7: R7-NODES-AS-THEY-ARE: the receiver of every rebuild() call is a child of the node at hand, never the result of a function of the crate that picks another node."
    " ROUND 9: R3-LITERAL-SPELLING 'StringLiteral text untouched': the calls between ascii::escape_default and the quotes are the reviewed text-preserving ones (no rewriting of the escaped text)."
    " ROUND 10: R3-LITERAL-SPELLING templates: Binary `{} {} {}`, Unary `{}{}`, Parenthesized `({})`, TypeCast, LengthOfArray, SizeOf each have one template on every path (parentheses exist in the tree as nodes)."
    " ROUND 11: R3-LITERAL-SPELLING 'text comes from its template': every text the Binary, Unary, Parenthesized, TypeCast, LengthOfArray and SizeOf arms return is produced by the arm's format template (a child's text is never passed through).")

RB = "alpha::rebuilder::"
ALLOWED_IGNORED = {"location", "location_of_declaration", "location_of_type", "location_of_return_type", "location_of_op",
                   "location_of_keyword", "location_of_unaddressed", "location_of_else"}
REVIEWED_IGNORED = {
    ("Expression", "SignedIntegerLiteral", "value_type"): "the property allows the type suffix of literals to differ",
    ("Expression", "BitIntegerLiteral", "value_type"): "the property allows the type suffix of literals to differ",
    ("Expression", "ArrayLiteral", "element_type"): "inferred annotation, None in a freshly parsed tree",
    ("Expression", "FunctionCall", "return_type"): "inferred annotation, None in a freshly parsed tree",
}


def display_spellings(F, enum):
    """variant -> text printed by `impl Display for <enum>` of the rebuilder, in either form the impl may take: one arm per
    variant that writes a literal, or a table of literals indexed by the discriminant (`TABLE[*self as usize]`, the
    variants numbered in declaration order)."""
    from rules.core import CannotAnalyse
    b = F.body("alpha::rebuilder::{Display for %s}::fmt" % enum)
    variants = F.variants("alpha::common::" + enum)
    out = {}
    ms = hirq.find_match(b, min_arms=2, all_matches=True)
    if ms:
        for a in ms[0]["arms"]:
            lits = [x.get("v") for x in walk(a["body"]) if x.get("k") == "Lit" and x.get("lk") == "str"]
            for alt in hirq.pat_alts(a["pat"]):
                out[hirq.pat_key(alt).split("::")[-1]] = "".join(lits) if lits else None
        return b, out
    for n in walk(b["hir"]):
        if n.get("k") == "Index":
            base, idx = hirq.unwrap_trivial(n["e"]), hirq.unwrap_trivial(n["i"])
            is_discr = idx.get("k") == "Cast" and any(x.get("k") == "Path" and x.get("res") == "self" for x in walk(idx))
            if base.get("k") == "Path" and str(base.get("rk", "")).startswith("Const") and is_discr:
                from rules.core import norm_path
                cb = F.lib.bodies.get(norm_path(base["res"]))
                arr = hirq.unwrap_trivial(cb["hir"]) if cb and "hir" in cb else {}
                if arr.get("k") == "Array" and len(arr.get("a", [])) == len(variants):
                    for v, e in zip(variants, arr["a"]):
                        e = hirq.unwrap_trivial(e)
                        out[v] = e.get("v") if e.get("k") == "Lit" and e.get("lk") == "str" else None
                    return b, out
    raise CannotAnalyse("Display for %s is neither a match over the variants nor a literal table indexed by the discriminant" % enum)


def r1_spellings(run, F):
    A = lexq.LexTables(F, "alpha")
    A._cont = lexq.ident_continuation(F, "alpha")
    ops, layering = c16.op_tables(F, "alpha::parser::", "lexer::Token")
    back = {}
    for (fn, tok), opl in ops.items():
        for o in opl:
            back.setdefault(tok, set()).add(o)
    for enum in ("BinaryOp", "ComparisonOp", "UnaryOp"):
        b, sp = display_spellings(F, enum)
        variants = F.variants("alpha::common::" + enum)
        for v in variants:
            s = sp.get(v)
            toks = c19.simulate(A, s) if s else None
            ok = toks is not None and len(toks) == 1 and ("%s::%s" % (enum, v)) in back.get(toks[0], set())
            run.ob("R1-OPERATOR-ROUNDTRIP", "%s::%s" % (enum, v), ok, F.where(b),
                   "%s::%s is printed as %r, which lexes to %s; the parser maps that token to %s" % (
                       enum, v, s, toks, sorted(back.get(toks[0], set())) if toks and len(toks) == 1 else None),
                   sample={"op": v, "spelling": s, "tokens": toks})
    run.floor("R1-OPERATOR-ROUNDTRIP", 19)
    # primitive types
    vt = [b for p, b in F.lib.bodies.items() if p.endswith("as alpha::rebuilder::Rebuildable>::rebuild") and "ValueType" in p]
    run.require(len(vt) == 1, "Rebuildable for ValueType not found")
    vt = vt[0]
    m = hirq.find_match(vt, min_arms=10)
    prim = {}
    comp = {}
    for a in m["arms"]:
        v = hirq.pat_key(a["pat"]).split("::")[-1]
        lits = [x["v"] for x in hirq.lits(a["body"], "str")]
        fm = [x.get("src") for x in walk(a["body"]) if x.get("src", "").startswith("format!")]
        if lits and not fm:
            prim[v] = lits[0]
        elif fm:
            mo = re.match(r'format!\(\s*"((?:[^"\\]|\\.)*)"', fm[0])
            comp[v] = mo.group(1) if mo else None
    for v in ("Void", "Int8", "Int16", "Int32", "Int64", "Int128", "Uint8", "Uint16", "Uint32", "Uint64", "Uint128", "Usize", "Char8", "Bool"):
        s = prim.get(v)
        kw = A.keywords.get(s)
        run.ob("R1-TYPE-KEYWORD-ROUNDTRIP", v, kw == ("ValueTypeKeyword", v, None), F.where(vt),
               "ValueType::%s is printed as %r, which lexes as %s" % (v, s, kw))
    # composite types: first tokens vs the parser's type grammar
    pit = F.body("alpha::parser::parse_inner_type")
    grammar = {}
    for mm in hirq.matches(pit["hir"]):
        for a in mm["arms"]:
            toks = set()
            for alt in hirq.pat_alts(a["pat"]):
                for x in walk(alt):
                    r = x.get("ctor_of") or x.get("res")
                    if r and norm_path(r).rsplit("::", 1)[0].endswith("lexer::Token"):
                        toks.add(r.split("::")[-1])
            built = sorted(set(hirq.short(p).split("::")[-1] for p, _ in hirq.constructs(a["body"]) if hirq.short(p).startswith("ValueType::")))
            if not toks and any((hirq.callee(c) or "").endswith("extract_identifier") for c in hirq.calls(a["body"])):
                toks.add("Identifier")
            # only the arm's own constructor (recursive element types are built by nested calls)
            direct = hirq.unwrap_trivial(a["body"])
            if direct.get("k") == "Match":
                continue
            for t in toks:
                grammar.setdefault(t, set()).update(built)
    want_first = {"Array": ["BracketLeft", "NakedDecimal"], "ArrayWithNamedLength": ["BracketLeft", "Identifier"], "Slice": ["BracketLeft", "Colon"],
                  "EndlessArray": ["BracketLeft", "Dots"], "Arraylike": ["BracketLeft", "BracketRight"], "Pointer": ["Ampersand"], "View": ["ParenLeft"]}
    for v, first in want_first.items():
        s = comp.get(v)
        filled = None
        if s is not None:
            filled = s.replace("{}", "1" if v == "Array" else "X", 1).replace("{}", "X")
            filled = filled.replace("{{", "{").replace("}}", "}")
        toks = simulate_with_digits(A, filled) if filled else None
        ok = toks is not None and toks[:len(first)] == first
        # and the parser builds that variant for that leading token
        lead = first[-1]
        ok = ok and v in grammar.get(lead, set())
        run.ob("R1-TYPE-CONSTRUCTOR-ROUNDTRIP", v, ok, F.where(vt),
               "ValueType::%s is printed as %r -> tokens %s; parse_inner_type builds %s after %s" % (v, s, toks, sorted(grammar.get(lead, set())), lead),
               sample={"type": v, "spelling": s, "tokens": toks})
    # statement / declaration keywords in format strings
    kws = set()
    for fn in ("Declaration", "Statement", "FunctionBody", "Expression"):
        bodies = [b for p, b in F.lib.bodies.items() if p == "<alpha::common::%s as alpha::rebuilder::Rebuildable>::rebuild" % fn]
        for b in bodies:
            for x in walk(b["hir"]):
                s = x.get("src", "")
                if s.startswith(("write!", "writeln!", "format!")):
                    mo = re.search(r'"((?:[^"\\]|\\.)*)"', s)
                    if mo:
                        for w in re.findall(r"(?<![\w{#])([a-z]+[0-9]*)(?![\w}<])", mo.group(1)):
                            kws.add(w)
    expected_kw = {"const", "fn", "import", "pub", "extern", "struct", "var", "goto", "loop", "if", "else", "return", "cast", "as", "word"}
    used = sorted(k for k in kws if k in A.keywords or k in ("return",))
    unknown = sorted(k for k in kws if k not in A.keywords and k not in ("return", "deref", "coerce", "word", "x", "structure") and len(k) > 1)
    run.ob("R1-KEYWORDS-ARE-KEYWORDS", "format-string words", not unknown and len(used) >= 8, "src/alpha/rebuilder.rs",
           "words printed by the rebuilder must be keywords of the lexer: recognised %s, unknown %s" % (used, unknown))


def simulate_with_digits(T, s):
    out = []
    i = 0
    while i < len(s):
        c = s[i]
        if c.isdigit():
            j = i
            while j < len(s) and s[j].isdigit():
                j += 1
            out.append("NakedDecimal")
            i = j
            continue
        if c == " ":
            i += 1
            continue
        # find the longest prefix the table-driven simulation accepts as tokens
        j = i + 1
        while j <= len(s) and not s[j - 1].isdigit() and s[j - 1] != " ":
            j += 1
        chunk = s[i:j - 1] if j - 1 > i else s[i:i + 1]
        toks = c19.simulate(T, chunk)
        if toks is None:
            return None
        out.extend(toks)
        i += len(chunk)
    return out


def r2_completeness(run, F):
    C = F.lib
    impls = [b for b in C.bodies.values() if b.get("impl_trait") == "alpha::rebuilder::Rebuildable" and "{closure" not in b["npath"]]
    run.require(len(impls) >= 14, "Rebuildable impls not found (%d)" % len(impls))
    n = 0
    for b in impls:
        adt = C.adts.get(norm_path(b.get("impl_self") or ""))
        if adt is None:
            continue
        tname = adt["path"].split("::")[-1]
        if adt["kind"] == "enum":
            ms = [m for m in hirq.matches(b["hir"]) if hirq.local_name_of(hirq.unwrap_trivial(m["scrut"])) == "self"]
            for m in ms:
                for a in m["arms"]:
                    for alt in hirq.pat_alts(a["pat"]):
                        if hirq.is_catchall(alt):
                            run.ob("R2-PRINTS-EVERYTHING", "%s wildcard arm" % tname, False, F.where(b, a), "a wildcard arm hides unprinted variants")
                            continue
                        v = (hirq.pat_res(alt) or "?").split("::")[-1]
                        fps, rest = hirq.field_pats(alt)
                        if fps is None:
                            continue
                        n += 1
                        bad = []
                        if rest:
                            bad.append("`..`")
                        for f, p in fps.items():
                            sp = hirq.strip_ref(p)
                            binds = hirq.pat_bindings(p)
                            if sp.get("k") == "Wild":
                                if f not in ALLOWED_IGNORED and (tname, v, f) not in REVIEWED_IGNORED:
                                    bad.append("%s: _" % f)
                            elif binds and not any(hirq.uses_local(a["body"], l) for _, l, _ in binds) and \
                                    not ("guard" in a and any(hirq.uses_local(a["guard"], l) for _, l, _ in binds)):
                                bad.append("%s bound but unused" % f)
                        run.ob("R2-PRINTS-EVERYTHING", "%s::%s" % (tname, v), not bad, F.where(b, a),
                               "rebuilding %s::%s drops %s: that part of the tree cannot survive a round trip" % (tname, v, bad))
        else:
            fields = [f["name"] for f in adt["variants"][0]["fields"]]
            used = set(x.get("name") for x in walk(b["hir"]) if x.get("k") == "Field" and hirq.local_name_of(hirq.unwrap_trivial(x["e"])) == "self")
            for f in fields:
                if f in ALLOWED_IGNORED or f in ("resolution_id", "is_authoritative"):
                    continue
                n += 1
                if (tname, f) in (("FunctionBody", "return_value_identifier"), ("Array", "resolution_id"), ("Array", "location")):
                    continue
                ok = f in used or (tname == "Identifier")
                run.ob("R2-PRINTS-EVERYTHING", "%s.%s" % (tname, f), ok, F.where(b), "rebuilding %s never reads `%s`" % (tname, f))
    run.require(n >= 45, "too few completeness obligations (%d)" % n)


def r3_literals(run, F):
    e = F.body("<alpha::common::Expression as alpha::rebuilder::Rebuildable>::rebuild")
    m = [x for x in hirq.matches(e["hir"]) if hirq.n_alts(x) > 12][0]

    def fmt_of(variant):
        arm = hirq.arm_for(m, "Expression::" + variant)
        out = []
        for a in arm:
            for x in walk(a["body"]):
                s = x.get("src", "")
                if s.startswith("format!"):
                    mo = re.match(r'format!\(\s*"((?:[^"\\]|\\.)*)"', s)
                    out.append(mo.group(1) if mo else None)
        return out
    run.ob("R3-LITERAL-SPELLING", "SignedIntegerLiteral", fmt_of("SignedIntegerLiteral") == ["{}"], F.where(e), "signed integers print in decimal: %s" % fmt_of("SignedIntegerLiteral"))
    run.ob("R3-LITERAL-SPELLING", "BitIntegerLiteral", fmt_of("BitIntegerLiteral") == ["{:#x}"], F.where(e), "bit integers print as 0x..: %s" % fmt_of("BitIntegerLiteral"))
    run.ob("R3-LITERAL-SPELLING", "BooleanLiteral", fmt_of("BooleanLiteral") == ["{}"], F.where(e), "booleans print as true/false")
    # the operator and grouping arms print their own tokens and nothing else: parentheses exist in the tree as Parenthesized nodes, so a
    # template that adds some (for prettiness, `a - (-3)`) prints a node the first tree does not have
    for variant, want in (("Binary", ["{} {} {}"]), ("Unary", ["{}{}"]), ("Parenthesized", ["({})"]), ("TypeCast", ["{} as {}"]), ("LengthOfArray", ["|{}|"]), ("SizeOf", ["|:{}|"])):
        got = fmt_of(variant)
        run.ob("R3-LITERAL-SPELLING", "%s template" % variant, got == want, F.where(e), "%s prints as %s, one template on every path: found %s" % (variant, want, got))
        # .. and every text the arm hands back is the output of that template (not a child's text passed through because it "already
        # has parentheses": `((a) + f(b)) * 3` starts with `(` and ends with `)` and still needs its own pair)
        from rules import visit as _visit, origins as _origins
        arm_ = hirq.arm_for(m, "Expression::" + variant)
        passed = []
        for l_ in (_visit.result_leaves(arm_[0]["body"]) if arm_ else []):
            x_ = hirq.unwrap_trivial(l_)
            if x_.get("k") == "Call" and (hirq.callee(x_) or "").endswith("::Ok") and x_.get("a"):
                pr_ = _origins.producers(e["hir"], x_["a"][0], e.get("params", ()))
                if not pr_ or not all(k_[0] == "call" and str(k_[1]).endswith(("hint::must_use", "fmt::format")) for k_ in pr_):
                    passed.append(l_)
        run.ob("R3-LITERAL-SPELLING", "%s text comes from its template" % variant, bool(arm_) and not passed, F.where(e, passed[0]) if passed else F.where(e),
               "every text the %s arm returns is produced by its format template (%d result(s) are not)" % (variant, len(passed)))
    sarm = hirq.arm_for(m, "Expression::StringLiteral")
    cs = [hirq.callee(c) or "" for c in hirq.calls(sarm[0]["body"])] if sarm else []
    A = lexq.LexTables(F, "alpha")
    esc = A.escape_tables().get(34, {})
    need = {116, 114, 110, 39, 34, 92, 120}
    run.ob("R3-LITERAL-SPELLING", "StringLiteral", "std::ascii::escape_default" in cs and need <= set(esc) and fmt_of("StringLiteral") == ['\\"{}\\"'], F.where(e),
           "string bytes are escaped with ascii::escape_default (\\t \\r \\n \\' \\\" \\\\ \\xHH), all accepted inside string literals: %s" % fmt_of("StringLiteral"))


def r3b_string_text_untouched(run, F):
    """Between `ascii::escape_default` and the quotes nothing rewrites the text: an edit of the *escaped* text cannot tell an escape
    from the same characters standing for themselves (`\\\\x00` is an escaped backslash followed by `x00`; replacing `\\x00` by `\\0`
    inside it changes the bytes of the string).  The calls of the StringLiteral arm are the reviewed, text-preserving ones."""
    e = F.body("<alpha::common::Expression as alpha::rebuilder::Rebuildable>::rebuild")
    m = [x for x in hirq.matches(e["hir"]) if hirq.n_alts(x) > 12][0]
    sarm = hirq.arm_for(m, "Expression::StringLiteral")
    run.require(len(sarm) == 1, "StringLiteral arm of Expression::rebuild not found")
    preserving = ("Iterator::collect", "Iterator::flat_map", "Iterator::map", "Iterator::flatten", "slice::iter", "IntoIterator::into_iter", "ascii::escape_default",
                  "ToString>::to_string", "String::from_utf8_lossy", "String::from_utf8", "Cow<'_, B>::into_owned", "borrow::Cow::into_owned", "Cow::to_string", "borrow::ToOwned>::to_owned", "Result::unwrap", "Result::expect",
                  "v1::Ok", "hint::must_use", "fmt::format", "Argument::new_display", "Arguments::new", "Arguments::new_v1", "String::from", "From>::from", "Into<U>>::into",
                  "String::as_str", "Deref>::deref", "String::push", "String::push_str", "String::new", "String::with_capacity", "Extend<char>>::extend", "char::from")
    other = []
    for c in hirq.calls(sarm[0]["body"]):
        name = hirq.callee(c) or hirq.callee_decl(c) or c.get("name") or "?"
        if not name.endswith(preserving):
            other.append((name, c))
    run.ob("R3-LITERAL-SPELLING", "StringLiteral text untouched", not other, F.where(e, other[0][1]) if other else F.where(e, sarm[0]),
           "the escaped text of a string literal is printed as escape_default produced it; not reviewed as text-preserving: %s" % sorted(set(n.split("::")[-1] for n, _ in other)))


def r4_indentation(run, F):
    b = F.body(RB + "Indentation::increased")
    adds = [n for n in walk(b["hir"]) if n.get("k") == "Binary" and n.get("op") == "Add" and n["rhs"].get("v") == 1]
    subs = [n for n in walk(b["hir"]) if n.get("k") == "Binary" and n.get("op") == "Sub"]
    run.ob("R4-INDENTATION", "increased", len(adds) == 1 and not subs, F.where(b), "Indentation::increased adds exactly one level")
    r = F.body(RB + "rebuild")
    cs = [c for c in hirq.calls(r["hir"]) if c.get("k") == "MethodCall" and c.get("name") == "rebuild"]
    run.ob("R4-INDENTATION", "rebuild() visits every declaration", len(cs) == 1, F.where(r), "rebuild() prints each declaration once")


def r5_parse_only_annotations(run, F):
    """The rebuilder prints *annotated* code (`#id`, `#?`, `(+depth)`).  For a tree that was only parsed the annotations
    that depend on later stages stay empty (identify() prints `#id` only for resolution_id > 0, depth is None), but the
    text printed for what the parser itself builds must lex: every fixed fragment of the format strings reachable with
    parser-built nodes has to be made of lexable characters."""
    # fragments that are printed only for nodes/fields the parser never builds (reviewed): none of the `#` fragments
    # below is in that class -- the parser builds ValueType::Struct for `struct X {..}` and UnresolvedStructOrWord for a type name
    decl = F.body("<alpha::common::Declaration as alpha::rebuilder::Rebuildable>::rebuild")
    vts = [b for p, b in F.lib.bodies.items() if p.endswith("as alpha::rebuilder::Rebuildable>::rebuild") and "value_type::ValueType" in p]
    run.require(len(vts) == 1, "ValueType::rebuild not found")
    frs = {}
    for b, label in ((decl, "Declaration"), (vts[0], "ValueType")):
        for x in walk(b["hir"]):
            src = x.get("src", "")
            if src.startswith(("write!", "writeln!", "format!")):
                mo = re.search(r'"((?:[^"\\]|\\.)*)"', src)
                if mo and "#" in mo.group(1) and "!#!" not in mo.group(1):
                    frs.setdefault((label, mo.group(1)), F.where(b, x))
    for (label, frag), wh in sorted(frs.items()):
        run.ob("R5-PARSER-BUILT-TEXT-LEXES", "%s|%s" % (label, frag), False, wh,
               "%s::rebuild prints the fragment %r for nodes the parser builds; `#` is not a character of the language, so the rebuilt text of "
               "any module with a struct/word declaration or a named type does not lex" % (label, frag))
    run.ob("R5-PARSER-BUILT-TEXT-LEXES", "scan", True, F.where(decl), "%d format fragments with `#` found in Declaration/ValueType rebuild" % len(frs))
    # `pub` is printed for every kind of declaration that can carry it
    m = hirq.find_match(decl, min_arms=5)
    for variant in ("Constant", "Function", "FunctionHead", "Structure"):
        arm = hirq.arm_for(m, "Declaration::" + variant)
        ok = False
        if arm:
            for n in walk(arm[0]["body"]):
                if n.get("k") == "If" and any(hirq.short(p).endswith("DeclarationFlag::Public") for p, _ in hirq.constructs(n["cond"])):
                    ok = True
        run.ob("R5-FLAGS-PRINTED", "%s|pub" % variant, ok, F.where(decl, arm[0] if arm else None),
               "Declaration::%s must print `pub` when the Public flag is set (a public %s loses the flag in a round trip)" % (variant, variant))
        # every flag keyword is printed by its own, independent test (an `else if` drops the second keyword of `pub extern ..`)
        if arm:
            def tests_flag(n):
                return n.get("k") == "If" and any("DeclarationFlag::" in hirq.short(p) for p, _ in hirq.constructs(n["cond"]))
            flag_ifs = [n for n in walk(arm[0]["body"]) if tests_flag(n)]
            nested = []
            for outer in flag_ifs:
                for part in ("then", "else"):
                    if isinstance(outer.get(part), dict):
                        for inner in walk(outer[part]):
                            if inner is not outer and tests_flag(inner):
                                nested.append(sorted(set(hirq.short(p).split("::")[-1] for p, _ in hirq.constructs(inner["cond"]) if "DeclarationFlag::" in hirq.short(p))))
            flags_tested = sorted(set(hirq.short(p).split("::")[-1] for n in flag_ifs for p, _ in hirq.constructs(n["cond"]) if "DeclarationFlag::" in hirq.short(p)))
            run.ob("R5-FLAGS-PRINTED", "%s|independent tests" % variant, not nested and "External" in flags_tested, F.where(decl, arm[0]),
                   "Declaration::%s prints its flag keywords through independent tests (flags tested %s; tests nested in another flag's branch: %s)" % (variant, flags_tested, nested))
    # the file name of an import is a string literal: it must be printed escaped
    iarm = hirq.arm_for(m, "Declaration::Import")
    esc = False
    if iarm:
        cs = [hirq.callee(c) or "" for c in hirq.calls(iarm[0]["body"])]
        srcs = [x.get("src", "") for x in walk(iarm[0]["body"]) if x.get("src")]
        esc = any("escape_default" in c or "escape_debug" in c for c in cs) or any("{:?}" in x for x in srcs)
    run.ob("R5-IMPORT-PATH-ESCAPED", "Import", esc, F.where(decl, iarm[0] if iarm else None),
           "the path of an import is printed between quotes without escaping: `import \"a\\\\b.pn\";` is rebuilt as `import \"a\\b.pn\";`")


def r6_location_blind(run, F):
    """"A second rebuild produces byte-identical text": the tree parsed from rebuilt text equals the first tree only *up to
    locations*, so the text may not depend on any location.  No body of the rebuilder reads a value whose type mentions
    common::Location (typed HIR: field reads, pattern bindings, locals, call results); the patterns there bind every
    location field to `_`."""
    n = 0
    for p, b in sorted(F.lib.bodies.items()):
        if "hir" not in b or not F.rel(b["file"]).endswith("alpha/rebuilder.rs"):
            continue
        n += 1
        hits = []
        for x in walk(b["hir"]):
            t = x.get("t")
            ty = F.lib.ty(t) if isinstance(t, int) else None
            if ty and "Location" in str(ty).replace("TokenLocation", "Location") and x.get("k") in ("Field", "Path", "Bind", "MethodCall", "Call"):
                hits.append(x)
        run.ob("R6-LOCATION-BLIND", b["npath"], not hits, F.where(b, hits[0]) if hits else F.where(b),
               "%s reads %d value(s) of a location type (first: %s %s): rebuilt text would depend on where the source stood, and the second rebuild "
               "sees other locations than the first" % (b["npath"], len(hits), hits[0].get("k") if hits else "", (hits[0].get("name") or hits[0].get("res") or "") if hits else ""))
    run.floor("R6-LOCATION-BLIND", 20, "bodies of src/alpha/rebuilder.rs (23 counted)")


def r7_nodes_as_they_are(run, F):
    """The tree parsed back equals the original only if every node is printed as the node it is: the receiver of each
    `.rebuild(..)` call in the rebuilder is a field, a binding or an element of the node at hand (through std accessors and
    iterators), never the result of a function of the crate that picks another node in its place (printing the `if` inside
    `else { if .. }` instead of the block loses the Block node, although the text still parses and means the same)."""
    from rules import origins
    n = 0
    for p, b in sorted(F.lib.bodies.items()):
        if "hir" not in b or not F.rel(b["file"]).endswith("alpha/rebuilder.rs"):
            continue
        for c in hirq.calls(b["hir"]):
            if c.get("k") == "MethodCall" and c.get("name") == "rebuild":
                n += 1
                o = origins.origins(b["hir"], c["recv"], b.get("params", ()))
                via = sorted(set(str(k[1]) for k in o if k[0] == "call" and str(k[1]).startswith(("alpha::", "<alpha::")) and not str(k[1]).endswith("::rebuild")))
                if via:
                    run.ob("R7-NODES-AS-THEY-ARE", "%s|%s" % (p.split(" as ")[0].strip("<").split("::")[-1], via[0].split("::")[-1]), False, F.where(b, c),
                           "the node handed to rebuild() is chosen by %s instead of being the child itself: a node replaced before printing is "
                           "missing from the tree that is parsed back" % via)
    run.ob("R7-NODES-AS-THEY-ARE", "scan", n >= 70, "src/alpha/rebuilder.rs", "%d rebuild() call sites examined (82 counted)" % n)


def check(run):
    F = run.facts("B")
    r6_location_blind(run, F)
    r7_nodes_as_they_are(run, F)
    r1_spellings(run, F)
    r2_completeness(run, F)
    r3_literals(run, F)
    r3b_string_text_untouched(run, F)
    r4_indentation(run, F)
    r5_parse_only_annotations(run, F)
    if run.tier == "thorough":
        FA = run.facts("A")
        run.key_prefix = "cfgA:"
        for fn in (r1_spellings, r2_completeness, r3_literals, r4_indentation, r6_location_blind, r7_nodes_as_they_are):
            fn(run, FA)
        run.key_prefix = ""
