"""C13 -- diagnostics are well-located, documented and deterministic."""
import os
import re

from rules import hirq, mirq, apimisuse, origins, lexq
from rules.core import walk, norm_path, AnchorMissing, REPO

LEVEL = "other"
EXPLANATION = (
    "Static analysis of the diagnostics machinery (cfg B). Decided: R1 Error::code is a total, injective table without "
    "wildcard over every Error variant (and nested lexer::Error); the code of every *constructible* variant (one with a "
    "construction site outside error.rs) is a heading of docs/errors.md; error codes lie in 100..=999 and lint codes in "
    "1000..=2999 as build_report's kind table assumes; R2 determinism: no iteration over std HashMap/HashSet anywhere in "
    "the lib or bin (positive control on a fixture crate), and no call from the compiler pipeline into rand, clocks, "
    "environment, threads; R3 Errors::sorted is a stable sort by Location::comparison_key = (file, line, offset); "
    "R4 line-offset bookkeeping of the first-generation lexer: a function that iterates str::lines() (which strips \"\\n\" "
    "or \"\\r\\n\") and advances an offset by line length + 1 must account for the two-character terminator; R5 unit "
    "agreement: StdOut::new selects ariadne::IndexType::Char exactly when the alpha lexer is the front end and that lexer "
    "advances offsets in chars(), Byte for delta; R6 colour/charset options flow into the ariadne Config. Not decided: "
    "span contents and rendering for every input."
    " ADDED LATER: R7 a merged location takes line and column from its receiver: Tokens::location_of_span and the cast site build start.combined_with(end)."
    " ROUND 8: R8-DERIVED-SPANS: a span derived from a location in the report builder has the location's own ends, unmodified (label_before_start = start..start, label_after_end = end..end); a span reaching past the location can reach past the end of the file and the renderer drops the label."
    " ROUND 10: R9-OPERATOR-LOCATION-AFTER-POP: in the first-generation parser a read of tokens.last_location that ends up as a location_of_op directly follows the statement that pops the operator token (6 sites)."
    " ROUND 11: R11-EXPRESSION-LOCATION: for each variant of Expression that has a `location` field (12), Expression::location() answers with that field, not with the location of a part; R10-ESCAPE-SPAN (/repo fix ca57e48): the span end advanced for an escape character is taken back when the line ends after the backslash.")

ERR = "alpha::error::Error"


def docs_codes():
    p = os.path.join(os.environ.get("PENNE_REPO", REPO), "docs", "errors.md")
    codes = {}
    with open(p) as fh:
        for i, line in enumerate(fh, 1):
            m = re.match(r"^## (?:Error|Lint) code ([EL])(\d+)\s*$", line)
            if m:
                codes[int(m.group(2))] = (m.group(1), i)
    return codes


def code_table(F):
    b = F.body(ERR + "::code")
    m = None
    for mm in hirq.matches(b["hir"]):
        if hirq.n_alts(mm) > 40:
            m = mm
    if m is None:
        raise AnchorMissing("Error::code match not found")
    table = {}
    wild = []

    def rows(match, prefix):
        for a in match["arms"]:
            body = hirq.unwrap_trivial(a["body"])
            for alt in hirq.pat_alts(a["pat"]):
                if hirq.is_catchall(alt):
                    wild.append(a)
                    continue
                v = prefix + hirq.pat_key(alt).split("::")[-1]
                if body.get("k") == "Match":
                    rows(body, v + "/")
                elif body.get("k") == "Lit":
                    table[v] = body["v"]
                else:
                    table[v] = None
    rows(m, "")
    return b, table, wild


def r1_codes(run, F):
    b, table, wild = code_table(F)
    run.ob("R1-CODE-TABLE", "no-wildcard", not wild, F.where(b), "Error::code must list every variant explicitly")
    variants = F.variants(ERR)
    lex_variants = F.variants("alpha::lexer::Error")
    for v in variants:
        if v == "Lexical":
            for lv in lex_variants:
                run.ob("R1-CODE-TABLE", "Lexical/" + lv, isinstance(table.get("Lexical/" + lv), int), F.where(b), "lexer::Error::%s has no code" % lv)
        else:
            run.ob("R1-CODE-TABLE", v, isinstance(table.get(v), int), F.where(b), "Error::%s has no literal code" % v)
    inv = {}
    for v, c in table.items():
        inv.setdefault(c, []).append(v)
    for c, vs in sorted(inv.items(), key=lambda x: (x[0] is None, x[0])):
        if c is None:
            continue
        run.ob("R1-INJECTIVE", str(c), len(vs) == 1, F.where(b), "code %s is shared by %s" % (c, vs))
    # construction sites outside error.rs
    constructed = {}
    for crate in (F.lib, F.bin):
        for body in crate.bodies.values():
            if "hir" not in body:
                continue
            rel = F.rel(body["file"])
            if rel == "src/alpha/error.rs":
                continue
            for p, node in hirq.constructs(body["hir"]):
                p = norm_path(p)
                if p.startswith(ERR + "::"):
                    constructed.setdefault(p.split("::")[-1], []).append(F.where(body, node))
                elif p.startswith("alpha::lexer::Error::"):
                    constructed.setdefault("Lexical/" + p.split("::")[-1], []).append(F.where(body, node))
    docs = docs_codes()
    run.require(len(docs) >= 70, "docs/errors.md headings not parsed (%d)" % len(docs))
    lint_variants = set()
    for v, c in sorted(table.items()):
        if c is None:
            continue
        is_lint = c >= 1000
        rng_ok = (100 <= c <= 999) or (1000 <= c <= 2999)
        run.ob("R1-CODE-RANGE", v, rng_ok, F.where(b), "code %d of %s is outside 100..=999 / 1000..=2999" % (c, v))
        if v in constructed:
            letter = "L" if is_lint else "E"
            ok = c in docs and docs[c][0] == letter
            run.ob("R1-DOCUMENTED", "%s%d" % (letter, c), ok, constructed[v][0],
                   "%s%d (Error::%s) can be emitted (e.g. at %s) but docs/errors.md has no `## %s code %s%d` section" % (
                       letter, c, v, constructed[v][0], "Lint" if is_lint else "Error", letter, c),
                   sample={"variant": v, "code": c, "construction_sites": constructed[v][:4]})
        else:
            if c not in docs:
                run.info("R1: Error::%s (code %d) is undocumented but never constructed" % (v, c))
    run.floor("R1-DOCUMENTED", 75)
    # build_report kind table ranges
    br = F.body(ERR + "::build_report")
    m = None
    from rules import origins as _or
    for mm in hirq.matches(br["hir"]):
        # the match over the numeric code: its scrutinee is (a local holding) the result of Error::code()
        o = _or.origins(br["hir"], mm["scrut"], br.get("params", ()))
        if ("call", ERR + "::code") in o and hirq.n_alts(mm) >= 2:
            m = mm
            break
    run.require(m is not None, "the match over self.code() was not found in build_report")
    rows = []
    for a in m["arms"]:
        p = hirq.strip_ref(a["pat"])
        kinds = [hirq.short(x) for x, _ in hirq.constructs(a["body"])]
        letters = lexq_chars(a["body"])
        if p.get("k") == "Range":
            rows.append((p["lo"].get("v"), p["hi"].get("v"), [k for k in kinds if k.startswith("ReportKind::")], letters))
    want = [(100, 999, ["ReportKind::Error"], [69]), (1000, 1999, ["ReportKind::Warning"], [76]), (2000, 2999, ["ReportKind::Advice"], [76])]
    run.ob("R1-KIND-TABLE", "build_report", rows == want, F.where(br, m),
           "code ranges must map to Error/'E', Warning/'L', Advice/'L': %s" % rows, sample=rows)


def lexq_chars(node):
    return [n["v"] for n in walk(node) if n.get("k") == "Lit" and n.get("lk") == "char"]


def r2_determinism(run, F):
    fx = apimisuse.fixture()
    ctl = apimisuse.hash_iterations(fx)
    run.ob("R2-POSITIVE-CONTROL", "hash-iteration matcher", len(ctl) >= 3, "rules/fixtures/fx/src/lib.rs",
           "the hash-iteration matcher must recognise the three fixture sites (found %d)" % len(ctl))
    n_bodies = 0
    for crate, cname in ((F.lib, "lib"), (F.bin, "bin")):
        n_bodies += sum(1 for b in crate.bodies.values() if "hir" in b)
        for b, n, d in apimisuse.hash_iterations(crate):
            run.ob("R2-HASH-ITERATION", "%s|%s" % (b["npath"], d.split(" on ")[0].split(" over ")[0]), False, F.where(b, n),
                   "%s: iteration order of std hash containers differs between runs, so anything ordered by this loop "
                   "(declaration order, diagnostics, IR text) is not a function of the input" % d)
    run.note_analysed("R2 bodies scanned for hash iteration", n_bodies)
    run.ob("R2-HASH-ITERATION", "scan-complete", n_bodies > 1000, "src/", "scanned %d function bodies" % n_bodies)
    # no nondeterministic inputs in the pipeline: call-graph closure of the library pipeline entry points
    g = mirq.callgraph(F.lib)
    entries = ["alpha::lexer::lex", "alpha::parser::parse", "alpha::expander::expand", "alpha::scoper::analyze",
               "alpha::resolver::check_surface_level_errors", "alpha::Compiler::add_module", "alpha::Compiler::analyze_and_resolve",
               "alpha::Compiler::compile", "alpha::Compiler::take_lints", "alpha::Compiler::link_modules", "alpha::Compiler::generate_ir",
               "alpha::error::Error::build_report"]
    for e in entries:
        run.require(e in F.lib.bodies, "pipeline entry %s missing" % e)
    R = mirq.reachable_fns(g, entries)
    bad_prefixes = ("rand::", "std::time::", "std::env::", "std::thread::", "std::process::id", "std::collections::hash_map::RandomState::new",
                    "std::hash::RandomState::new")
    hits = {}
    for fn in R:
        for c in g.get(fn, ()):
            if c.startswith(bad_prefixes) and fn in F.lib.bodies:
                hits.setdefault(fn, set()).add(c)
    allowed = {}
    for fn, cs in sorted(hits.items()):
        for c in sorted(cs):
            run.ob("R2-NO-AMBIENT-INPUT", "%s|%s" % (fn, c), (fn, c) in allowed, F.where(F.lib.bodies[fn]),
                   "compiler pipeline function %s calls %s" % (fn, c))
    run.ob("R2-NO-AMBIENT-INPUT", "closure", len(R) > 300, "src/alpha", "%d functions reachable from the pipeline entry points" % len(R))
    run.note_analysed("R2 pipeline closure functions", len(R))


def r3_sorting(run, F):
    b = F.body("alpha::error::Errors::sorted")
    cs = [c for c in hirq.calls(b["hir"])]
    names = [hirq.callee(c) or "" for c in cs]
    stable = any(n.endswith("slice::sort_by") or n.endswith("slice::sort_by_key") for n in names)
    unstable = any("sort_unstable" in n for n in names)
    keys = sum(1 for n in names if n.endswith("Location::comparison_key"))
    run.ob("R3-STABLE-SORT", "Errors::sorted", stable and not unstable and keys == 2, F.where(b),
           "diagnostics must be ordered with a stable sort on Location::comparison_key of both operands: %s" % [n for n in names if "sort" in n or "comparison" in n])
    ck = F.body("alpha::lexer::Location::comparison_key")
    e = hirq.unwrap_trivial(ck["hir"])
    fields = [n.get("name") for n in walk(e) if n.get("k") == "Field"]
    run.ob("R3-COMPARISON-KEY", "Location::comparison_key", e.get("k") == "Tup" and fields == ["source_filename", "line_number", "line_offset"],
           F.where(ck), "key must be (source_filename, line_number, line_offset): %s" % fields)


def r4_lines(run, F):
    fx = apimisuse.fixture()
    run.ob("R4-POSITIVE-CONTROL", "lines-offset matcher", len(apimisuse.lines_offset_sites(fx)) == 1, "rules/fixtures/fx/src/lib.rs",
           "the lines()+offset matcher must recognise the fixture site")
    sites = apimisuse.lines_offset_sites(F.lib, lambda b: F.rel(b["file"]).startswith("src/alpha"))
    for b, n, d in sites:
        # compensated if the function inspects the terminator: a starts_with/ends_with("\r\n") test guarding an extra += 1
        comp = False
        for x in walk(b["hir"]):
            if x.get("k") == "If":
                cc = [c for c in hirq.calls(x["cond"]) if (hirq.callee(c) or "").endswith(("str::starts_with", "str::ends_with"))]
                lit = [l["v"] for l in hirq.lits(x["cond"], "str")]
                incs = [y for y in walk(x["then"]) if y.get("k") == "AssignOp" and hirq.local_name_of(y["lhs"]) == hirq.local_name_of(n["lhs"])]
                if cc and "\r\n" in lit and incs:
                    comp = True
        run.ob("R4-LINE-TERMINATOR-WIDTH", b["npath"], comp, F.where(b, n),
               "%s: str::lines() strips \"\\n\" or \"\\r\\n\" but the offset advances by one terminator character: in a CRLF file "
               "every later span starts one character too early per preceding line" % d)
    lx = F.body("alpha::lexer::lex")
    uses_lines = any((hirq.callee(c) or "") == "core::str::lines" for c in hirq.calls(lx["hir"]))
    run.ob("R4-LINE-TERMINATOR-WIDTH", "alpha::lexer::lex|line iteration analysed", uses_lines == bool([s for s in sites if s[0] is lx]) or not uses_lines,
           F.where(lx), "lex() line iteration recognised")
    # every line gets lexed with the accumulated offset and 1-based line number
    cl = [c for c in hirq.calls(lx["hir"]) if hirq.callee(c) == "alpha::lexer::lex_line"]
    # the offset argument is the running offset: the local that the line loop advances (by role: it is the target of a `+=`)
    adv = set(hirq.unwrap_trivial(n["lhs"]).get("lid") for n in walk(lx["hir"]) if n.get("k") == "AssignOp" and n.get("op") in ("Add", "AddAssign"))
    ok = len(cl) == 1 and hirq.unwrap_trivial(cl[0]["a"][2]).get("lid") in adv
    ln = cl[0]["a"][3] if cl else {}
    ok = ok and ln.get("k") == "Binary" and ln.get("op") == "Add" and (ln["lhs"].get("v") == 1 or ln["rhs"].get("v") == 1)
    run.ob("R4-LINE-NUMBERS", "alpha::lexer::lex", ok, F.where(lx), "lex_line must receive the running offset and line number 1 + i")


def r5_units(run, F):
    b = F.body("alpha::stdout::StdOut::new")
    # evaluate the cfg! chain: conditions are boolean literals after expansion
    sel = None
    index_lids = _index_lids(b)
    for n in walk(b["hir"]):
        # by role: the local whose value is handed to with_index_type
        if n.get("k") == "Let" and n["pat"].get("lid") in index_lids and isinstance(n.get("init"), dict):
            e = n["init"]
            while e.get("k") == "If":
                c = hirq.unwrap_trivial(e["cond"])
                val = c.get("v") if c.get("k") == "Lit" else None
                if val is True:
                    e = hirq.unwrap_trivial(e["then"])
                    break
                elif val is False and "else" in e:
                    e = hirq.unwrap_trivial(e["else"])
                else:
                    e = {}
            cons = [hirq.short(p) for p, _ in hirq.constructs(e)]
            sel = cons[0] if len(cons) == 1 else ("panic" if any(hirq.panic_kind(c) for c in hirq.calls(e)) else None)
    want = "IndexType::Char" if F.cfg == "B" else None
    run.ob("R5-INDEX-TYPE", "StdOut::new", sel == want, F.where(b),
           "with the alpha front end the renderer must index spans by Char (selected: %s)" % sel, sample={"selected": sel})
    # alpha lexer offsets advance in chars
    for fn in ("alpha::lexer::lex", "alpha::lexer::lex_line"):
        lb = F.body(fn)
        for n in walk(lb["hir"]):
            if n.get("k") == "AssignOp" and hirq.unwrap_trivial(n["lhs"]).get("rk") == "Local" and str(F.lib.ty(hirq.unwrap_trivial(n["lhs"]).get("t"))) == "usize":
                cs = [hirq.callee(c) or "" for c in hirq.calls(n["rhs"])]
                bad = [c for c in cs if c.endswith(("str::len", "str::as_bytes", "str::bytes", "String::len"))]
                run.ob("R5-CHAR-UNITS", "%s|offset advance" % fn, not bad, F.where(lb, n),
                       "span offsets of the first generation are in characters; byte-based call %s" % bad)
        its = [hirq.callee(c) or "" for c in hirq.calls(lb["hir"])]
        if fn.endswith("lex_line"):
            run.ob("R5-CHAR-UNITS", fn + "|iterates chars", any(c == "core::str::chars" for c in its) and not any(c == "core::str::bytes" for c in its),
                   F.where(lb), "lex_line must scan line.chars()")
    run.floor("R5-CHAR-UNITS", 10)


def _index_lids(b):
    return set(hirq.unwrap_trivial(c["a"][0]).get("lid") for c in hirq.calls(b["hir"])
               if c.get("k") == "MethodCall" and c.get("name") == "with_index_type" and c.get("a"))


def r6_config(run, F):
    b = F.body("alpha::stdout::StdOut::new")
    index_lids = _index_lids(b)
    chain = [c for c in hirq.calls(b["hir"]) if c.get("k") == "MethodCall" and c.get("name") in ("with_color", "with_char_set", "with_index_type")]
    got = {}
    for c in chain:
        arg = c["a"][0]
        from rules import origins as _or
        o = _or.origins(b["hir"], arg, b.get("params", ()))
        flds = sorted(k[1] for k in o if k[0] == "field")
        got.setdefault(c["name"], []).append("index-type local" if hirq.unwrap_trivial(arg).get("lid") in index_lids and not flds else ",".join(flds))
    ok = got.get("with_index_type") == ["index-type local"] and "with_color" in got and all(x == "color" for x in got["with_color"]) \
        and got.get("with_char_set") == ["arrows"]
    run.ob("R6-CONFIG-PLUMBING", "StdOut::new", ok, F.where(b),
           "ariadne config must be built with_index_type(index_type).with_color(with_color).with_char_set(options.arrows): %s" % got, sample=got)
    # with_color derives from options.color
    m = None
    for mm in hirq.matches(b["hir"]):
        keys = [hirq.pat_key(a["pat"]) for a in mm["arms"]]
        if any(k.startswith("ColorChoice::") for k in keys) and hirq.unwrap_trivial(mm["scrut"]).get("name") == "color":
            rows = {}
            for a in mm["arms"]:
                body = hirq.unwrap_trivial(a["body"])
                rows[hirq.pat_key(a["pat"])] = body["v"] if body.get("k") == "Lit" else "dynamic"
            m = rows
    run.ob("R6-CONFIG-PLUMBING", "ColorChoice::Never -> false", m is not None and m.get("ColorChoice::Never") is False and m.get("ColorChoice::Always") is True,
           F.where(b), "--color=never must disable colour in rendered diagnostics: %s" % m)


def r7_span_start(run, F):
    """A merged location reports the line and column of its receiver (Location::combined_with copies everything but the
    span from `self`): a span location must be built as start.combined_with(end), so that the reported line is the line
    the span starts on."""
    cw = F.body("alpha::lexer::Location::combined_with")
    ok = False
    for path, node in hirq.constructs(cw["hir"]):
        if hirq.short(path).endswith("Location") and node.get("k") == "Struct":
            names = [f["name"] for f in node.get("fields", [])]
            base = hirq.unwrap_trivial(node.get("base") or {})
            ok = names == ["span"] and base.get("k") == "Path" and base.get("res") == "self"
    mins = [hirq.callee(c) for c in hirq.calls(cw["hir"])]
    run.ob("R7-SPAN-START-FIRST", "combined_with", ok and "std::cmp::min" in mins and "std::cmp::max" in mins, F.where(cw),
           "combined_with = Location { span: min(starts)..max(ends), ..self }: line_number/line_offset are the receiver's")
    ls = F.body("alpha::parser::Tokens::location_of_span")
    calls = [c for c in hirq.calls(ls["hir"]) if c.get("k") == "MethodCall" and c.get("name") == "combined_with"]
    run.require(len(calls) == 1, "Tokens::location_of_span: expected one combined_with call (found %d)" % len(calls))
    ro = origins.origins(ls["hir"], calls[0]["recv"], ls.get("params", ()))
    ao = origins.origins(ls["hir"], calls[0]["a"][0], ls.get("params", ()))
    ok = ("param", "start") in ro and ("field", "last_location") not in ro and ("field", "last_location") in ao
    run.ob("R7-SPAN-START-FIRST", "Tokens::location_of_span", ok, F.where(ls, calls[0]),
           "the span location is start.combined_with(&last_location): receiver from `start` (%s), argument from last_location (%s); the other way "
           "round a construct written over several lines is reported on its last line" % (("param", "start") in ro, ("field", "last_location") in ao))
    # `cast <operand>`: the keyword comes first, so it is the receiver
    se = F.body("alpha::parser::parse_singular_expression")
    sites = [c for c in hirq.calls(se["hir"]) if c.get("k") == "MethodCall" and c.get("name") == "combined_with"]
    n_kw = 0
    for c in sites:
        def names(e):
            return set(x.get("res") for x in walk(e) if x.get("k") == "Path" and x.get("rk") == "Local")
        rn, an = names(c["recv"]), names(c["a"][0])
        if "location_of_keyword" in rn | an:
            n_kw += 1
            run.ob("R7-SPAN-START-FIRST", "parse_singular_expression|cast keyword", "location_of_keyword" in rn and "location_of_keyword" not in an, F.where(se, c),
                   "`cast <operand>` starts at the keyword: the keyword's location is the receiver, the operand's the argument")
    run.ob("R7-SPAN-START-FIRST", "parse_singular_expression|cast site found", n_kw == 1, F.where(se), "one merge of the cast keyword's location (found %d)" % n_kw)


def r8_derived_spans(run, F):
    """A label placed "right before" or "right after" a location is an empty span at one of the location's own ends.  Any other
    span derived from a location in the report builder must stay inside it: both ends are `span.start` / `span.end` of the
    location, read as they are (no arithmetic), in order.  A span that reaches past the location can reach past the end of the
    file, and the renderer silently drops a label it cannot place (an E100 at the end of a file without a final newline lost
    its primary label)."""
    n = 0
    want = {"label_before_start": ("start", "start"), "label_after_end": ("end", "end")}
    seen = set()
    for p, b in sorted(F.lib.bodies.items()):
        if "hir" not in b or not F.rel(b["file"]).endswith("alpha/error.rs"):
            continue
        for x in walk(b["hir"]):
            if x.get("k") != "Struct" or not str(x.get("path", "")).endswith("ops::Range") or x.get("t") is None or "usize" not in F.lib.types[x["t"]]:
                continue
            n += 1
            ends = {}
            from rules import origins as _or
            for f in x.get("fields", []):
                # through let-bound locals: the end is computed from exactly one of `span.start` / `span.end`, no literal, no call
                o = _or.origins(b["hir"], f["e"], b.get("params", ()))
                o = {k for k in o if not (k[0] == "call" and str(k[1]).endswith("clone"))}
                which = {k[1] for k in o if k[0] == "field" and k[1] in ("start", "end")}
                other = {k for k in o if k[0] in ("lit", "call") or (k[0] == "field" and k[1] not in ("start", "end", "span"))}
                arith = any(y.get("k") == "Binary" for y in walk(f["e"]))
                ends[f["name"]] = list(which)[0] if len(which) == 1 and not other and not arith and ("field", "span") in o else None
            fn = p.split("::")[-1]
            pair = (ends.get("start"), ends.get("end"))
            ok = pair in (("start", "start"), ("start", "end"), ("end", "end"))
            if fn in want:
                seen.add(fn)
                ok = ok and pair == want[fn]
            run.ob("R8-DERIVED-SPANS", "%s" % fn, ok, F.where(b, x),
                   "a span derived from a location has the location's own ends, unmodified%s: found %s..%s" % (
                       (" (%s..%s)" % want[fn]) if fn in want else "", pair[0] or "<computed>", pair[1] or "<computed>"))
    run.require(seen == set(want), "error.rs: label_before_start / label_after_end not found (%s)" % sorted(seen))
    run.ob("R8-DERIVED-SPANS", "scan", n >= 2, "src/alpha/error.rs", "%d spans built in the report builder" % n)


def r9_operator_location_after_pop(run, F):
    """`tokens.last_location` is the location of the token popped last.  The location of an operator (the primary location of E550 /
    E551 and their sort key) is therefore read *after* the operator token has been popped: in the first-generation parser every
    statement that stores `tokens.last_location` into a local which ends up as `location_of_op` of an expression directly follows
    the statement that pops the token.  Read before the pop it is the location of the previous operand's last token -- a
    diagnostic that points at a neighbouring operand, possibly on another line, and still looks consistent."""
    n = 0
    for p, b in sorted(F.lib.bodies.items()):
        if "hir" not in b or not F.rel(b["file"]).endswith("alpha/parser.rs") or "{closure" in p:
            continue
        # locals that become the `location_of_op` of a constructed expression
        op_lids = set()
        for x in walk(b["hir"]):
            if x.get("k") == "Struct":
                for f in x.get("fields", []):
                    if f["name"] == "location_of_op":
                        for y in walk(f["e"]):
                            if y.get("k") == "Path" and y.get("rk") == "Local":
                                op_lids.add(y.get("lid"))
        if not op_lids:
            continue

        def reads_last(e):
            e = hirq.unwrap_trivial(e)
            while e.get("k") == "MethodCall" and e.get("name") == "clone":
                e = hirq.unwrap_trivial(e["recv"])
            return e.get("k") == "Field" and e.get("name") == "last_location"

        def pops(stmt):
            return any((hirq.callee(c) or c.get("name") or "").split("::")[-1] == "pop_front" for c in hirq.calls(stmt))
        for blk in [x for x in walk(b["hir"]) if x.get("k") == "Block"]:
            st = blk.get("stmts", [])
            for i, s_ in enumerate(st):
                lid = None
                if s_.get("k") == "Let" and isinstance(s_.get("init"), dict) and reads_last(s_["init"]) and hirq.strip_ref(s_["pat"]).get("k") == "Bind":
                    lid = hirq.strip_ref(s_["pat"])["lid"]
                elif s_.get("k") == "Assign" and reads_last(s_["rhs"]):
                    lid = hirq.unwrap_trivial(s_["lhs"]).get("lid")
                if lid is None or lid not in op_lids:
                    continue
                n += 1
                ok = i > 0 and pops(st[i - 1]) and not any(pops(t) for t in st[i + 1:i + 2])
                run.ob("R9-OPERATOR-LOCATION-AFTER-POP", "%s|site %d" % (p.split("::")[-1], n), ok, F.where(b, s_),
                       "the operator's location is read from tokens.last_location directly after the statement that pops the operator token "
                       "(previous statement pops: %s)" % (i > 0 and pops(st[i - 1])))
    run.floor("R9-OPERATOR-LOCATION-AFTER-POP", 5, "operator-location reads in the first-generation parser (6 counted)")


def r10_escape_span(run, F):
    """Inside a quoted literal the first-generation lexer advances the end of the span by one for the character that follows a
    backslash *before* it looks whether there is one.  When the line ends right after the backslash (E161) that position does not
    exist: the arm for "nothing follows" takes the advance back, so that the span of the error is the backslash itself.  Left in
    place, the span ends one past the end of the line -- one past the end of the *file* for a last line without a line feed,
    and the renderer then shows neither source line nor label."""
    A = lexq.LexTables(F, "alpha")
    b = A.body
    n = 0
    for q, arm in sorted(A.quote_arms.items()):
        for node in walk(arm["body"]):
            if node.get("k") != "If":
                continue
            cond = hirq.unwrap_trivial(node["cond"])
            if not (cond.get("k") == "Binary" and cond.get("op") == "Eq" and lexq.char_lits(cond) == [92]):
                continue
            then = hirq.unwrap_trivial(node["then"])
            stmts = then.get("stmts", []) + ([then["e"]] if then.get("e") is not None else [])
            pre = []
            esc = None
            for s_ in stmts:
                x = s_.get("e", s_) if s_.get("k") in ("Semi", "Expr") else s_
                if x.get("k") == "AssignOp" and x.get("op") in ("Add", "AddAssign") and hirq.unwrap_trivial(x["lhs"]).get("k") == "Path" and esc is None:
                    pre.append(hirq.unwrap_trivial(x["lhs"]).get("lid"))
                ms = [m for m in ([x] if x.get("k") == "Match" else []) if lexq.is_next(m["scrut"])]
                if ms and esc is None:
                    esc = ms[0]
            if esc is None:
                continue
            n += 1
            none_arms = [a for a in esc["arms"] if str(hirq.strip_ref(a["pat"]).get("res", "")).endswith("None")]
            undone = set()
            for a in none_arms:
                for x in walk(a["body"]):
                    if x.get("k") == "AssignOp" and x.get("op") in ("Sub", "SubAssign"):
                        undone.add(hirq.unwrap_trivial(x["lhs"]).get("lid"))
            ok = len(none_arms) == 1 and all(l in undone for l in pre)
            run.ob("R10-ESCAPE-SPAN", "alpha %s|trailing backslash" % ("string" if q == 34 else "char"), ok, F.where(b, none_arms[0] if none_arms else esc),
                   "the span end advanced for the escape character before `iter.next()` (%d local(s)) is taken back in the arm for a line that ends after the backslash (%d undone)" % (len(pre), len(undone)))
    run.ob("R10-ESCAPE-SPAN", "scan", n >= 1, F.where(b), "%d escape decoder(s) of the first-generation lexer examined" % n)


def r11_expression_location(run, F):
    """The typer, the call analyzer and the resolver place a diagnostic *on an expression* through Expression::location().  For a
    variant that has a `location` field (the span of the whole expression) that field is the answer: not the location of the
    operator, of the target type of a cast or of another part, which covers only a piece of the offending text."""
    b = F.body("alpha::common::Expression::location")
    ms = hirq.matches_on_type(F.lib, b["hir"], "common::Expression", min_alts=8)
    run.require(len(ms) >= 1, "Expression::location: match on the expression not found")
    variants = {v["name"]: [f["name"] for f in v.get("fields", [])] for v in F.adt("alpha::common::Expression")["variants"]}
    n = 0
    for arm in ms[0]["arms"]:
        for alt in hirq.pat_alts(arm["pat"]):
            v = hirq.pat_key(alt).split("::")[-1]
            if "location" not in variants.get(v, []):
                continue
            n += 1
            fps, _ = hirq.field_pats(alt)
            body = hirq.unwrap_trivial(arm["body"])
            bind = hirq.strip_ref((fps or {}).get("location", {}))
            ok = bind.get("k") == "Bind" and body.get("k") == "Path" and body.get("lid") == bind.get("lid")
            run.ob("R11-EXPRESSION-LOCATION", v, ok, F.where(b, arm),
                   "Expression::%s has a `location` of the whole expression; location() answers with %s" % (v, sorted(fps or {}) if not ok else "it"))
    run.floor("R11-EXPRESSION-LOCATION", 10, "variants of Expression with a location field (12 counted)")


def check(run):
    F = run.facts("B")
    r1_codes(run, F)
    r2_determinism(run, F)
    r3_sorting(run, F)
    r4_lines(run, F)
    r5_units(run, F)
    r6_config(run, F)
    r7_span_start(run, F)
    r8_derived_spans(run, F)
    r9_operator_location_after_pop(run, F)
    r10_escape_span(run, F)
    r11_expression_location(run, F)
