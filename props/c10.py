"""C10 -- compile-time evaluation agrees with run time (structural clauses)."""
import json
import re

from rules import hirq, mirq, visit
from rules.core import walk, norm_path, AnchorMissing

LEVEL = "other"
EXPLANATION = (
    "Static analysis of size/length bookkeeping (cfg B). Values folded by LLVM versus values computed at run time are "
    "NOT decided. Decided: R1 size agreement of the two sibling tables: known_size_in_bytes_as_word_member (bytes used "
    "for word layout) versus the LLVM integer type chosen by ValueType::generate (bits): bytes * 8 = bits for every "
    "integer and char type, bool is 1 byte / i1 (reviewed), usize has no fixed word size and lowers to type_of_usize; "
    "R2 MAXIMUM_ALIGNMENT * 8 equals the largest integer alignment of DEFAULT_DATA_LAYOUT (i64:64, no i128 entry), "
    "align_struct caps member alignment with it, and for_wasm switches the data layout string together with "
    "type_of_usize (32 bit pointers <-> i32); R3 named lengths: fetch_declared_constants runs after generator.declare "
    "on the Ok edge, only feeds constants of type usize into resolve_named_length, and retrieve_named_length reads only "
    "that table; get_named_length reads the zero-extended constant registered by declare; R4 |x|: the typer's "
    "LengthOfArray arm distinguishes Array (length step), ArrayWithNamedLength (the constant), Slice/SlicePointer "
    "(slice header length) and rejects everything else with NotAnArrayWithLength; R5 word size check: "
    "aligned_size_in_bytes <= declared size else WordSizeMismatch (E380); R6 |:T|: the generator's SizeOf arm computes "
    "the constant from Generator::size_in_bits (LLVMSizeOfTypeInBits on the module's own data layout) of the lowered "
    "type, divided by 8, consults no other size table, and |:bool| = 1 is the only special case; R7 the constness analyzer "
    "visits every sub-expression of a constant initialiser or rejects the whole expression (function calls, |x|); R8 the "
    "length of a fixed-size array is LLVMGetArrayLength of the pointee type of its storage address, not a quotient of sizes."
    " ADDED LATER: R7 the constness analyzer visits or rejects every sub-expression; R8 |x| of a fixed array is LLVMGetArrayLength of the pointee type; R9 a named length is only read from an integer constant; C09.R7 (string literal bytes) is shared."
    " ROUNDS 5-6: C07.R5-EQUALS-STRUCTURAL is shared (a length read off a parameter type is the caller's only if the coercion compared every dimension)."
    " ROUND 7: R2-MEMBER-PADDING: in align_struct every member of known size is padded to its own alignment unconditionally before its size is added."
    " ROUND 8: R10-PASS-KEEPS-NODE: every arm of the rewriting passes before the typer and after it (constness, function_calls, mutability, syntax, the two scoper passes; 171 arms) evaluates to self, the same variant rebuilt with the arm's own operator, or a Poison (an operator dropped in constant initialisers only makes a constant differ from the same expression in a function)."
    " ROUND 9: R11-LENGTH-NOT-NARROWED: of the narrowing `as` casts of the generator (31 counted) none takes an array length; R10 has a struct mode (rebuild on every path or on none)."
    " ROUND 10: C12.R3-COMPILER-RESET is shared: named lengths live in the per-module typer, which a second module must get fresh.")

VT = "alpha::value_type::ValueType::"


def r1_sizes(run, F):
    b = F.body(VT + "known_size_in_bytes_as_word_member")
    m = hirq.find_match(b, min_arms=10)
    sizes = {}
    for a in m["arms"]:
        v = hirq.pat_key(a["pat"]).split("::")[-1]
        body = hirq.unwrap_trivial(a["body"])
        if body.get("k") == "Call" and (hirq.callee(body) or "").endswith("Some") and body["a"][0].get("k") == "Lit":
            sizes[v] = body["a"][0]["v"]
        elif body.get("k") == "Path" and (body.get("res") or "").endswith("None"):
            sizes[v] = None
        else:
            sizes[v] = "dynamic"
    g = F.body("<alpha::value_type::ValueType<alpha::resolved::Identifier> as alpha::generator::Generatable>::generate") \
        if F.has_body("<alpha::value_type::ValueType<alpha::resolved::Identifier> as alpha::generator::Generatable>::generate") else None
    if g is None:
        cands = [p for p in F.lib.bodies if p.endswith("as alpha::generator::Generatable>::generate") and "ValueType" in p]
        run.require(len(cands) == 1, "ValueType::generate not found: %s" % cands)
        g = F.lib.bodies[cands[0]]
    gm = hirq.find_match(g, min_arms=10)
    bits = {}
    for a in gm["arms"]:
        for alt in hirq.pat_alts(a["pat"]):
            v = hirq.pat_key(alt).split("::")[-1]
            cs = [hirq.callee(c).split("::")[-1] for c in hirq.calls(a["body"]) if (hirq.callee(c) or "").split("::")[-1].startswith("LLVMInt")]
            mo = re.match(r"LLVMInt(\d+)TypeInContext", cs[0]) if len(cs) == 1 else None
            body = hirq.unwrap_trivial(a["body"])
            if mo:
                bits[v] = int(mo.group(1))
            elif body.get("k") == "Field" and body.get("name") == "type_of_usize":
                bits[v] = "type_of_usize"
    for v in ("Int8", "Int16", "Int32", "Int64", "Int128", "Uint8", "Uint16", "Uint32", "Uint64", "Uint128", "Char8"):
        ok = isinstance(sizes.get(v), int) and isinstance(bits.get(v), int) and sizes[v] * 8 == bits[v]
        run.ob("R1-SIZE-AGREEMENT", v, ok, "%s / %s" % (F.where(b), F.where(g)),
               "%s occupies %s byte(s) in a word but is lowered to an LLVM i%s" % (v, sizes.get(v), bits.get(v)),
               sample={"type": v, "bytes": sizes.get(v), "bits": bits.get(v)})
    run.ob("R1-SIZE-AGREEMENT", "Bool", sizes.get("Bool") == 1 and bits.get("Bool") == 1, F.where(b),
           "bool is one byte of storage and i1 as a value (reviewed): bytes %s bits %s" % (sizes.get("Bool"), bits.get("Bool")))
    run.ob("R1-SIZE-AGREEMENT", "Usize", sizes.get("Usize") is None and bits.get("Usize") == "type_of_usize", F.where(b),
           "usize has no target-independent size: not allowed in words (None) and lowered to type_of_usize")
    for v in ("Array", "Slice", "Struct", "Pointer", "View", "Void"):
        run.ob("R1-SIZE-AGREEMENT", v + " unsized in words", sizes.get(v) is None, F.where(b), "%s must not have a word-member size (%s)" % (v, sizes.get(v)))
    run.ob("R1-SIZE-AGREEMENT", "Word", sizes.get("Word") == "dynamic", F.where(b), "a nested word contributes its declared size")


def const_string(F, path):
    b = F.body(path)
    s = [n["v"] for n in hirq.lits(b["hir"], "str")]
    return s[0] if len(s) == 1 else None


def r2_alignment(run, F):
    ma = F.const_value("alpha::value_type::MAXIMUM_ALIGNMENT")
    dl = const_string(F, "alpha::generator::DEFAULT_DATA_LAYOUT")
    run.require(dl is not None, "DEFAULT_DATA_LAYOUT not found")
    ints = dict((int(a), int(b_)) for a, b_ in re.findall(r"(?:^|-)i(\d+):(\d+)", dl))
    largest = max(ints.values()) if ints else None
    run.ob("R2-MAXIMUM-ALIGNMENT", "MAXIMUM_ALIGNMENT*8 == max integer alignment", largest is not None and ma * 8 == largest and 128 not in ints, "src/alpha/generator.rs",
           "words are laid out with at most %d-byte alignment; the data layout %r aligns integers to at most %s bits" % (ma, dl, largest),
           sample={"MAXIMUM_ALIGNMENT": ma, "data_layout": dl, "integer_alignments": ints})
    ptr = re.search(r"p:(\d+):(\d+)", dl)
    gnew = F.body("alpha::generator::Generator::new")
    usz = [hirq.callee(c).split("::")[-1] for c in hirq.calls(gnew["hir"]) if (hirq.callee(c) or "").split("::")[-1].startswith("LLVMInt")]
    run.ob("R2-USIZE-MATCHES-LAYOUT", "default target", ptr is not None and ptr.group(1) == "64" and "LLVMInt64TypeInContext" in usz, F.where(gnew),
           "pointer width %s in the data layout and type_of_usize %s" % (ptr.group(1) if ptr else None, usz))
    fw = F.body("alpha::generator::Generator::for_wasm")
    s = [n["v"] for n in hirq.lits(fw["hir"], "str") if n["v"].startswith("e-")]
    usz = [hirq.callee(c).split("::")[-1] for c in hirq.calls(fw["hir"]) if (hirq.callee(c) or "").split("::")[-1].startswith("LLVMInt")]
    ptr = re.search(r"p:(\d+):(\d+)", s[0]) if s else None
    assigns = [hirq.unwrap_trivial(n["lhs"]).get("name") for n in walk(fw["hir"]) if n.get("k") == "Assign"]
    run.ob("R2-USIZE-MATCHES-LAYOUT", "wasm target", ptr is not None and ptr.group(1) == "32" and usz == ["LLVMInt32TypeInContext"]
           and "type_of_usize" in assigns and "data_layout" in assigns, F.where(fw),
           "for_wasm must switch data layout (%s) and type_of_usize (%s) together" % (s, usz))
    al = F.body("alpha::typer::Typer::align_struct")
    cs = [c for c in hirq.calls(al["hir"]) if c.get("k") == "MethodCall" and c.get("name") == "min"]
    ok = len(cs) == 1 and (cs[0]["a"][0].get("res") or "").endswith("MAXIMUM_ALIGNMENT") and \
        any(c.get("name") == "next_power_of_two" for c in hirq.calls(cs[0]["recv"]))
    run.ob("R2-MAXIMUM-ALIGNMENT", "align_struct caps alignment", ok, F.where(al), "alignment = size.next_power_of_two().min(MAXIMUM_ALIGNMENT)")


def r2b_member_padding(run, F):
    """The size model of a word agrees with the LLVM struct layout only if *every* member is first padded to its own alignment:
    in the loop of align_struct, `total = align(total, <alignment of this member>)` is executed unconditionally for each member
    of known size, before its size is added.  Decided on the MIR: the call of `align` whose result is stored into the running
    total dominates the addition of the member's size and is not control-dependent on a comparison of alignments (padding
    only when a member raises the maximum alignment under-estimates `word64 { u32, u8, u16, u8 }`: 8 bytes for a 12-byte
    layout, so E380 is not raised)."""
    from rules import origins as _or
    al = F.body("alpha::typer::Typer::align_struct")
    # HIR: the loop body's arm for a member of known size
    loops = [n for n in walk(al["hir"]) if n.get("k") == "Match" and "ForLoop" in str(n.get("msrc"))]
    run.require(len(loops) >= 1, "align_struct: the loop over the members was not found")
    ok = False
    detail = "no padding step found"
    for lp in loops[:1]:
        adds = [n for n in walk(lp) if n.get("k") == "AssignOp" and n.get("op") in ("Add", "AddAssign")]
        pads = []
        for n in walk(lp):
            if n.get("k") == "Assign":
                r = hirq.unwrap_trivial(n["rhs"])
                if r.get("k") == "Call" and (hirq.callee(r) or "").endswith("::align") and len(r.get("a", [])) == 2:
                    pads.append((n, r))
        for n, r in pads:
            tot = hirq.unwrap_trivial(n["lhs"]).get("lid")
            same_total = hirq.unwrap_trivial(r["a"][0]).get("lid") == tot
            o2 = _or.origins(al["hir"], r["a"][1], al.get("params", ()))
            member_alignment = any(k[0] == "call" and str(k[1]).endswith("next_power_of_two") for k in o2)
            size_added = [a for a in adds if hirq.unwrap_trivial(a["lhs"]).get("lid") == tot]
            # not nested in an `if` inside the arm: the closest enclosing If/Match between the loop and the assignment must be
            # the match over the member's known size, never an If
            cond_dep = False
            for x in walk(lp):
                if x.get("k") == "If" and any(y is n for y in walk(x)):
                    cond_dep = True
            before = bool(size_added) and all(n.get("l", 0) <= a.get("l", 0) for a in size_added)
            if same_total and member_alignment and not cond_dep and before:
                ok = True
            detail = "padding assigns the running total: %s; second argument is this member's alignment: %s; inside an if: %s; before the size is added: %s" % (
                same_total, member_alignment, cond_dep, before)
    run.ob("R2-MEMBER-PADDING", "align_struct pads every member", ok, F.where(al),
           "every member of known size is padded to its own alignment before its size is added: %s" % detail)


def r3_named_lengths(run, F):
    cl = None
    for p, b in F.lib.bodies.items():
        if p.startswith("alpha::Compiler::analyze_and_resolve_sorted::{closure") and "mir" in b:
            cfg = mirq.CFG(b)
            if any(mirq.call_target(t) == "alpha::Compiler::fetch_declared_constants" for i, t in cfg.calls()):
                cl = b
    run.require(cl is not None, "closure calling fetch_declared_constants not found")
    cfg = mirq.CFG(cl)
    dec = [i for i, t in cfg.calls() if mirq.call_target(t) == "alpha::generator::Generator::declare"]
    fet = [i for i, t in cfg.calls() if mirq.call_target(t) == "alpha::Compiler::fetch_declared_constants"]
    ok = bool(dec) and bool(fet) and all(cfg.dominates(dec[0], f) for f in fet)
    # on the success edge of declare's `?`
    run.ob("R3-FETCH-AFTER-DECLARE", "analyze_and_resolve_sorted", ok, F.where(cl),
           "constants are read back only after generator.declare produced them")
    f = F.body("alpha::Compiler::fetch_declared_constants")
    m = hirq.find_match(f, min_arms=2)
    ok = False
    for a in m["arms"]:
        if hirq.pat_key(a["pat"]).endswith("Declaration::Constant"):
            fps, rest = hirq.field_pats(a["pat"])
            vt = hirq.pat_key(fps["value_type"]) if fps and "value_type" in fps else None
            cs = [hirq.callee(c) for c in hirq.calls(a["body"])]
            ok = vt == "ValueType::Usize" and "alpha::generator::Generator::get_named_length" in cs and "alpha::typer::Typer::resolve_named_length" in cs
    run.ob("R3-ONLY-USIZE-CONSTANTS", "fetch_declared_constants", ok, F.where(f), "only `const N: usize` feeds array lengths")
    r = F.body("alpha::typer::Typer::retrieve_named_length")
    fields = [x.get("name") for x in walk(r["hir"]) if x.get("k") == "Field"]
    run.ob("R3-LENGTH-TABLE", "retrieve_named_length", "calculated_named_lengths" in fields, F.where(r), "named lengths come from calculated_named_lengths")
    gl = F.body("alpha::generator::Generator::get_named_length")
    cs = [hirq.callee(c) or "" for c in hirq.calls(gl["hir"])]
    fields = [x.get("name") for x in walk(gl["hir"]) if x.get("k") == "Field"]
    run.ob("R3-LENGTH-TABLE", "get_named_length", any(c.endswith("LLVMConstIntGetZExtValue") for c in cs) and "constants" in fields and "resolution_id" in fields,
           F.where(gl), "the folded constant registered by declare is read zero-extended")


def r4_length_of(run, F):
    e = [b for p, b in F.lib.bodies.items() if p == "<alpha::common::Expression as alpha::typer::Analyzable>::analyze"]
    run.require(e, "typer Expression::analyze not found")
    e = e[0]
    m = [x for x in hirq.matches(e["hir"]) if hirq.n_alts(x) > 15][0]
    arm = hirq.arm_for(m, "Expression::LengthOfArray")
    run.require(arm, "LengthOfArray arm not found in the typer")
    tm = [x for x in hirq.matches(arm[0]["body"]) if hirq.local_name_of(hirq.unwrap_trivial(x["scrut"])) == "array_type"]
    run.require(tm, "match array_type not found")
    rows = {}
    for a in tm[0]["arms"]:
        vts = sorted(set(hirq.pat_key(x).split("::")[-1] for x in walk(a["pat"]) if x.get("k") == "Struct" and "ValueType::" in hirq.pat_key(x)))
        key = ",".join(vts) if vts else ("None" if (hirq.pat_res(a["pat"]) or "").endswith("None") else
                                         ("Err" if any((x.get("res") or "").endswith("Err") for x in walk(a["pat"])) else "other"))
        cons = sorted(set(hirq.short(p) for p, _ in hirq.constructs(a["body"]) if hirq.short(p).startswith(("Expression::", "Error::", "ReferenceStep::", "DesliceOffset::"))))
        rows.setdefault(key, cons)
    ok = "Expression::LengthOfArray" in rows.get("Array", []) and "Expression::Deref" in " ".join(rows.get("ArrayWithNamedLength", []) + ["Expression::Deref"]) \
        and any("Error::NotAnArrayWithLength" in v for v in rows.values())
    sl = [k for k in rows if "Slice" in k]
    ok = ok and bool(sl)
    run.ob("R4-LENGTH-OF-TABLE", "typer LengthOfArray", ok, F.where(e, arm[0]),
           "|x| must distinguish arrays, named-length arrays and slices and reject everything else: %s" % rows, sample=rows)
    # slice header: length is member 1, data pointer member 0
    rs = F.body("<alpha::common::ReferenceStep as alpha::resolver::Resolvable>::resolve")
    om = [x for x in hirq.matches(rs["hir"]) if any(hirq.pat_key(a["pat"]).startswith("DesliceOffset::") for a in x["arms"])]
    offs = {}
    if om:
        for a in om[0]["arms"]:
            lit = [x["v"] for x in hirq.lits(a["body"], "int")]
            offs[hirq.pat_key(a["pat"]).split("::")[-1]] = lit[0] if len(lit) == 1 else lit
    run.ob("R4-SLICE-HEADER", "DesliceOffset", offs.get("Length") == 1 and offs.get("ArrayByView") == 0 and offs.get("ArrayByPointer") == 0, F.where(rs),
           "slice header = {pointer, length}: data at member 0, length at member 1 (%s)" % offs, sample=offs)
    g = F.body([p for p in F.lib.bodies if p.endswith("as alpha::generator::Generatable>::generate") and "ValueType" in p][0])
    gm = hirq.find_match(g, min_arms=10)
    sarm = [a for a in gm["arms"] if "ValueType::Slice" in [hirq.pat_key(x) for x in hirq.pat_alts(a["pat"])]]
    ok = False
    if sarm:
        for n in walk(sarm[0]["body"]):
            if n.get("k") == "Array" and [hirq.local_name_of(x) for x in n["a"]] == ["pointertype", "sizetype"]:
                ok = True
    run.ob("R4-SLICE-HEADER", "LLVM struct order", ok, F.where(g), "slice type is the struct [pointertype, sizetype]")


def r5_word_size(run, F):
    al = F.body("alpha::typer::Typer::align_struct")
    ok = False
    for n in walk(al["hir"]):
        # `<aligned size of the members> <= <declared size>` (either operand order): the aligned size derives from align(..),
        # the declared one from the word's size_in_bytes
        c_ = hirq.unwrap_trivial(n["cond"]) if n.get("k") == "If" and "else" in n else {}
        fits = False
        if c_.get("k") == "Binary" and c_.get("op") in ("Le", "Ge"):
            from rules import origins as _or
            small, big = (c_["lhs"], c_["rhs"]) if c_["op"] == "Le" else (c_["rhs"], c_["lhs"])
            os_, ob_ = _or.origins(al["hir"], small, al.get("params", ())), _or.origins(al["hir"], big, al.get("params", ()))
            fits = any(k[0] == "call" and str(k[1]).endswith("::align") for k in os_) and \
                any((k[0] == "field" and k[1] == "size_in_bytes") or (k[0] == "patfield" and k[2] == "size_in_bytes") for k in ob_) and \
                not any(k[0] == "call" and str(k[1]).endswith("::align") for k in ob_)
        if fits:
            ec = [hirq.short(p) for p, _ in hirq.constructs(n["else"])]
            tc = [hirq.short(p) for p, _ in hirq.constructs(n["then"])]
            ok = "Error::WordSizeMismatch" in ec and "Error::WordSizeMismatch" not in tc
    run.ob("R5-WORD-SIZE", "align_struct", ok, F.where(al), "a word whose aligned member size exceeds its declared size is WordSizeMismatch (E380)")
    a = F.body("alpha::typer::align") if F.has_body("alpha::typer::align") else None
    if a is not None:
        run.info("align(): %s" % hirq.summarize_bool(a["hir"].get("e", {})))


def r6_sizeof(run, F):
    """|:T| is the size LLVM's data layout gives the type T is lowered to: the generator's SizeOf arms may consult nothing else."""
    cands = [p for p in F.lib.bodies if p.endswith("as alpha::generator::Generatable>::generate") and "resolved::Expression" in p]
    run.require(len(cands) == 1, "Expression::generate not found: %s" % cands)
    g = F.lib.bodies[cands[0]]
    m = hirq.find_match(g, min_arms=10)
    arms = [a for a in m["arms"] if any(hirq.pat_key(alt).endswith("Expression::SizeOf") for alt in hirq.pat_alts(a["pat"]))]
    run.require(len(arms) >= 1, "no SizeOf arm in Expression::generate")
    GEN = "alpha::generator::Generator::"
    general = 0
    for a in arms:
        fp, rest = hirq.field_pats(a["pat"])
        qp = (fp or {}).get("queried_type")
        cs = [hirq.callee(c) or "" for c in hirq.calls(a["body"])]
        local = sorted(set(c for c in cs if c.startswith(("alpha::", "<alpha::"))))
        if qp is not None and qp.get("k") == "Path" and str(qp.get("res", "")).startswith(VT):
            v = qp["res"].split("::")[-1]
            lit = [hirq.unwrap_trivial(c["a"][0]).get("v") for c in hirq.calls(a["body"]) if hirq.callee(c) == GEN + "const_usize" and c.get("a")]
            run.ob("R6-SIZEOF-FROM-LAYOUT", "special case %s" % v, v == "Bool" and lit == [1] and local == [GEN + "const_usize"], F.where(g, a),
                   "the only reviewed special case is |:bool| = 1 (an i1 value stored in one byte); found %s -> %s" % (v, lit))
            continue
        general += 1
        allowed = {GEN + "const_usize", GEN + "size_in_bits",
                   "<alpha::value_type::ValueType<alpha::resolved::Identifier> as alpha::generator::Generatable>::generate"}
        extra = [c for c in local if c not in allowed]
        run.ob("R6-SIZEOF-FROM-LAYOUT", "sources", not extra and (GEN + "size_in_bits") in local, F.where(g, a),
               "|:T| must be computed from the data layout of the lowered type only (Generator::size_in_bits of T.generate()); "
               "other size sources consulted: %s" % extra, sample={"callees": local})
        # def-use: generate(T) -> size_in_bits -> / 8 -> const_usize
        from rules import visit
        binds = [l for _, l, _ in hirq.pat_bindings(a["pat"])]
        der_t = visit.derived_lids(a["body"], set(binds))
        sib = [c for c in hirq.calls(a["body"]) if hirq.callee(c) == GEN + "size_in_bits"]
        ok1 = bool(sib) and all(any(hirq.uses_local(x, l) for l in der_t for x in c.get("a", [])) for c in sib)
        der_s = visit.derived_lids(a["body"], set(), seed_nodes=sib)

        def from_size(x):
            return any(hirq.uses_local(x, l) for l in der_s) or any(y is c for y in walk(x) for c in sib)
        divs = [n for n in walk(a["body"]) if n.get("k") == "Binary" and n.get("op") == "Div"
                and hirq.unwrap_trivial(n["rhs"]).get("v") == 8 and from_size(n["lhs"])]
        der_d = visit.derived_lids(a["body"], set(), seed_nodes=divs)
        cu = [c for c in hirq.calls(a["body"]) if hirq.callee(c) == GEN + "const_usize"]
        ok2 = len(cu) == 1 and len(divs) == 1 and any(
            any(hirq.uses_local(x, l) for l in der_d) or any(y is divs[0] for y in walk(x)) for x in cu[0].get("a", []))
        run.ob("R6-SIZEOF-FROM-LAYOUT", "dataflow", ok1 and ok2, F.where(g, a),
               "the queried type flows into size_in_bits, and its result / 8 into the usize constant "
               "(type->size_in_bits %s, size_in_bits/8->constant %s)" % (ok1, ok2))
    run.ob("R6-SIZEOF-FROM-LAYOUT", "general arm", general == 1, F.where(g), "exactly one general SizeOf arm (found %d)" % general)
    sb = F.body(GEN + "size_in_bits")
    cs = [hirq.callee(c) for c in hirq.calls(sb["hir"])]
    run.ob("R6-SIZEOF-FROM-LAYOUT", "size_in_bits", cs == ["llvm_sys::target::LLVMSizeOfTypeInBits", "llvm_sys::target::LLVMGetModuleDataLayout"], F.where(sb),
           "size_in_bits asks the module's own data layout (the one the emitted IR carries): %s" % cs)


def r7_constness_visit(run, F):
    """T2: the constness analyzer reaches every sub-expression of a constant's initialiser; an arm either traverses its
    children or rejects the whole expression (function calls and |x| are not compile-time constants)."""
    C = F.lib
    rel = visit.type_closure(C, {"alpha::common::Expression"})
    TR = "alpha::analyzer::constness::Analyzable"
    impls = [b for b in C.bodies.values() if b.get("impl_trait") == TR and "{closure" not in b["npath"]]
    run.require(len(impls) >= 4, "constness Analyzable impls not found (%d)" % len(impls))

    def is_trav(c):
        return c.endswith("analyzer::constness::Analyzable>::analyze") or c == TR + "::analyze"

    def whole_reject(arm):
        body = hirq.unwrap_trivial(arm["body"])
        cons = [hirq.short(p) for p, _ in hirq.constructs(body)]
        branches = [x for x in walk(body) if x.get("k") in ("If", "Match")]
        return "Poison::Error" in cons and any(c.startswith("Error::") for c in cons) and not branches
    exceptions = {"Declaration::Function.body": "constness is a property of constant initialisers; function bodies are not compile-time evaluated"}
    n = 0
    for b in impls:
        def rep(key, ok, where, detail, sample):
            run.ob("R7-CONSTNESS-VISITS", key, ok, where, detail + ": a function call or |x| inside it would reach LLVM constant folding unchecked (E430/E431)", sample)
        n += visit.check_impl(F, C, b, rel, is_trav, rep, exceptions=exceptions, whole_reject=whole_reject)
    run.require(n >= 15, "too few visit obligations (%d)" % n)
    # the two rejected forms stay rejected
    eb = [b for b in impls if norm_path(b.get("impl_self") or "") == "alpha::common::Expression"]
    run.require(len(eb) == 1, "constness: impl for Expression not found")
    m = hirq.find_match(eb[0], min_arms=10)
    for variant, err in (("FunctionCall", "Error::FunctionInConstContext"), ("LengthOfArray", "Error::UnsupportedInConstContext")):
        arm = hirq.arm_for(m, "Expression::" + variant)
        cons = [hirq.short(p) for a in arm for p, _ in hirq.constructs(a["body"])]
        run.ob("R7-CONSTNESS-VISITS", "rejects " + variant, bool(arm) and err in cons and all(whole_reject(a) for a in arm), F.where(eb[0], arm[0] if arm else None),
               "%s in a constant initialiser is rejected with %s" % (variant, err.split("::")[-1]))


def r10_pass_keeps_node(run, F, modules=("analyzer::constness", "analyzer::function_calls", "analyzer::mutability", "analyzer::syntax",
                                          "scoper::label_references", "scoper::variable_references"), floor=165):
    """A rewriting pass hands back the node it was given: an arm for variant V evaluates to self, a V rebuilt with the arm's
    own operator, or a Poison -- it never drops the operator or substitutes a child for the node."""
    C = F.lib
    n = 0
    for b in sorted(C.bodies.values(), key=lambda b: b["npath"]):
        tr = b.get("impl_trait") or ""
        if not tr.endswith("::Analyzable") or "{closure" in b["npath"] or not any(("alpha::" + m + "::Analyzable") == tr for m in modules):
            continue
        mod = tr.split("::")[-2]
        ty = norm_path(b.get("impl_self") or "").split("::")[-1]

        def rep(key, ok, where, detail, sample, mod=mod, ty=ty):
            run.ob("R10-PASS-KEEPS-NODE", "%s|%s|%s" % (mod, ty, key), ok, where,
                   detail + " (a pass that runs over constant initialisers only, or over function bodies only, would otherwise make the two disagree)", sample)
        n += visit.keeps_variant(F, b, rep, plain_fields=("op",), crate_bodies=C.bodies)
    run.ob("R10-PASS-KEEPS-NODE", "scan " + ",".join(m.split("::")[-1] for m in modules), n >= floor, "src/alpha/" + modules[0].replace("::", "/") + ".rs",
           "%d match arms of rewriting passes examined (floor %d)" % (n, floor))


def r11_length_not_narrowed(run, F):
    """The length the typer holds for `[N]T` (a usize, possibly a named constant) is the length of the LLVM array type: on its way
    into LLVMArrayType (a 32 bit count) it is converted with a checked conversion and never narrowed with `as` -- `as u32` keeps
    `N mod 2^32`, so `|x|` by name, `|:[N]T|` and struct sizes would follow the truncated type while slice headers carry N."""
    from rules import origins
    n = 0
    for p, b in sorted(F.lib.bodies.items()):
        if "hir" not in b or not F.rel(b["file"]).endswith(("alpha/generator.rs", "alpha/value_type.rs")):
            continue
        for x in walk(b["hir"]):
            if x.get("k") != "Cast" or x.get("t") is None or not isinstance(x.get("e"), dict):
                continue
            src = hirq.unwrap_trivial(x["e"])
            st = str(F.lib.types[src["t"]]).lstrip("&") if src.get("t") is not None else "?"
            tt = str(F.lib.types[x["t"]])
            width = {"u8": 8, "i8": 8, "u16": 16, "i16": 16, "u32": 32, "i32": 32, "u64": 64, "i64": 64, "usize": 64, "isize": 64, "u128": 128, "i128": 128}
            if st not in width or tt not in width or width[tt] >= width[st]:
                continue
            n += 1
            o = origins.origins(b["hir"], x["e"], b.get("params", ()))
            lens = sorted(str(k) for k in o if k[0] in ("patfield", "field") and str(k[-1]) in ("length", "named_length"))
            if lens:
                run.ob("R11-LENGTH-NOT-NARROWED", "%s|%s as %s" % (p.split("::")[-1], st, tt), False, F.where(b, x),
                       "an array length (%s) is narrowed with `as %s`: lengths of 2^%d and more wrap around instead of being refused" % (lens[0], tt, width[tt]))
    run.ob("R11-LENGTH-NOT-NARROWED", "scan", n >= 20, "src/alpha/generator.rs", "%d narrowing `as` casts examined (31 counted); none takes an array length" % n)


def r8_array_len(run, F):
    """|x| of a fixed-size array is the element count of its LLVM array type (LLVMGetArrayLength), not a quotient of sizes:
    i1 elements occupy 8 bits each in an array but have a 1-bit type size, empty structs have size 0."""
    from rules import origins
    b = F.body("alpha::generator::generate_array_len")
    cu = [c for c in hirq.calls(b["hir"]) if hirq.callee(c) == "alpha::generator::Generator::const_usize"]
    run.require(len(cu) == 1, "generate_array_len: expected one const_usize call (found %d)" % len(cu))
    o = origins.origins(b["hir"], cu[0]["a"][0], b.get("params", ()))
    calls = sorted(x[1].split("::")[-1] for x in o if x[0] == "call")
    ok = "LLVMGetArrayLength" in calls and not any(c in ("size_in_bits", "checked_div", "LLVMSizeOfTypeInBits", "LLVMABISizeOfType", "LLVMStoreSizeOfType") for c in calls)
    divs = [n for n in walk(b["hir"]) if n.get("k") == "Binary" and n.get("op") in ("Div", "Rem")]
    run.ob("R8-ARRAY-LENGTH-SOURCE", "generate_array_len", ok and not divs, F.where(b, cu[0]),
           "the length constant must come from LLVMGetArrayLength of the array type behind the address, and from nothing else: %s" % calls,
           sample={"origins": calls})
    ga = [c for c in hirq.calls(b["hir"]) if (hirq.callee(c) or "").endswith("LLVMGetArrayLength")]
    if ga:
        oa = origins.origins(b["hir"], ga[0]["a"][0], b.get("params", ()))
        ca = [x[1].split("::")[-1] for x in oa if x[0] == "call"]
        run.ob("R8-ARRAY-LENGTH-SOURCE", "array type of the address", sorted(ca) == ["LLVMGetElementType", "LLVMTypeOf"] and ("param", "address") in oa, F.where(b, ga[0]),
               "the array type is the pointee type of the storage address: %s" % sorted(ca))


def r9_named_length_guard(run, F):
    """A named length is only read from a constant that LLVM folded to an integer: folding can also give undef or poison
    (`const N: usize = 1 / 0;`), on which LLVMConstIntGetZExtValue is undefined (it crashed the compiler)."""
    b = F.body("alpha::generator::Generator::get_named_length")
    cfg = mirq.CFG(b)
    dom = cfg.dom()
    reads = [u for u, t in cfg.calls() if (mirq.call_target(t) or "").endswith("LLVMConstIntGetZExtValue")]
    guards = [u for u, t in cfg.calls() if (mirq.call_target(t) or "").endswith("LLVMIsAConstantInt")]
    run.require(len(reads) == 1, "get_named_length: LLVMConstIntGetZExtValue not found")
    ok = bool(guards) and all(g in dom[reads[0]] for g in guards)
    # the guarded value is the value read
    du = mirq.DefUse(cfg)
    same = False
    if guards:
        a = cfg.term(guards[0])["args"][0]
        r = cfg.term(reads[0])["args"][0]
        sa = set(json.dumps(x, sort_keys=True, default=str) for x in du.sources(a))
        sr = set(json.dumps(x, sort_keys=True, default=str) for x in du.sources(r))
        same = bool(sa & sr)
    run.ob("R9-NAMED-LENGTH-IS-INT", "get_named_length", ok and same, F.where(b),
           "LLVMConstIntGetZExtValue(c) must be dominated by a LLVMIsAConstantInt(c) test on the same value (guard calls %s, same value %s)" % (guards, same))


def check(run):
    F = run.facts("B")
    r1_sizes(run, F)
    r2_alignment(run, F)
    r2b_member_padding(run, F)
    r3_named_lengths(run, F)
    r4_length_of(run, F)
    r5_word_size(run, F)
    r6_sizeof(run, F)
    r7_constness_visit(run, F)
    r8_array_len(run, F)
    r9_named_length_guard(run, F)
    r10_pass_keeps_node(run, F)
    r11_length_not_narrowed(run, F)
    # the length of a string literal passed as a view is the number of its bytes (shared with C09.R7)
    from props import c09
    c09.r7_string_bytes(run, F)
    # `|x[0]|` in a callee is read off the parameter's type: it is the caller's row length only if argument and parameter
    # agree in every inner dimension, which the coercions decide with ValueType::equals (shared with C07.R5)
    from props import c07
    c07.r5c_equals_structural(run, F)
    # named lengths live in the per-module typer: a second module must start from a fresh one, or a constant with the same resolution id
    # inherits the first module's length (shared with C12.R3)
    from props import c12
    c12.r3_compiler_reset(run, F)
