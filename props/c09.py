"""C09 -- literals mean exactly what they say."""
import re

from rules import hirq, mirq, lexq, visit
from rules.core import walk, norm_path, AnchorMissing
from props import c14

LEVEL = "other"
EXPLANATION = (
    "Static analysis of the literal pipeline (cfg B: alpha with generator; delta lexer shared with C14). Decided: "
    "R1 suffix and escape tables of the first-generation lexer equal the documented sets; R2 overflow-safe accumulation: "
    "the first generation converts digit strings with u128::from_str_radix / str::parse and maps their Err to E140, the "
    "second generation uses checked_mul + checked_add and conditions E140 on the overflow flag; R3 the parser's "
    "signed/bit split, char literal typing and unary-minus folding tables; R4 min_i128 / max_u128 rows equal the Rust "
    "limits of the corresponding primitive; R5 visitor completeness of the linter: every field that can contain an "
    "Expression reaches a lint() call, and the truncation lint is raised exactly under `value < min` / `value > max`; "
    "R6 constant materialisation: range split of signed literals at i64::MIN..=-1 / 0..=u64::MAX / 128-bit path, the "
    "128-bit splitter masks with u64::MAX and shifts by 64, and no bit-literal arm masks the value below the maximum of "
    "its type. Not decided: the run-time value of every literal in every program."
    " ADDED LATER: R1-ESCAPE-STATE-FRESH: a buffer whose length decides when an escape is complete is created inside the arm that decodes it; R2-NO-NARROWING-CAST: no 128-bit literal value is narrowed with `as`; R3 also: -2^127 (decimal or suffixed) folds into i128::MIN; R7 the bytes of a string literal reach the generator's byte-preserving consumers only."
    " ROUNDS 5-6: R9-RADIX-NEEDS-DIGIT: both radix arms of the first-generation scanner push their letter into the suffix when no digit follows (E141)."
    " ROUND 8: R10-FORMAT-SPLICE: is_snprintf_safe folded over all 256 bytes is false for `%`, every append of non-literal bytes to the snprintf template is guarded by all(is_snprintf_safe), and add_specifier is only handed literals that start with `%`."
    " ROUND 9: R1-UNICODE-ESCAPE-UTF8: what the `u` arm of the escape decoder appends to the literal's bytes comes out of char::encode_utf8.")

REF_ESC = {110, 114, 116, 92, 39, 34, 48, 120, 117}
REF_SUFFIXES = c14.REF_SUFFIXES
LIMITS = {"Int8": "i8", "Int16": "i16", "Int32": "i32", "Int64": "i64", "Int128": "i128",
          "Uint8": "u8", "Uint16": "u16", "Uint32": "u32", "Uint64": "u64", "Uint128": "u128",
          "Usize": "u64", "Char8": "u8", "Pointer": "u64", "View": "u64"}
PRIM_MAX = {"i8": 2 ** 7 - 1, "i16": 2 ** 15 - 1, "i32": 2 ** 31 - 1, "i64": 2 ** 63 - 1, "i128": 2 ** 127 - 1,
            "u8": 2 ** 8 - 1, "u16": 2 ** 16 - 1, "u32": 2 ** 32 - 1, "u64": 2 ** 64 - 1, "u128": 2 ** 128 - 1}


def r1_tables(run, F):
    A = lexq.LexTables(F, "alpha")
    sa = lexq.suffix_table(F, "alpha")
    run.ob("R1-SUFFIX-TABLE", "alpha", sa == REF_SUFFIXES, F.where(A.body), "suffix table must be the 11 integer types: %s" % sa)
    esc = A.escape_tables()
    for q in (34, 39):
        got = set(esc.get(q, {}))
        run.ob("R1-ESCAPE-SET", "alpha %s" % ("string" if q == 34 else "char"), got == REF_ESC, F.where(A.body),
               "escapes accepted inside %s: %s; documented: %s" % (chr(q), sorted(map(chr, got)), sorted(map(chr, REF_ESC))))
        simple = {110: 10, 114: 13, 116: 9, 92: 92, 39: 39, 34: 34, 48: 0}
        for c, v in simple.items():
            run.ob("R1-ESCAPE-VALUE", "alpha %s \\%s" % ("string" if q == 34 else "char", chr(c)), esc[q].get(c) == v, F.where(A.body),
                   "\\%s must denote byte %d, found %s" % (chr(c), v, esc[q].get(c)))
    return A


def r1c_unicode_escape_utf8(run, F, A):
    """`\\u{..}` inside a literal denotes the UTF-8 encoding of the code point, for every code point: whatever the `u` arm of the
    escape decoder appends to the literal's bytes comes out of `char::encode_utf8`.  (A "single byte" shortcut through
    `u8::try_from(char)` is right for ASCII and wrong for U+0080..U+00FF, which take two bytes.)"""
    from rules import origins
    b = A.body
    n = 0
    for q, arm in sorted(A.quote_arms.items()):
        ms = [m for m in hirq.matches(arm["body"]) if lexq.is_next(m["scrut"])]
        for m in ms:
            for a in m["arms"]:
                if lexq.char_lits(a["pat"]) != [117]:
                    continue
                apps = [c for c in hirq.calls(a["body"]) if c.get("k") == "MethodCall" and c.get("name") in ("push", "extend_from_slice", "extend", "append", "insert", "extend_from_within")
                        and "Vec<u8>" in str(F.lib.ty(hirq.unwrap_trivial(c["recv"]).get("t"))).replace("std::vec::", "").replace("alloc::vec::", "")]
                for c in apps:
                    n += 1
                    o = origins.origins(b["hir"], c["a"][-1], b.get("params", ()))
                    ok = any(k[0] == "call" and str(k[1]).endswith("encode_utf8") for k in o)
                    run.ob("R1-UNICODE-ESCAPE-UTF8", "alpha %s|append %d" % ("string" if q == 34 else "char", n), ok, F.where(b, c),
                           "the bytes appended for a \\u{..} escape are the output of char::encode_utf8 (origins: %s)" % sorted(str(k[1]).split("::")[-1] for k in o if k[0] == "call")[:8])
    run.ob("R1-UNICODE-ESCAPE-UTF8", "scan", n >= 1, F.where(b), "%d append(s) to the literal's bytes in the `u` escape arm(s)" % n)


def r1b_escape_state(run, F, A):
    """Each escape sequence is decoded from its own characters: a buffer whose *length* decides when an escape is complete
    (`digits.len() == 2` for \\xHH, the hex text of \\u{..}) is created inside the arm that decodes that escape.  Hoisted
    to the literal it keeps the digits of the previous escape: the second \\x of a literal contributes no byte."""
    b = A.body
    found = 0
    for m in hirq.matches(b["hir"]):
        arms = []
        for a in m["arms"]:
            lits = [x.get("v") for x in walk(a["pat"]) if x.get("k") == "Lit" and x.get("lk") == "char"]
            if 120 in lits or 117 in lits:     # 'x', 'u'
                arms.append((a, lits))
        if len(arms) < 2:
            continue
        for a, lits in arms:
            name = "\\x" if 120 in lits else "\\u"
            tested = {}
            for n in walk(a["body"]):
                if n.get("k") == "Binary" and n.get("op") in ("Eq", "Lt", "Le", "Ge", "Gt", "Ne"):
                    for side in (n["lhs"], n["rhs"]):
                        u = hirq.unwrap_trivial(side)
                        if u.get("k") == "MethodCall" and u.get("name") == "len":
                            r = hirq.unwrap_trivial(u["recv"])
                            if r.get("k") == "Path" and r.get("rk") == "Local":
                                tested[r["lid"]] = r.get("res")
            declared = set()
            for n in walk(a["body"]):
                if n.get("k") == "Let":
                    for nm, lid, _ in hirq.pat_bindings(n["pat"]):
                        declared.add(lid)
            for lid, nm in tested.items():
                found += 1
                run.ob("R1-ESCAPE-STATE-FRESH", "alpha %s|%s" % (name, nm), lid in declared, F.where(b, a),
                       "`%s` decides by its length when a %s escape is complete; it must be created inside the arm that decodes the escape "
                       "(declared there: %s)" % (nm, name, lid in declared))
    run.require(found >= 1, "alpha lexer: length-tested escape buffers not found")


NARROW = {"usize", "u64", "u32", "u16", "u8", "i64", "i32", "i16", "i8", "isize"}


def r2b_no_narrowing(run, F):
    """A literal's value (the u128 payload of its token) is never narrowed with `as` on its way into the tree: `*x as usize`
    for an array length turned `[18446744073709551617]u8` into an array of length 1 without a diagnostic."""
    n = 0
    for p, b in F.lib.bodies.items():
        if "hir" not in b or F.rel(b["file"]) not in ("src/alpha/parser.rs", "src/alpha/lexer.rs"):
            continue
        for x in walk(b["hir"]):
            if x.get("k") == "Cast" and isinstance(x.get("e"), dict):
                src = hirq.unwrap_trivial(x["e"])
                st = F.lib.types[src["t"]] if src.get("t") is not None else "?"
                tt = F.lib.types[x["t"]] if x.get("t") is not None else "?"
                if st.lstrip("&") in ("u128", "i128"):
                    n += 1
                    run.ob("R2-NO-NARROWING-CAST", "%s|%s as %s" % (b["npath"].split("::")[-1], st, tt), tt not in NARROW, F.where(b, x),
                           "a 128-bit literal value is converted with `as %s`: values beyond that type are silently truncated (use try_from and report E140)" % tt)
    run.ob("R2-NO-NARROWING-CAST", "scan", n >= 1, "src/alpha/parser.rs", "%d casts from 128-bit values in lexer/parser" % n)


def r2_accumulation(run, F, A):
    # alpha: library conversions, Err -> InvalidIntegerLength
    for armname, radixes in (("0", [16, 2]), ("1-9", [])):
        arm = A.digit_arms.get(armname)
        run.require(arm is not None, "digit arm %s not found in alpha lexer" % armname)
        cs = [c for c in hirq.calls(arm["body"])]
        conv = [c for c in cs if (hirq.callee(c) or "") in ("core::num::from_str_radix", "core::str::parse")]
        if armname == "0":
            rad = sorted(x["v"] for c in conv for x in hirq.lits(c["a"][1] if len(c["a"]) > 1 else {}, "int"))
            ok = rad == [2, 16] and all(F.lib.types[c["t"]].startswith("std::result::Result<u128") for c in conv)
            run.ob("R2-LIBRARY-CONVERSION", "alpha '0' arm", ok, F.where(A.body, arm),
                   "0x / 0b digits must be converted with u128::from_str_radix(.., 16|2): radixes %s" % rad)
        else:
            ok = len(conv) == 1 and "u128" in F.lib.types[conv[0]["t"]]
            run.ob("R2-LIBRARY-CONVERSION", "alpha '1-9' arm", ok, F.where(A.body, arm),
                   "decimal digits must be converted with str::parse::<u128>()")
        errs = [hirq.short(p) for p, _ in hirq.constructs(arm["body"]) if hirq.short(p).startswith("Error::")]
        run.ob("R2-E140", "alpha '%s' arm" % armname, "Error::InvalidIntegerLength" in errs, F.where(A.body, arm),
               "a conversion failure must be reported as InvalidIntegerLength (E140); errors built: %s" % sorted(set(errs)))
        # no manual arithmetic on u128 in the first generation
        for node in walk(arm["body"]):
            if node.get("k") in ("AssignOp", "Binary") and node.get("op") in ("Add", "AddAssign", "Mul", "MulAssign") and \
                    "t" in node.get("lhs", {}) and F.lib.types[node["lhs"]["t"]] == "u128":
                run.ob("R2-CHECKED-ACCUMULATION", "alpha %s arm %s" % (armname, node["op"]), False, F.where(A.body, node),
                       "unchecked u128 arithmetic in literal lexing")
    D = lexq.LexTables(F, "delta")
    c14.r5_accumulate(run, F, D)


def _i128max_cmp(node):
    """is `local <= i128::MAX as u128`?"""
    n = hirq.unwrap_trivial(node)
    if n.get("k") == "Binary" and n.get("op") == "Le":
        r = n["rhs"]
        if r.get("k") == "Cast" and "impl i128>::MAX" in (r["e"].get("res") or ""):
            return hirq.local_name_of(n["lhs"])
    return None


def r3_parser(run, F):
    b = F.body("alpha::parser::parse_primary_expression")
    ms_ = hirq.matches_on_type(F.lib, b["hir"], "lexer::Token", 9)
    run.require(len(ms_) >= 1, "the match over the current token was not found in parse_primary_expression")
    m = max(ms_, key=hirq.n_alts)
    rows = []
    for a in m["arms"]:
        tk = hirq.pat_key(a["pat"]).split("::")[-1]
        if tk not in ("NakedDecimal", "BitInteger", "SuffixedInteger", "CharLiteral", "Bool"):
            continue
        cons = sorted(set(hirq.short(p).split("::")[-1] for p, _ in hirq.constructs(a["body"])
                          if hirq.short(p).startswith("Expression::")))
        guard = _i128max_cmp(a["guard"]) if "guard" in a else None
        rows.append((tk, "guard" in a, guard, cons, a))
    want = {
        ("NakedDecimal", True): (["SignedIntegerLiteral"], "value"),
        ("NakedDecimal", False): (["BitIntegerLiteral"], None),
        ("BitInteger", False): (["BitIntegerLiteral"], None),
        ("CharLiteral", False): (["BitIntegerLiteral"], None),
        ("Bool", False): (["BooleanLiteral"], None),
    }
    seen = set()
    for tk, hasg, guard, cons, a in rows:
        if tk == "SuffixedInteger":
            # if suffix_type.is_signed() && value <= i128::MAX -> Signed else Bit
            ifs = [n for n in walk(a["body"]) if n.get("k") == "If"]
            ok = False
            if len(ifs) == 1 and "else" in ifs[0]:
                c = hirq.unwrap_trivial(ifs[0]["cond"])
                if c.get("k") == "Binary" and c.get("op") == "And":
                    lc = [hirq.callee(x) for x in hirq.calls(c["lhs"])]
                    ok = any((x or "").endswith("ValueType::is_signed") for x in lc) and _i128max_cmp(c["rhs"]) == "value"
                tc = [hirq.short(p).split("::")[-1] for p, _ in hirq.constructs(ifs[0]["then"]) if hirq.short(p).startswith("Expression::")]
                ec = [hirq.short(p).split("::")[-1] for p, _ in hirq.constructs(ifs[0]["else"]) if hirq.short(p).startswith("Expression::")]
                ok = ok and tc == ["SignedIntegerLiteral"] and ec == ["BitIntegerLiteral"]
            run.ob("R3-LITERAL-SPLIT", "SuffixedInteger", ok, F.where(b, a),
                   "a suffixed integer is a SignedIntegerLiteral iff its suffix is signed and the value fits i128, else a BitIntegerLiteral")
            seen.add(tk)
            continue
        w = want.get((tk, hasg))
        ok = w is not None and cons == w[0] and (w[1] is None or guard == w[1])
        run.ob("R3-LITERAL-SPLIT", "%s%s" % (tk, " if value <= i128::MAX" if hasg else ""), ok, F.where(b, a),
               "token %s %s builds %s (guard on %s)" % (tk, "with guard" if hasg else "", cons, guard))
        seen.add(tk)
    run.require(seen >= {"NakedDecimal", "BitInteger", "SuffixedInteger", "CharLiteral", "Bool"}, "literal arms missing: %s" % seen)
    # char literal typed Char8
    for tk, hasg, guard, cons, a in rows:
        if tk == "CharLiteral":
            vt = [hirq.short(p) for p, _ in hirq.constructs(a["body"]) if hirq.short(p).startswith("ValueType::")]
            run.ob("R3-CHAR-TYPE", "CharLiteral", vt == ["ValueType::Char8"], F.where(b, a), "a character literal has type char8: %s" % vt)
    # order of the two NakedDecimal arms: guarded first
    nd = [r for r in rows if r[0] == "NakedDecimal"]
    run.ob("R3-LITERAL-SPLIT", "NakedDecimal arm order", len(nd) == 2 and nd[0][1] and not nd[1][1], F.where(b), "guarded arm must come first")
    # unary minus folding
    u = F.body("alpha::parser::parse_unary_expression")
    mus = hirq.matches_on_type(F.lib, u["hir"], "common::Expression", 2)
    run.require(len(mus) >= 1, "the match over the parsed operand was not found in parse_unary_expression")
    mu = mus[0]
    uenv = hirq.full_env(u)

    def is_value_of(e, arm):
        """e is the binding of the literal's `value` field in this arm's pattern (whatever it is called)"""
        e = hirq.unwrap_trivial(e)
        fp, _ = hirq.field_pats(hirq.pat_alts(arm["pat"])[0])
        vb = [lid for _, lid, _ in hirq.pat_bindings(fp["value"])] if fp and "value" in fp else []
        return e.get("k") == "Path" and e.get("lid") in vb
    fold = [a for a in mu["arms"] if hirq.pat_key(a["pat"]) == "Expression::SignedIntegerLiteral"]
    ok = False
    if len(fold) == 1 and "guard" in fold[0]:
        g = hirq.unwrap_trivial(fold[0]["guard"])
        if g.get("k") == "Binary" and g.get("op") == "Gt" and is_value_of(g["lhs"], fold[0]) and g["rhs"].get("v") == 0:
            negs = [n for n in walk(fold[0]["body"]) if n.get("k") == "Unary" and n.get("op") == "Neg" and is_value_of(n["e"], fold[0])]
            cons = [hirq.short(p) for p, _ in hirq.constructs(fold[0]["body"]) if hirq.short(p).startswith("Expression::")]
            ok = len(negs) == 1 and cons == ["Expression::SignedIntegerLiteral"]
    run.ob("R3-MINUS-FOLDING", "SignedIntegerLiteral if value > 0", ok, F.where(u, mu),
           "-LITERAL folds into a negative SignedIntegerLiteral only for signed literals with value > 0")
    # -2^127 is i128::MIN: its magnitude is not a signed literal, so it needs its own fold (else the linter sees 2^127: false L1142)
    okm = False
    for a in mu["arms"]:
        if hirq.pat_key(a["pat"]) != "Expression::BitIntegerLiteral" or "guard" not in a:
            continue
        eqs = [n for n in walk(a["guard"]) if n.get("k") == "Binary" and n.get("op") == "Eq" and is_value_of(n["lhs"], a)]
        is_2_127 = False
        for n in eqs:
            r = hirq.unwrap_trivial(n["rhs"])
            if r.get("k") == "Binary" and r.get("op") == "Shl" and hirq.unwrap_trivial(r["lhs"]).get("v") == 1 and hirq.unwrap_trivial(r["rhs"]).get("v") == 127:
                is_2_127 = True
            if r.get("k") == "Lit" and r.get("v") == 1 << 127:
                is_2_127 = True
        cons = [hirq.short(p) for p, _ in hirq.constructs(a["body"]) if hirq.short(p).startswith("Expression::")]
        mins = [n for n in walk(a["body"]) if n.get("k") == "Path" and str(n.get("res", "")).endswith("<impl i128>::MIN")]
        signed_only = any((hirq.callee(c) or "").endswith("ValueType::is_signed") for c in hirq.calls(a["guard"]))
        okm = okm or (is_2_127 and cons == ["Expression::SignedIntegerLiteral"] and bool(mins) and signed_only)
    run.ob("R3-MINUS-FOLDING", "-2^127 is i128::MIN", okm, F.where(u, mu),
           "the negation of a literal of magnitude 2^127 (signed or untyped) folds into SignedIntegerLiteral(i128::MIN); left as Unary(Negative) of a "
           "bit literal the in-range value i128::MIN raises L1142")
    other = [a for a in mu["arms"] if hirq.is_catchall(a["pat"])]
    ok2 = len(other) == 1 and "UnaryOp::Negative" in [hirq.short(p) for p, _ in hirq.constructs(other[0]["body"])]
    run.ob("R3-MINUS-FOLDING", "otherwise Unary Negative", ok2, F.where(u, mu), "everything else becomes Unary{Negative}")


def _prim_limit(prim, which):
    bits = {"i8": 8, "i16": 16, "i32": 32, "i64": 64, "i128": 128, "u8": 8, "u16": 16, "u32": 32, "u64": 64, "u128": 128}.get(prim)
    if bits is None:
        return None
    if prim.startswith("i"):
        return -(1 << (bits - 1)) if which == "MIN" else (1 << (bits - 1)) - 1
    return 0 if which == "MIN" else (1 << bits) - 1


def _limit_value(body):
    """Numeric value of `<T>::MIN as i128`, `<T>::MAX`, or an integer literal; (value, text)."""
    body = hirq.unwrap_trivial(body)
    if body.get("k") == "Cast":
        body = hirq.unwrap_trivial(body["e"])
    if body.get("k") == "Lit" and isinstance(body.get("v"), int):
        return body["v"], str(body["v"])
    mo = re.search(r"impl (\w+)>::(MIN|MAX)", body.get("res") or "")
    if mo:
        return _prim_limit(mo.group(1), mo.group(2)), "%s::%s" % (mo.group(1), mo.group(2))
    return None, "?"


def r4_limits(run, F):
    """The value table of min_i128 / max_u128, row by row: the value each integer-like variant gets (from its own arm or from
    the default arm) equals the limit of the reviewed primitive type; the shape of the match is free."""
    for fn, kind in (("alpha::value_type::ValueType::min_i128", "MIN"), ("alpha::value_type::ValueType::max_u128", "MAX")):
        b = F.body(fn)
        m = hirq.find_match(b, min_arms=2)
        rows = {}
        default = None
        for a in m["arms"]:
            for alt in hirq.pat_alts(a["pat"]):
                if hirq.is_catchall(alt):
                    default = a
                    continue
                rows.setdefault(hirq.pat_key(alt).split("::")[-1], a)
        run.require(default is not None or set(LIMITS) <= set(rows), "%s: neither a default arm nor a row per integer type" % fn)
        if default is not None:
            v, txt = _limit_value(default["body"])
            run.ob("R4-LIMITS", "%s|_" % kind, v == 0, F.where(b, default), "non-integer types have limit 0 (found %s)" % txt)
        for vn in sorted(LIMITS):
            a = rows.get(vn, default)
            v, txt = _limit_value(a["body"])
            want = _prim_limit(LIMITS[vn], kind)
            run.ob("R4-LIMITS", "%s|%s" % (kind, vn), v == want, F.where(b, a),
                   "%s of %s must be %s::%s = %s, found %s%s" % (kind.lower(), vn, LIMITS[vn], kind, want, txt, "" if vn in rows else " (default arm)"),
                   sample={"variant": vn, "found": txt})
        extra = sorted(set(rows) - set(LIMITS))
        for vn in extra:
            v, txt = _limit_value(rows[vn]["body"])
            run.ob("R4-LIMITS", "%s|%s" % (kind, vn), v == 0, F.where(b, rows[vn]), "%s is not an integer-like type; its limit must be 0, found %s" % (vn, txt))


def r5_linter(run, F):
    C = F.lib
    rel = visit.type_closure(C, {"alpha::common::Expression"})
    impls = [b for b in C.bodies.values() if b.get("impl_trait") == "alpha::linter::Lintable"]
    run.require(len(impls) >= 7, "Lintable impls not found")

    def is_trav(c):
        return c.endswith("Lintable>::lint") or c == "alpha::linter::Lintable::lint"
    n = 0
    for b in impls:
        def rep(key, ok, where, detail, sample, b=b):
            run.ob("R5-LINT-VISITS", key, ok, where,
                   detail + ": a literal inside it is never checked for truncation (no L1142)", sample)
        n += visit.check_impl(F, C, b, rel, is_trav, rep)
    run.require(n >= 25, "too few visit obligations (%d)" % n)
    # emission conditions
    e = F.body("<alpha::common::Expression as alpha::linter::Lintable>::lint")
    m = None
    for mm in hirq.matches(e["hir"]):
        if hirq.n_alts(mm) > 10:
            m = mm
    run.require(m is not None, "match self not found in Expression::lint")
    for a in m["arms"]:
        vn = hirq.pat_key(a["pat"]).split("::")[-1]
        cons = [hirq.short(p) for p, _ in hirq.constructs(a["body"])]
        if "Error::IntegerLiteralTruncation" not in cons:
            continue
        cmps = []
        for n_ in walk(a["body"]):
            if n_.get("k") == "Binary" and n_.get("op") in ("Lt", "Gt", "Le", "Ge"):
                rc = [hirq.callee(c) for c in hirq.calls(n_["rhs"])]
                lim = "min" if any((c or "").endswith("min_i128") for c in rc) else "max" if any((c or "").endswith("max_u128") for c in rc) else \
                    ("zero" if n_["rhs"].get("v") == 0 else "?")
                cmps.append((n_["op"], lim))
        if vn == "SignedIntegerLiteral":
            ok = sorted(cmps) == sorted([("Lt", "zero"), ("Lt", "min"), ("Gt", "max")])
        else:
            ok = cmps == [("Gt", "max")]
        run.ob("R5-LINT-CONDITION", vn, ok, F.where(e, a),
               "truncation lint must fire exactly when value < min_i128() (negative) or value > max_u128(): comparisons %s" % cmps,
               sample={"variant": vn, "comparisons": cmps})
    run.floor("R5-LINT-CONDITION", 2)


def r6_generator(run, F):
    g = F.body("<alpha::resolved::Expression as alpha::generator::Generatable>::generate")
    MIN = F.const_value("<alpha::resolved::Expression as alpha::generator::Generatable>::generate::MIN")
    MAX = F.const_value("<alpha::resolved::Expression as alpha::generator::Generatable>::generate::MAX")
    run.ob("R6-RANGES", "MIN=i64::MIN", MIN == -2 ** 63, F.where(g), "sign-extended range must start at i64::MIN (%s)" % MIN)
    run.ob("R6-RANGES", "MAX=u64::MAX", MAX == 2 ** 64 - 1, F.where(g), "zero-extended range must end at u64::MAX (%s)" % MAX)
    top = [x for x in hirq.matches(g["hir"]) if hirq.n_alts(x) > 12]
    run.require(top, "main match of Expression::generate not found")
    sarm = hirq.arm_for(top[0], "Expression::SignedIntegerLiteral")
    run.require(sarm, "SignedIntegerLiteral arm not found in the generator")
    mm = None
    genv = hirq.full_env(g)
    for m in hirq.matches(sarm[0]["body"]):
        if hirq.canon_of(m["scrut"], genv) == "self.value":
            mm = m
    if mm is None:
        run.ob("R6-RANGES", "signed-literal arms", False, F.where(g, sarm[0]),
               "the SignedIntegerLiteral arm no longer distinguishes MIN..=-1 (sign-extended), 0..=MAX (zero-extended) and the 128-bit path")
        return
    keys = []
    for a in mm["arms"]:
        p = hirq.strip_ref(a["pat"])
        if p.get("k") == "Range":
            lo = p["lo"].get("v", p["lo"].get("res", "").split("::")[-1])
            hi = p["hi"].get("v", p["hi"].get("res", "").split("::")[-1])
            signed = [x["v"] for x in hirq.lits(a["body"], "int")]
            calls = [hirq.callee(c) or "" for c in hirq.calls(a["body"])]
            keys.append((lo, hi, signed, any(c.endswith("LLVMConstInt") for c in calls)))
        else:
            calls = [hirq.callee(c) or "" for c in hirq.calls(a["body"])]
            keys.append(("rest", any(c.endswith("const_128_bit_integer") for c in calls)))
    ok = keys == [("MIN", -1, [1], True), (0, "MAX", [0], True), ("rest", True)]
    run.ob("R6-RANGES", "signed-literal arms", ok, F.where(g, mm),
           "MIN..=-1 -> LLVMConstInt(sign_extend=1); 0..=MAX -> LLVMConstInt(sign_extend=0); else 128-bit path: %s" % keys, sample=keys)
    # 128-bit splitter
    c = F.body("alpha::generator::Generator::const_128_bit_integer")
    shifts = [n for n in walk(c["hir"]) if n.get("k") == "Binary" and n.get("op") == "Shr"]
    ands = [n for n in walk(c["hir"]) if n.get("k") == "Binary" and n.get("op") == "BitAnd"]
    mask_ok = any("impl u64>::MAX" in (x.get("res") or "") for x in walk(c["hir"]))
    ok = len(shifts) == 1 and shifts[0]["rhs"].get("v") == 64 and len(ands) == 2 and mask_ok
    lits = [x["v"] for x in hirq.lits(c["hir"], "int")]
    run.ob("R6-SPLIT-128", "const_128_bit_integer", ok and 2 in lits, F.where(c),
           "128-bit constants are split into two u64 words: low = v & u64::MAX, high = (v >> 64) & u64::MAX, passed with count 2")
    # bit literal arms: no mask narrower than the type's maximum
    bm = None
    for m in hirq.matches(g["hir"]):
        if hirq.local_name_of(hirq.unwrap_trivial(m["scrut"])) == "value_type" and any(
                hirq.pat_key(x) in ("ValueType::Usize",) for a in m["arms"] for x in hirq.pat_alts(a["pat"])):
            bm = m
    run.require(bm is not None, "match value_type not found in BitIntegerLiteral arm")
    for a in bm["arms"]:
        tys = [hirq.pat_key(x).split("::")[-1] for x in hirq.pat_alts(a["pat"])]
        for n_ in walk(a["body"]):
            if n_.get("k") == "Binary" and n_.get("op") == "BitAnd" and n_["rhs"].get("k") == "Lit":
                mask = n_["rhs"]["v"]
                for t in tys:
                    need = PRIM_MAX.get(LIMITS.get(t, ""), None)
                    if need is None:
                        continue
                    run.ob("R6-NO-NARROW-MASK", "BitIntegerLiteral|%s" % t, mask >= need, F.where(g, n_),
                           "a bit literal of type %s is masked with %#x although the type holds values up to %#x and the "
                           "truncation lint uses that maximum: larger literals are silently altered" % (t, mask, need),
                           sample={"type": t, "mask": hex(mask), "type_max": hex(need)})


VERBATIM_CONSUMERS = {
    "alpha::generator::generate_inplace_string_literal", "alpha::generator::generate_global_string_literal", "alpha::generator::generate_array_slice",
    "alpha::generator::generate_ext_array_view", "std::vec::Vec::len", "core::slice::len", "std::ops::Try::branch", "std::ops::FromResidual::from_residual",
    "<std::vec::Vec<T, A> as std::iter::Extend<&'a T>>::extend", "<std::vec::Vec<T, A> as std::ops::Deref>::deref", "std::prelude::v1::Ok",
}


def r7_string_bytes(run, F):
    """A string literal is a sequence of bytes (\\xHH escapes are raw bytes): the generator must materialise exactly those
    bytes and take exactly their count as the length.  Any re-encoding on the way (from_utf8_lossy, to_string, chars)
    changes both for bytes that are not valid UTF-8."""
    n = 0
    for p, b in F.lib.bodies.items():
        if "hir" not in b or not F.rel(b["file"]).endswith("alpha/generator.rs"):
            continue
        for m in hirq.matches(b["hir"]):
            for a in m["arms"]:
                for alt in hirq.pat_alts(a["pat"]):
                    if not (hirq.pat_res(alt) or "").endswith("Expression::StringLiteral"):
                        continue
                    binds = [l for nm, l, t in hirq.pat_bindings(alt) if nm == "bytes"]
                    if not binds:
                        continue
                    der = visit.derived_lids(a["body"], set(binds))
                    used = set()
                    for c in hirq.calls(a["body"]):
                        if any(hirq.uses_local(i, l) for l in der for i in visit.call_inputs(c)):
                            used.add(hirq.callee(c) or hirq.callee_decl(c) or c.get("name"))
                    n += 1
                    extra = sorted(u for u in used if u not in VERBATIM_CONSUMERS)
                    run.ob("R7-STRING-BYTES-VERBATIM", "%s|line %s" % (b["npath"].split("::")[-1].split(">")[0], "" if len(used) else "-"), not extra, F.where(b, a),
                           "the bytes of a string literal flow into %s; not reviewed as byte-preserving: %s" % (sorted(x.split("::")[-1] for x in used), extra))
    run.require(n >= 3, "generator: StringLiteral arms not found (%d)" % n)


def r8_printed_nul(run, F):
    """`\\0` in a printed string: text that is not snprintf-safe (is_snprintf_safe says so for `%` and NUL) is inserted through
    the `%.*s` specifier, whose precision is a maximum -- snprintf stops at the first NUL, so the rest of the literal is lost."""
    safe = F.body("alpha::generator::is_snprintf_safe")
    m = hirq.find_match(safe, min_arms=2)
    nul_unsafe = False
    for a in m["arms"]:
        lits = [x.get("v") for x in walk(a["pat"]) if x.get("k") == "Lit"]
        body = hirq.unwrap_trivial(a["body"])
        if 0 in lits and body.get("k") == "Lit" and body.get("v") is False:
            nul_unsafe = True
    fb = [b for p, b in F.lib.bodies.items() if p.endswith("FormatBuffer::add_user_text") or p.endswith("{FormatBuffer}::add_user_text")]
    run.require(len(fb) == 1, "FormatBuffer::add_user_text not found")
    specs = [hirq.unwrap_trivial(c["a"][0]).get("v") for c in hirq.calls(fb[0]["hir"]) if (hirq.callee(c) or "").endswith("add_specifier") and c.get("a")]
    run.ob("R8-PRINTED-NUL", "text with NUL", not (nul_unsafe and specs == ["%.*s"]), F.where(fb[0]),
           "NUL bytes are routed to the fallback (is_snprintf_safe(0) = false: %s) and the fallback prints with %s: everything after a `\\0` in a "
           "printed string is dropped" % (nul_unsafe, specs))


def r10_format_splice(run, F):
    """A string literal prints as its own bytes only if it never becomes part of a C format string with a `%` in it.  Every place
    of the generator that appends user bytes to FormatBuffer.format (`format.extend(..)` / `format.push(..)` of bytes that
    derive from a literal or from the function's text parameter) must be guarded by `bytes.iter().all(is_snprintf_safe)`
    (or sit behind the assert of the same), and is_snprintf_safe, folded over all 256 bytes, must be false for `%`."""
    from rules import bytefn
    safe = F.body("alpha::generator::is_snprintf_safe")
    t = bytefn.table(safe)
    run.ob("R10-FORMAT-SPLICE", "is_snprintf_safe('%')", t[37] is False, F.where(safe), "`%%` must not be snprintf-safe (it would be read as a conversion)")
    n = 0
    # add_specifier is the one place that appends a conversion on purpose: its argument is always a literal conversion
    spec_fns = [p for p in F.lib.bodies if p.endswith("::add_specifier")]
    run.require(len(spec_fns) == 1, "FormatBuffer::add_specifier not found")
    for p, b in sorted(F.lib.bodies.items()):
        if "hir" not in b or not F.rel(b["file"]).endswith("alpha/generator.rs"):
            continue
        for c in hirq.calls(b["hir"]):
            if (hirq.callee(c) or "") == spec_fns[0]:
                a = hirq.unwrap_trivial(c["a"][0]) if c.get("a") else {}
                run.ob("R10-FORMAT-SPLICE", "add_specifier(%r)" % (a.get("v"),), a.get("k") == "Lit" and str(a.get("v", "")).startswith("%"), F.where(b, c),
                       "add_specifier is called with a literal conversion specification only")
    for p, b in sorted(F.lib.bodies.items()):
        if "hir" not in b or not F.rel(b["file"]).endswith("alpha/generator.rs") or p == spec_fns[0]:
            continue

        def visit(node, guarded):
            nonlocal n
            if isinstance(node, list):
                for x in node:
                    visit(x, guarded)
                return
            if not isinstance(node, dict):
                return
            k = node.get("k")

            def has_guard(e):
                return any((hirq.callee(c) or "").endswith("::is_snprintf_safe") or
                           any(x.get("k") == "Path" and str(x.get("res", "")).endswith("::is_snprintf_safe") for x in walk(c)) for c in hirq.calls(e))
            if k == "Match":
                visit(node["scrut"], guarded)
                for a in node["arms"]:
                    g2 = guarded or ("guard" in a and has_guard(a["guard"]))
                    visit(a["body"], g2)
                return
            if k == "If":
                visit(node["cond"], guarded)
                visit(node["then"], guarded or has_guard(node["cond"]))
                if node.get("else") is not None:
                    visit(node["else"], guarded)
                return
            if k == "Block":
                g2 = guarded
                for st in node.get("stmts", []):
                    visit(st, g2)
                    # an assert!(bytes.iter().all(is_snprintf_safe)) guards what follows it in the block
                    if any(hirq.panic_kind(c) == "assert" for c in hirq.calls(st)) and has_guard(st):
                        g2 = True
                    for x in walk(st):
                        if x.get("k") == "If" and has_guard(x.get("cond", {})) and any(y.get("k") == "Ret" for y in walk(x.get("else") or {})):
                            g2 = True
                if node.get("e") is not None:
                    visit(node["e"], g2)
                return
            if k == "MethodCall" and node.get("name") in ("extend", "extend_from_slice", "push") and \
                    hirq.unwrap_trivial(node["recv"]).get("k") == "Field" and hirq.unwrap_trivial(node["recv"]).get("name") == "format":
                arg = node["a"][0] if node.get("a") else {}
                lit_only = all(x.get("k") in ("Lit", "AddrOf", "Index", "Struct", "Array", "Call", "MethodCall", "Path", "Cast", "DropTemps") for x in walk(arg)) and \
                    not any(x.get("k") == "Path" and x.get("rk") == "Local" for x in walk(arg))
                if not lit_only:
                    n += 1
                    run.ob("R10-FORMAT-SPLICE", "%s|format.%s" % (p.split("::")[-1], node["name"]), guarded, F.where(b, node),
                           "user bytes are appended to the snprintf format string only under `all(is_snprintf_safe)`: a `%%` in a string "
                           "literal would otherwise be interpreted by snprintf")
            for key, v in node.items():
                if isinstance(v, (dict, list)):
                    visit(v, guarded)
        visit(b["hir"], False)
    run.floor("R10-FORMAT-SPLICE", 3, "is_snprintf_safe('%') and the places that append user bytes to the format string")


def r9_radix_needs_digit(run, F, A):
    """`0x` / `0b` followed by no digit is not a literal: the first-generation lexer says so by pushing the radix letter into
    the suffix, which then fails the suffix table (E141).  For every `match u128::from_str_radix(&literal, R)` of the scanner:
    the arm that handles the empty digit string pushes the radix letter of *this* radix into `suffix` (the two radix arms are
    siblings and must agree), and no other arm turns a conversion error into a value."""
    RADIX_LETTER = {16: 120, 2: 98}
    b = A.body
    n = 0
    # the suffix accumulator, by role: the local whose address is handed to parse_integer_suffix
    suffix_lids = set()
    for c in hirq.calls(b["hir"]):
        if (hirq.callee(c) or "").endswith("::parse_integer_suffix"):
            for x in walk(c["a"][0]):
                if x.get("k") == "Path" and x.get("rk") == "Local":
                    suffix_lids.add(x.get("lid"))
    run.require(len(suffix_lids) >= 1, "the argument of parse_integer_suffix is not a local")
    for m in hirq.matches(b["hir"]):
        sc = hirq.unwrap_trivial(m["scrut"])
        if sc.get("k") != "Call" or not (hirq.callee(sc) or "").endswith("::from_str_radix") or len(sc.get("a", [])) != 2:
            continue
        radix = hirq.unwrap_trivial(sc["a"][1]).get("v")
        if radix not in RADIX_LETTER:
            continue
        n += 1
        empty_arms = [a for a in m["arms"] if "guard" in a and any(x.get("k") == "MethodCall" and x.get("name") == "is_empty" for x in walk(a["guard"]))]
        pushed = []
        for a in empty_arms:
            for x in walk(a["body"]):
                if x.get("k") == "MethodCall" and x.get("name") == "push" and hirq.unwrap_trivial(x["recv"]).get("lid") in suffix_lids:
                    pushed.append(hirq.unwrap_trivial(x["a"][0]).get("v"))
        lenient = []
        for a in m["arms"]:
            key = hirq.pat_key(hirq.pat_alts(a["pat"])[0])
            if key.endswith("Err") and a not in empty_arms:
                if any(hirq.short(p).endswith("Ok") for p, _ in hirq.constructs(a["body"])):
                    lenient.append(a)
        ok = len(empty_arms) == 1 and pushed in ([RADIX_LETTER[radix]], [chr(RADIX_LETTER[radix])]) and not lenient
        run.ob("R9-RADIX-NEEDS-DIGIT", "radix %d" % radix, ok, F.where(b, m),
               "radix-%d literal without a digit: the empty-digits arm must push %r into the suffix so that the suffix table rejects it (E141); "
               "pushed %s, empty-digits arms %d, error arms that still produce a value %d" % (radix, chr(RADIX_LETTER[radix]), pushed, len(empty_arms), len(lenient)))
    run.floor("R9-RADIX-NEEDS-DIGIT", 2, "from_str_radix matches for radix 16 and 2 in the first-generation scanner")


def check(run):
    F = run.facts("B")
    A = r1_tables(run, F)
    r9_radix_needs_digit(run, F, A)
    r1b_escape_state(run, F, A)
    r1c_unicode_escape_utf8(run, F, A)
    r2_accumulation(run, F, A)
    r2b_no_narrowing(run, F)
    r3_parser(run, F)
    r4_limits(run, F)
    r5_linter(run, F)
    r6_generator(run, F)
    r7_string_bytes(run, F)
    r8_printed_nul(run, F)
    r10_format_splice(run, F)
