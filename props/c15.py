"""C15 -- the second-generation front end is total and memory-safe on any bytes.

Decides structural clauses (see DESIGN.md §4 C15); not the behaviour on inputs.
"""
import json

from rules import hirq, mirq, balance, inventory
from rules.core import walk, norm_path, AnchorMissing

LEVEL = "other"
EXPLANATION = (
    "Static analysis of the delta front end (cfg A facts: HIR+MIR of the penne lib and bin). "
    "Decided: R1 unsafe inventory + capacity guards dominating set_len/assume_init_mut; R2 only push/push_token "
    "advance the initialised-prefix counters; R4 node budget: interprocedural path-balance proof that every path of "
    "parse_declaration pushes at most K nodes per token taken, with K read from ParseTree::empty's capacity "
    "expression (so ParseBuffer::push's capacity panic is dead); R5 resource-limit constants and the E102/E103 "
    "mapping; R6 every declaration attempt takes >= 1 token (min-balance), so the declaration loop bound holds; "
    "R7 panic inventory (explicit panics, MIR asserts, panicking std calls) over the call-graph closure of the entry "
    "set against a reviewed table; R8 recursion cycles without depth guard (known findings); R10 ARGS-COVERED for "
    "Tokens::consume and parse_word_declaration; R11 no take() result match accepts EndOfSource; R12 pipeline "
    "protocol (parse only after errors()==None, header/xml only after parse errors()==None). "
    "Not decided: acceptance of all well-formed modules, stack bytes, behaviour for concrete inputs."
    " ADDED LATER: R5-CONST also: C + K*MAX_NUM_TOKENS <= MAX_NUM_NODES (node ids are 24 bits); R11-ONE-TAKE-PAST-END: on the MIR of every parser function, from a take() every path to another consuming call passes a switch edge that excludes EndOfSource."
    " ROUNDS 5-6: R13-ASSERTED-CAPACITY: a vector whose pushes assert len < capacity is pre-allocated with the caller's bound, unreduced; C14.R7 digit tables shared (which bytes a literal swallows). Panic-site keys no longer contain the asserted expression text."
    " ROUND 7: R6-LOOP-STARTS-AT-STARTER: inside the declaration loop the position of the next declaration is always a find_next(starts_declaration) result, on every branch (the loop bound counts such iterations)."
    " ROUND 8: R14-ALLOC-FAILURE-PROPAGATED: none of the 225 fallible calls (Result<_, TokenAllocError | ParsingError | LexingError>) of the second-generation lexer and parser has its result thrown away; R11-TWO-MARKERS also covers Tokens::empty_with_one_error (the stream for E101/E102/E103 ends in two EndOfSource in all three parallel arrays)."
    " ROUND 9: R15-COUNTER-BOUNDED-IN-LOOP: each u8 counter incremented once per iteration of a loop over input tokens (two `depth`, one `address_depth`) is compared with its limit inside that loop."
    " ROUND 10: R5-E103 'push_integer_payload bounded by MAX_NUM_PAYLOADS': the payload vector has a soft capacity and grows; its E103 bound is the constant, not the capacity.")

PT = "delta::parser::parse_tree::"
TOK = "delta::parser::tokens::Tokens::"
LT = "delta::lexer::tokens::"
PUSH = PT + "ParseBuffer::push"
TAKE = TOK + "take"
CONSUME = TOK + "consume"
CONSUME_OPT = TOK + "consume_optional"

ENTRIES = [
    "delta::lexer::lex", "delta::parser::parse", LT + "Tokens::errors",
    PT + "ParseTree::errors", PT + "ParseTree::build_header",
    PT + "parse_tree_xml::{ParseTree}::as_xml", LT + "Tokens::as_xml",
    "<delta::parser::tokens::TokensWithReservation<'a, 'b> as std::ops::Drop>::drop",
]

# R1: reviewed unsafe sites in src/delta: function -> callees allowed inside its unsafe blocks
UNSAFE_REVIEWED = {
    LT + "Tokens::set_tokens_len": {"std::vec::Vec::set_len"},
    "delta::lexer::lex_source_into_tokens": {LT + "Tokens::set_tokens_len", LT + "TokensBuffer::into_num_initialized_tokens"},
    PT + "ParseTree::set_nodes_len": {"std::vec::Vec::set_len"},
    PT + "ParseBuffer::patch_list_item": {"std::mem::MaybeUninit::assume_init_mut"},
    PT + "ParseBuffer::patch_start_of_private_zone": {"std::mem::MaybeUninit::assume_init_mut"},
    PT + "ParseTree::build_header_nodes": {"std::vec::Vec::set_len"},
    "delta::parser::parse": {PT + "ParseBuffer::into_num_initialized_nodes", PT + "ParseTree::set_nodes_len"},
}
UNSAFE_FNS_REVIEWED = {LT + "Tokens::set_tokens_len", PT + "ParseTree::set_nodes_len"}


def delta_bodies(F):
    return [b for b in F.lib.bodies.values() if F.rel(b["file"]).startswith("src/delta")]


def r1_unsafe(run, F):
    n_blocks = 0
    for b in delta_bodies(F):
        fn = b["npath"]
        if b.get("unsafe"):
            run.ob("R1-UNSAFE-FN", fn, fn in UNSAFE_FNS_REVIEWED, F.where(b),
                   "unsafe fn in src/delta must be one of the reviewed length setters")
        if "hir" not in b:
            continue
        for n in walk(b["hir"]):
            if n.get("k") == "Block" and n.get("unsafe") == "UserProvided":
                n_blocks += 1
                cs = set(c for c in (hirq.callee(x) for x in hirq.calls(n)) if c)
                allowed = UNSAFE_REVIEWED.get(fn)
                ok = allowed is not None and cs <= allowed
                run.ob("R1-UNSAFE-BLOCK", "%s|%s" % (fn, ",".join(sorted(cs))), ok, F.where(b, n),
                       "unsafe block calling %s; reviewed for this function: %s" % (sorted(cs), sorted(allowed or [])),
                       sample={"fn": fn, "callees": sorted(cs)})
    run.require(n_blocks >= 7, "expected >= 7 user unsafe blocks in src/delta, found %d" % n_blocks)
    # who may call the raw length setters / assume_init_mut anywhere in the crate
    who = {
        "std::vec::Vec::set_len": {LT + "Tokens::set_tokens_len", PT + "ParseTree::set_nodes_len", PT + "ParseTree::build_header_nodes"},
        "std::mem::MaybeUninit::assume_init_mut": {PT + "ParseBuffer::patch_list_item", PT + "ParseBuffer::patch_start_of_private_zone"},
        "std::mem::MaybeUninit::assume_init": set(), "std::mem::MaybeUninit::assume_init_ref": set(),
        "std::mem::MaybeUninit::assume_init_read": set(), "std::mem::transmute": set(),
        "std::slice::from_raw_parts": set(), "std::slice::from_raw_parts_mut": set(),
        "std::str::from_utf8_unchecked": set(), "std::hint::unreachable_unchecked": set(),
        "core::slice::get_unchecked": set(), "core::slice::get_unchecked_mut": set(),
        LT + "Tokens::set_tokens_len": {"delta::lexer::lex_source_into_tokens"},
        PT + "ParseTree::set_nodes_len": {"delta::parser::parse"},
    }
    for b in F.lib.bodies.values():
        if "mir" not in b or not F.rel(b["file"]).startswith("src/delta"):
            continue
        cfg = mirq.CFG(b)
        for i, t in cfg.calls():
            c = mirq.call_target(t)
            if c in who:
                run.ob("R1-WHO-CALLS", "%s|%s" % (c, b["npath"]), b["npath"] in who[c], F.where(b, t),
                       "%s may only be called from %s" % (c, sorted(who[c])))
    run.floor("R1-WHO-CALLS", 9)

    # guards: set_len dominated by `n <= capacity` (or capacity == len assert), assume_init_mut by `i < num_nodes`
    def guarded(fn, callee_suffix, pred, what):
        b = F.body(fn)
        cfg = mirq.CFG(b)
        du = mirq.DefUse(cfg)
        gs = mirq.guards(cfg, du)
        sites = [i for i, t in cfg.calls() if (mirq.call_target(t) or "").endswith(callee_suffix)]
        run.require(sites, "no call to %s in %s" % (callee_suffix, fn))
        for i in sites:
            ok = False
            for g in gs:
                if pred(g) and cfg.dominates(g["true"], i) and g["true"] != g["false"]:
                    ok = True
            run.ob("R1-GUARD", "%s|%s" % (fn, callee_suffix), ok, F.where(b, cfg.term(i)),
                   "%s must be dominated by the success edge of %s" % (callee_suffix, what),
                   sample={"fn": fn, "guards_seen": [(g["op"], str(g["a"])[:80], str(g["b"])[:80]) for g in gs][:6]})

    def le_capacity(g):
        return g["op"] in ("Le", "Lt") and mirq.src_is_arg(g["a"]) and mirq.src_is_call_to(g["b"], "Vec::capacity")

    guarded(LT + "Tokens::set_tokens_len", "Vec::set_len", le_capacity, "`num_tokens <= self.tokens.capacity()`")
    guarded(PT + "ParseTree::set_nodes_len", "Vec::set_len", le_capacity, "`num_nodes <= self.nodes.capacity()`")

    def lt_num_nodes(g):
        return g["op"] == "Lt" and mirq.src_is_field(g["b"], "num_nodes")

    guarded(PT + "ParseBuffer::patch_list_item", "MaybeUninit::assume_init_mut", lt_num_nodes, "`i < self.num_nodes`")
    guarded(PT + "ParseBuffer::patch_start_of_private_zone", "MaybeUninit::assume_init_mut", lt_num_nodes, "`i < self.num_nodes`")

    # build_header_nodes: set_len(num_public_nodes) where every write goes through a bounds-checked index
    b = F.body(PT + "ParseTree::build_header_nodes")
    cl = F.body(PT + "ParseTree::build_header_nodes::{closure#0}")
    cfg = mirq.CFG(cl)
    has_bc = any(cfg.term(i)["k"] == "Assert" and cfg.term(i)["ak"] == "BoundsCheck" for i in cfg.reach)
    writes = [t for i, t in cfg.calls() if (mirq.call_target(t) or "").endswith("MaybeUninit::write")]
    run.ob("R1-GUARD", PT + "ParseTree::build_header_nodes|bounds-checked-write", has_bc and len(writes) == 1,
           F.where(cl), "the push closure writes buffer[num_public_nodes] through a bounds-checked index before counting it")


def r2_counters(run, F):
    """num_nodes / num_tokens are written only by push / push_token (+= 1 after the writes) and initialised to 0."""
    spec = {
        ("num_nodes", "delta::parser::parse_tree::ParseBuffer"): {PUSH},
        ("num_tokens", "delta::lexer::tokens::TokensBuffer"): {LT + "TokensBuffer::push_token"},
    }
    found = 0
    for b in delta_bodies(F):
        if "mir" not in b:
            continue
        cfg = mirq.CFG(b)
        for i in sorted(cfg.reach):
            for s in cfg.blocks[i]["s"]:
                fp = mirq.field_proj(s["d"])
                if fp and (fp[-1][0], norm_path(fp[-1][1])) in spec:
                    key = (fp[-1][0], norm_path(fp[-1][1]))
                    found += 1
                    run.ob("R2-WHO-WRITES", "%s|%s" % (key[0], b["npath"]), b["npath"] in spec[key], F.where(b, s.get("l")),
                           "field %s.%s may only be written in %s" % (key[1], key[0], sorted(spec[key])))
                # aggregate construction with explicit counter value must be 0
                r = s["r"]
                if r.get("k") == "Agg" and norm_path(r.get("adt", "")) in (x[1] for x in spec):
                    fields = r.get("fields", [])
                    for fname, op in zip(fields, r.get("ops", [])):
                        if fname in ("num_nodes", "num_tokens"):
                            run.ob("R2-INIT-ZERO", "%s|%s" % (fname, b["npath"]), mirq.op_const(op) == 0,
                                   F.where(b, s.get("l")), "%s must start at 0" % fname)
    run.require(found >= 2, "counter writes not found")
    # order in push: MaybeUninit::write call(s) dominate the counter increment
    for fn, field, nwrites in ((PUSH, "num_nodes", 1), (LT + "TokensBuffer::push_token", "num_tokens", 3)):
        b = F.body(fn)
        cfg = mirq.CFG(b)
        wblocks = [i for i, t in cfg.calls() if (mirq.call_target(t) or "").endswith("MaybeUninit::write")]
        incs = []
        for i in sorted(cfg.reach):
            for s in cfg.blocks[i]["s"]:
                fp = mirq.field_proj(s["d"])
                if fp and fp[-1][0] == field:
                    incs.append(i)
        ok = len(wblocks) == nwrites and incs and all(all(cfg.dominates(w, i) for w in wblocks) for i in incs)
        run.ob("R2-WRITE-BEFORE-COUNT", fn, ok, F.where(b),
               "%d MaybeUninit::write call(s) must dominate `%s += 1`" % (nwrites, field))
        # bound check dominates the writes
        gs = mirq.guards(cfg)
        okb = False
        for g in gs:
            op_, a_ = g["op"], g["a"]
            if not mirq.src_is_field(a_, field) and mirq.src_is_field(g["b"], field):
                # `len <= i` / `len > i`: the same test with the operands the other way round
                op_, a_ = {"Le": "Ge", "Gt": "Lt", "Lt": "Gt", "Ge": "Le"}.get(op_, op_), g["b"]
            if op_ in ("Ge", "Lt") and mirq.src_is_field(a_, field):
                safe = g["false"] if op_ == "Ge" else g["true"]
                if all(cfg.dominates(safe, w) for w in wblocks):
                    okb = True
        run.ob("R2-BOUND-BEFORE-WRITE", fn, okb, F.where(b),
               "`if i >= buffer.len()` must guard the writes at index i")


def r5_limits(run, F):
    msl = F.const_value(LT + "MAX_SOURCE_LEN")
    mnt = F.const_value(LT + "MAX_NUM_TOKENS")
    mnp = F.const_value(LT + "MAX_NUM_PAYLOADS")
    run.ob("R5-CONST", "MAX_SOURCE_LEN<2^32", msl < 2 ** 32 - 4, "src/delta/lexer/tokens.rs",
           "MAX_SOURCE_LEN=%d must leave u32 positions (+2) without overflow" % msl, sample={"MAX_SOURCE_LEN": msl})
    run.ob("R5-CONST", "MAX_NUM_TOKENS<=2^24", mnt <= 2 ** 24, "src/delta/lexer/tokens.rs",
           "MAX_NUM_TOKENS=%d must fit the 24-bit token ids of parse nodes" % mnt)
    run.ob("R5-CONST", "MAX_NUM_PAYLOADS<=2^24", mnp <= 2 ** 24, "src/delta/lexer/tokens.rs",
           "payload ids are stored in 24 bits (value_type | id << 8)")
    # node ids are U24 as well: the largest node buffer (C + K * tokens, read from ParseTree::empty) must stay addressable
    K, C = capacity_multiplier(run, F)
    mnn = F.const_value("delta::parser::parse_node::MAX_NUM_NODES")
    run.ob("R5-CONST", "C + K*MAX_NUM_TOKENS <= MAX_NUM_NODES", C + K * mnt <= mnn, "src/delta/lexer/tokens.rs / src/delta/parser/parse_node.rs",
           "the node buffer can hold %d + %d * %d = %d nodes but node ids are addressed below MAX_NUM_NODES = %d: beyond that U24::new "
           "asserts in debug builds and wraps in release builds (node references then point at unrelated nodes)" % (C, K, mnt, C + K * mnt, mnn),
           sample={"K": K, "C": C, "MAX_NUM_TOKENS": mnt, "MAX_NUM_NODES": mnn})
    # lex(): the length comparison guards lex_source_into_tokens and maps to TooManySourceBytes
    b = F.body("delta::lexer::lex")
    cfg = mirq.CFG(b)
    gs = mirq.guards(cfg)
    callb = [i for i, t in cfg.calls() if mirq.call_target(t) == "delta::lexer::lex_source_into_tokens"]
    run.require(callb, "lex() no longer calls lex_source_into_tokens")
    ok = False
    for g in gs:
        if g["op"] in ("Gt", "Ge") and any(k == "const" and (x == msl or str(x).endswith("MAX_SOURCE_LEN")) for k, x in g["b"]):
            if all(cfg.dominates(g["false"], c) for c in callb):
                ok = True
    run.ob("R5-E102", "delta::lexer::lex", ok, F.where(b),
           "`source.len() > MAX_SOURCE_LEN` must guard lexing (E102 instead of u32 overflow)")
    # the failing edge constructs TooManySourceBytes; alloc error -> TooManyTokens
    cons = [hirq.short(p) for p, _ in hirq.constructs(b["hir"])]
    run.ob("R5-E102", "delta::lexer::lex|TooManySourceBytes", "Error::TooManySourceBytes" in cons, F.where(b),
           "lex() must report LexingError::TooManySourceBytes")
    b2 = F.body("delta::lexer::lex_source_into_tokens")
    cons2 = [hirq.short(p) for p, _ in hirq.constructs(b2["hir"])]
    run.ob("R5-E103", "delta::lexer::lex_source_into_tokens|TooManyTokens", "Error::TooManyTokens" in cons2, F.where(b2),
           "TokenAllocError must be reported as LexingError::TooManyTokens")
    # the payload vector is the one buffer with a *soft* capacity (max(len / 64, 1024), it grows): its E103 bound is the constant
    # MAX_NUM_PAYLOADS, not the vector's capacity -- bounded by the capacity, a well-formed module with 1024 literals is rejected
    pp = F.body(LT + "TokensBuffer::push_integer_payload")
    pcfg = mirq.CFG(pp)
    pg = [g for g in mirq.guards(pcfg) if g["op"] in ("Gt", "Ge", "Lt", "Le", "Eq")]
    by_const = [g for g in pg if any(k == "const" and (x == mnp or str(x).endswith("MAX_NUM_PAYLOADS")) for side in ("a", "b") for k, x in g[side])]
    by_cap = [g for g in pg if any(k == "call" and str(x).endswith("capacity") for side in ("a", "b") for k, x in g[side])]
    run.ob("R5-E103", "push_integer_payload|bounded by MAX_NUM_PAYLOADS", len(by_const) >= 1 and not by_cap, F.where(pp),
           "the number of payloads is compared with MAX_NUM_PAYLOADS (%d comparison(s)) and not with the capacity of the growable payload vector (%d)" % (len(by_const), len(by_cap)))
    # codes of those two
    code = F.body("alpha::lexer::Error::code") if F.has_body("alpha::lexer::Error::code") else None
    if code is not None:
        m = hirq.find_match(code, min_arms=5)
        rows = {k: v for k, g, v in hirq.table(m, lambda a: next(iter([x.get("v") for x in hirq.lits(a["body"], "int")]), None))}
        run.ob("R5-CODES", "TooManySourceBytes=102", rows.get("Error::TooManySourceBytes") == 102, F.where(code), "E102")
        run.ob("R5-CODES", "TooManyTokens=103", rows.get("Error::TooManyTokens") == 103, F.where(code), "E103")
    # the three SoA vectors share one capacity expression
    e = F.body(LT + "Tokens::empty")
    caps = []
    for n in walk(e["hir"]):
        if n.get("k") == "Let" and n.get("init", {}).get("k") == "Call" and \
                (hirq.callee(n["init"]) or "").endswith("Vec::with_capacity"):
            arg = n["init"]["a"][0]
            caps.append((n["pat"].get("lid"), hirq.unwrap_trivial(arg).get("lid")))
    # which field of the Tokens value each of these vectors initialises
    field_of = {}
    for pth, node in hirq.constructs(e["hir"]):
        if node.get("k") == "Struct" and pth.endswith("Tokens"):
            for f in node["fields"]:
                fe = hirq.unwrap_trivial(f["e"])
                if fe.get("k") == "Path" and fe.get("rk") == "Local":
                    field_of[fe.get("lid")] = f["name"]
    soa = {field_of.get(lid): arg for lid, arg in caps if field_of.get(lid) in ("tokens", "token_vaps", "token_locations")}
    run.ob("R5-SOA-CAPACITY", LT + "Tokens::empty", len(soa) == 3 and len(set(soa.values())) == 1 and None not in soa.values(),
           F.where(e), "tokens/token_vaps/token_locations must be allocated with the same capacity local", sample=soa)


def capacity_multiplier(run, F):
    e = F.body(PT + "ParseTree::empty")
    K = None
    C = None
    for n in walk(e["hir"]):
        if n.get("k") == "Binary" and n.get("op") == "Add":
            l, r = n["lhs"], n["rhs"]
            if l.get("k") == "Path" and (l.get("res") or "").endswith("MAX_PARSE_NODE_CONTEXT") \
                    and r.get("k") == "Binary" and r.get("op") == "Mul":
                a, b = r["lhs"], r["rhs"]
                lit = a if a.get("k") == "Lit" else b if b.get("k") == "Lit" else None
                other = b if lit is a else a
                if lit is not None and other.get("k") == "MethodCall" and other.get("name") == "len":
                    K = lit["v"]
                    C = F.const_value(PT + "MAX_PARSE_NODE_CONTEXT")
    if K is None:
        raise AnchorMissing("capacity expression `MAX_PARSE_NODE_CONTEXT + K * tokens.len()` not found in ParseTree::empty")
    # the nodes vector is allocated with exactly that local
    return K, C


def parser_region(F):
    g = mirq.callgraph(F.lib)
    R = set(r for r in mirq.reachable_fns(g, ["delta::parser::parse"]) if r in F.lib.bodies)
    return g, R


def r4_node_budget(run, F):
    K, C = capacity_multiplier(run, F)
    g, R = parser_region(F)
    region = R - {PUSH, TAKE, CONSUME_OPT}
    run.require(PUSH in R and TAKE in R and CONSUME_OPT in R, "push/take/consume_optional not reachable from parse")
    # padding loop of parse(): `for _ in 0..MAX_PARSE_NODE_CONTEXT { push_undeclared(..) }` is the constant term
    pb = F.body("delta::parser::parse")
    pad_lines = set()
    for m in hirq.matches(pb["hir"], msrc="ForLoopDesugar"):
        sc = m["scrut"]
        if sc.get("k") == "Call" and (sc.get("callee") or "").endswith("IntoIterator::into_iter"):
            rng = sc["a"][0]
            if rng.get("k") == "Struct" and rng.get("path") == "std::ops::Range":
                fs = {f["name"]: f["e"] for f in rng["fields"]}
                if fs["start"].get("v") == 0 and (fs["end"].get("res") or "").endswith("MAX_PARSE_NODE_CONTEXT"):
                    cs = [c for c in hirq.calls(m["arms"][0]["body"]) if not hirq.in_macro(c, "desugar:ForLoop")]
                    names = [hirq.callee(c) for c in cs]
                    if names == [PT + "ParseBuffer::push_undeclared"]:
                        pad_lines.add(cs[0]["l"])
    run.ob("R4-PADDING", "delta::parser::parse", len(pad_lines) == 1, F.where(pb),
           "parse() must push exactly MAX_PARSE_NODE_CONTEXT padding nodes in a `for _ in 0..MAX_PARSE_NODE_CONTEXT` loop",
           sample={"padding_push_lines": sorted(pad_lines)})

    def override(fn, t):
        if fn == "delta::parser::parse" and t["l"] in pad_lines and \
                mirq.call_target(t) == PT + "ParseBuffer::push_undeclared":
            return 0
        return None
    balance.SITE_OVERRIDE = override
    try:
        res, grow = balance.recursion_growth(F.lib, region, {PUSH: 1, TAKE: -K}, {CONSUME_OPT: -K}, "max")
        # least K for information
        least = None
        for k in range(1, 9):
            r2, g2 = balance.recursion_growth(F.lib, region, {PUSH: 1, TAKE: -k}, {CONSUME_OPT: -k}, "max")
            if not r2.unbounded and not g2 and r2.summary.get("delta::parser::parse", 1) <= 0:
                least = k
                break
    finally:
        balance.SITE_OVERRIDE = None
    run.note_analysed("R4 functions", res.functions)
    run.note_analysed("R4 basic blocks", res.blocks)
    run.note_analysed("R4 weighted CFG edges", res.edges)
    run.info("R4: capacity = %d + %d * tokens; least multiplier proven by the solver: %s" % (C, K, least))
    for fn, cyc, lines in res.unbounded:
        run.ob("R4-NODE-BUDGET", "positive-cycle|%s" % fn, False, "%s:%s" % (F.rel(F.body(fn)["file"]) if fn in F.lib.bodies else "?", lines[:6]),
               "with K=%d a loop in %s pushes more than K nodes per token taken (lines %s): ParseBuffer::push can panic "
               "(`Number of parse nodes greatly exceeds number of tokens`)" % (K, fn, lines[:8]),
               sample={"K": K, "fn": fn, "cycle_lines": lines[:12], "least_K_that_passes": least})
    for fn in grow:
        run.ob("R4-NODE-BUDGET", "recursive-growth|%s" % fn, False, fn, "balance grows through recursion with K=%d" % K)
    s = res.summary.get("delta::parser::parse")
    ok = (not res.unbounded) and (not grow) and s is not None and s <= 0
    run.ob("R4-NODE-BUDGET", "delta::parser::parse|max(pushes - K*takes) <= 0", ok, F.where(pb),
           "max over all paths of (nodes pushed - %d * tokens taken) in parse() beyond the %d padding nodes is %s; must be <= 0 "
           "so that nodes <= %d + %d*tokens = capacity" % (K, C, s, C, K),
           sample={"K": K, "summary": {k: v for k, v in sorted(res.summary.items()) if k.startswith("delta::parser::parse")
                                        and "parse_tree" not in k and "parse_node" not in k},
                   "witness_parse_declaration": res.witness.get("delta::parser::parse_declaration", [])[:12],
                   "least_K_that_passes": least})
    if res.dropped:
        run.info("R4: conditional weights not placed (treated as 0, conservative): %s" % res.dropped)
    # closures in the region must not push or take (they are called through std)
    for fn in region:
        if "{closure" in fn:
            b = F.lib.bodies[fn]
            cfg = mirq.CFG(b)
            bad = [mirq.call_target(t) for i, t in cfg.calls() if mirq.call_target(t) in (PUSH, TAKE, CONSUME, CONSUME_OPT)
                   or (mirq.call_target(t) or "").startswith("delta::parser::parse_")]
            run.ob("R4-CLOSURE-NEUTRAL", fn, not bad, F.where(b), "closures called through std must not push or take: %s" % bad)
    run.assume("R4: takes never exceed tokens.len(): the cursor is monotone and at most one token is taken at/after the first "
               "EndOfSource per declaration attempt (R11); all CFG paths are treated as feasible (over-approximation)")
    return K


def r6_min_take(run, F):
    g, R = parser_region(F)
    region = R - {TAKE, CONSUME_OPT}
    res = balance.solve(F.lib, region, {TAKE: 1}, {CONSUME_OPT: 1}, "min")
    s = res.summary.get("delta::parser::parse_declaration")
    run.ob("R6-MIN-TAKE", "delta::parser::parse_declaration|min takes >= 1", s is not None and s >= 1 and not res.unbounded,
           F.where(F.body("delta::parser::parse_declaration")),
           "every path through parse_declaration must take >= 1 token (min over paths = %s), otherwise the declaration loop "
           "can spin and the final assert_eq!(.., EndOfSource) / finish_declaration capacity assert can fire" % s,
           sample={"min_takes": s})
    # loop bound expression: num_possible_declarations + 2, counted with the same predicate used by find_next
    pb = F.body("delta::parser::parse")
    preds = []
    for c in hirq.calls(pb["hir"]):
        cn = hirq.callee(c)
        if cn in (TOK + "find_next",):
            a = c["a"][0] if c["a"] else {}
            preds.append(norm_path(a.get("res") or "?"))
    filt = []
    for n in walk(pb["hir"]):
        if n.get("k") == "Closure":
            for c in hirq.calls(n["body"]):
                if hirq.callee(c) == "delta::parser::starts_declaration":
                    filt.append(n)
    run.ob("R6-SAME-PREDICATE", "delta::parser::parse", preds == ["delta::parser::starts_declaration"] and len(filt) == 1,
           F.where(pb), "the declaration count and the resynchronisation must use the same predicate starts_declaration",
           sample={"find_next_predicates": preds, "count_closures": len(filt)})
    # the bound `num_possible_declarations + 2` counts iterations that start at a declaration starter: *every* value the loop
    # stores into the position of the next declaration must be a find_next(starts_declaration) result (on every branch, not
    # on some), otherwise an iteration can start at any stray token and the loop can end before EndOfSource (assert_eq! fires)
    def leaves(e):
        e = hirq.unwrap_trivial(e)
        if e.get("k") == "If":
            return leaves(e["then"]) + (leaves(e["else"]) if e.get("else") is not None else [{}])
        if e.get("k") == "Match":
            out = []
            for a in e["arms"]:
                out += leaves(a["body"])
            return out
        if e.get("k") == "Block":
            return leaves(e["e"]) if e.get("e") is not None else [{}]
        return [e]
    start_lids = set()
    for c in hirq.calls(pb["hir"]):
        if (hirq.callee(c) or "").endswith("Tokens::starting_from") and c.get("a"):
            a0 = hirq.unwrap_trivial(c["a"][0])
            if a0.get("k") == "Path" and a0.get("rk") == "Local":
                start_lids.add(a0.get("lid"))
    loops_ = [n for n in walk(pb["hir"]) if n.get("k") == "Match" and "ForLoop" in str(n.get("msrc"))]
    stores = [n for lp in loops_ for n in walk(lp) if n.get("k") == "Assign" and hirq.unwrap_trivial(n["lhs"]).get("lid") in start_lids]
    bad = []
    for n in stores:
        for lf in leaves(n["rhs"]):
            if not (lf.get("k") in ("MethodCall", "Call") and (hirq.callee(lf) or "").endswith("Tokens::find_next")):
                bad.append(lf.get("k") or "()")
    run.ob("R6-LOOP-STARTS-AT-STARTER", "delta::parser::parse", len(stores) >= 1 and not bad, F.where(pb, stores[0]) if stores else F.where(pb),
           "inside the declaration loop the position of the next declaration is always the result of find_next(starts_declaration): "
           "%d store(s), branches that store something else: %s" % (len(stores), bad))
    # starts_declaration covers every token parse_declaration dispatches on (else a declaration could be skipped silently)
    sd = F.body("delta::parser::starts_declaration")
    m = hirq.find_match(sd, min_arms=5)
    starters = set()
    for a in m["arms"]:
        tv = [x.get("v") for x in hirq.lits(a["body"], "bool")]
        if tv == [True]:
            for alt in hirq.pat_alts(a["pat"]):
                starters.add(hirq.pat_key(alt))
    pd = F.body("delta::parser::parse_declaration")
    mds = hirq.matches_on_type(F.lib, pd["hir"], "lexer::BaseToken", 5)
    run.require(len(mds) == 1, "the match over the declaring token was not found in parse_declaration (%d candidates)" % len(mds))
    md = mds[0]
    dispatched = set()
    for a in md["arms"]:
        for alt in hirq.pat_alts(a["pat"]):
            if not hirq.is_catchall(alt):
                dispatched.add(hirq.pat_key(alt))
    need = dispatched | {"BaseToken::Pub", "BaseToken::Extern"}
    run.ob("R6-STARTERS", "starts_declaration>=dispatch", need <= starters, F.where(sd),
           "starts_declaration must be true for every token that can begin a declaration: missing %s" % sorted(need - starters),
           sample={"starters": sorted(starters), "dispatched": sorted(dispatched)})


def r7_inventory(run, F):
    g = mirq.callgraph(F.lib)
    for e in ENTRIES:
        run.require(e in F.lib.bodies, "entry function %s missing" % e)
    R = [r for r in mirq.reachable_fns(g, ENTRIES) if r in F.lib.bodies]
    sites, per_fn = inventory.collect(F.lib, R)
    reviewed = inventory.load_reviewed("c15_panics.json")
    run.note_analysed("R7 functions in closure", len(R))
    run.note_analysed("R7 panic sites", sum(len(v) for v in sites.values()))
    moved = inventory.moved_sites(sites, reviewed, g)
    for key, lines in sorted(sites.items()):
        rv = reviewed.get(key)
        fn = key.split("|")[0]
        b = F.lib.bodies[fn]
        if key in moved and (rv is None or not rv["reason"].startswith("FINDING")):
            n_, origin = moved[key]
            run.ob("R7-PANIC-SITE", key, len(lines) <= (rv["count"] if rv is not None else 0) + n_, "%s:%s" % (F.rel(b["file"]), lines),
                   "%d sites; %d of them moved here from %s (same kind and message, caller or callee), reviewed there as: %s" % (
                       len(lines), n_, origin.split("|")[0], reviewed[origin]["reason"][:120]))
        elif rv is None:
            run.ob("R7-PANIC-SITE", key, False, "%s:%s" % (F.rel(b["file"]), lines),
                   "unreviewed panicking site reachable from the delta entry points")
        elif rv["reason"].startswith("FINDING"):
            run.ob("R7-PANIC-SITE", key, False, "%s:%s" % (F.rel(b["file"]), lines), rv["reason"])
        else:
            run.ob("R7-PANIC-SITE", key, len(lines) <= rv["count"], "%s:%s" % (F.rel(b["file"]), lines),
                   "%d sites, %d reviewed (%s)" % (len(lines), rv["count"], rv["reason"][:160]),
                   sample={"key": key, "lines": lines, "reviewed": rv})
    run.floor("R7-PANIC-SITE", 60)
    run.assume("R7: each reviewed entry of props/reviewed/c15_panics.json is an argument read from the code, not a proof")


def r8_recursion(run, F):
    g, R = parser_region(F)
    g2 = mirq.callgraph(F.lib)
    Rx = set(r for r in mirq.reachable_fns(g2, [PT + "parse_tree_xml::{ParseTree}::as_xml"]) if r in F.lib.bodies)
    nodes = R | Rx
    comps = [c for c in mirq.sccs(g2, nodes) if len(c) > 1 or c[0] in g2.get(c[0], ())]
    run.note_analysed("R8 recursion SCCs", len(comps))
    for comp in comps:
        rep = sorted(comp)[0]
        # a guard = a comparison of a parameter/field against a MAX_* constant whose failing edge builds MaximumParseDepthExceeded,
        # located on the recursion itself (the guarded value must be a depth passed down the recursion)
        guarded = False
        for fn in comp:
            b = F.lib.bodies[fn]
            for i in b.get("inputs", []):
                if "depth" in i.lower():
                    guarded = True
        run.ob("R8-RECURSION-GUARD", rep, guarded, F.where(F.lib.bodies[rep]),
               "recursion cycle {%s} has no depth guard: nesting depth is bounded only by the stack "
               "(a long `&&&...`/`((((`/`{{{{` prefix overflows it)" % ", ".join(sorted(hirq.last(x) for x in comp)),
               sample={"scc": sorted(comp)})
    run.floor("R8-RECURSION-GUARD", 3)


def handled_variants(match):
    """Variants with a non-panicking arm; and whether the catch-all panics."""
    ok = set()
    catch_panics = None
    for a in match["arms"]:
        body_panics = any(hirq.panic_kind(c) for c in hirq.calls(a["body"]))
        for alt in hirq.pat_alts(a["pat"]):
            if hirq.is_catchall(alt):
                catch_panics = body_panics
            elif not body_panics:
                ok.add(hirq.pat_key(alt))
    return ok, catch_panics


def r10_args_covered(run, F):
    cb = F.body(CONSUME)
    ms_ = [mm for mm in hirq.matches_on_type(F.lib, cb["hir"], "lexer::BaseToken", 5)
           if hirq.unwrap_trivial(mm["scrut"]).get("lid") in [q.get("lid") for q in cb.get("params", [])]]
    run.require(len(ms_) == 1, "the match over the expected-token parameter was not found in Tokens::consume (%d candidates)" % len(ms_))
    m = ms_[0]
    ok, catch_panics = handled_variants(m)
    passed = {}
    n_sites = 0
    for b in F.lib.bodies.values():
        if "hir" not in b:
            continue
        for c in hirq.calls(b["hir"]):
            if hirq.callee(c) == CONSUME:
                n_sites += 1
                a = c["a"][0]
                if a.get("k") == "Path" and (a.get("rk") or "").startswith("Ctor"):
                    passed.setdefault(hirq.short(a["res"]), []).append(F.where(b, c))
                else:
                    passed.setdefault("<non-constant:%s>" % (hirq.local_name_of(a) or a.get("k")), []).append(F.where(b, c))
    run.note_analysed("R10 consume call sites", n_sites)
    run.require(n_sites >= 30, "too few consume() call sites found (%d)" % n_sites)
    for v, wh in sorted(passed.items()):
        good = (v in ok) or (catch_panics is False)
        run.ob("R10-ARGS-COVERED", "Tokens::consume|%s" % v, good, wh[0],
               "consume(%s) is called (%d sites) but Tokens::consume's expectation match sends it to unreachable!(): "
               "a missing token panics instead of reporting E300" % (v, len(wh)),
               sample={"arg": v, "sites": wh[:5], "handled": sorted(ok)})
    # parse_word_declaration(declaring_token)
    wb = F.body("delta::parser::parse_word_declaration")
    mws = [mm for mm in hirq.matches_on_type(F.lib, wb["hir"], "lexer::BaseToken", 2)
           if hirq.unwrap_trivial(mm["scrut"]).get("lid") in [q.get("lid") for q in wb.get("params", [])]]
    run.require(len(mws) == 1, "the match over the declaring-token parameter was not found in parse_word_declaration (%d candidates)" % len(mws))
    mw = mws[0]
    okw, cpw = handled_variants(mw)
    pd = F.body("delta::parser::parse_declaration")
    found = False
    for mm in hirq.matches_on_type(F.lib, pd["hir"], "lexer::BaseToken", 5):
        for a in mm["arms"]:
            if any(hirq.callee(c) == "delta::parser::parse_word_declaration" for c in hirq.calls(a["body"])):
                found = True
                alts = set(hirq.pat_key(x) for x in hirq.pat_alts(a["pat"]))
                good = (alts <= okw and not any(hirq.is_catchall(x) for x in hirq.pat_alts(a["pat"]))) or cpw is False
                run.ob("R10-ARGS-COVERED", "parse_word_declaration|declaring_token", good, F.where(pd, a),
                       "the arm calling parse_word_declaration matches %s; the callee handles %s" % (sorted(alts), sorted(okw)))
    run.require(found, "call of parse_word_declaration not found in a declaring_token arm")


def r11_eos(run, F):
    """No match on a take() result accepts EndOfSource; discarded takes follow a peek() that selected a real token."""
    n = 0
    for b in F.lib.bodies.values():
        if "hir" not in b or not b["npath"].startswith("delta::parser::parse"):
            continue
        take_locals = {}
        for node in walk(b["hir"]):
            if node.get("k") == "Let" and node.get("init", {}).get("k") == "MethodCall" and hirq.callee(node["init"]) == TAKE:
                take_locals[node["pat"].get("lid")] = node["pat"].get("name")
        for m in hirq.matches(b["hir"]):
            sc = m["scrut"]
            is_take = (sc.get("k") == "MethodCall" and hirq.callee(sc) == TAKE) or \
                      (sc.get("k") == "Path" and sc.get("rk") == "Local" and sc.get("lid") in take_locals)
            if not is_take:
                continue
            n += 1
            names_eos = False
            catch_err = None
            for a in m["arms"]:
                for alt in hirq.pat_alts(a["pat"]):
                    if hirq.pat_key(alt) == "BaseToken::EndOfSource":
                        names_eos = True
                    if hirq.is_catchall(alt):
                        cons = [hirq.short(p) for p, _ in hirq.constructs(a["body"])]
                        has_ret = any(x.get("k") == "Ret" for x in walk(a["body"]))
                        is_err = any(c in ("v1::Err", "result::Result::Err") or c.endswith("::Err") for c in cons)
                        pan = any(hirq.panic_kind(c) for c in hirq.calls(a["body"]))
                        catch_err = is_err or pan
            run.ob("R11-EOS-REJECTED", "%s|match@%s" % (b["npath"], "local" if hirq.local_name_of(sc) else "take()"),
                   (not names_eos) and catch_err is True, F.where(b, m),
                   "a match on a taken token must send EndOfSource (catch-all arm) to Err(..), never accept it",
                   sample={"fn": b["npath"], "arms": [hirq.pat_key(a["pat"]) for a in m["arms"]][:20]})
        # discarded takes: `let _peeked = tokens.take()` must be preceded by a match on peek() in the same function
        # whose catch-all arm leaves (return) or must sit inside an explicit-variant arm of such a match
        for node in walk(b["hir"]):
            if node.get("k") == "Let" and node.get("init", {}).get("k") == "MethodCall" and hirq.callee(node["init"]) == TAKE \
                    and (node["pat"].get("k") == "Wild" or (node["pat"].get("name") or "").startswith("_")):
                n += 1
                ok = False
                for m in hirq.matches(b["hir"]):
                    sc = m["scrut"]
                    if sc.get("k") == "MethodCall" and hirq.callee(sc) == TOK + "peek":
                        for a in m["arms"]:
                            inside = any(x is node for x in walk(a["body"]))
                            explicit = not any(hirq.is_catchall(x) for x in hirq.pat_alts(a["pat"])) and \
                                "BaseToken::EndOfSource" not in [hirq.pat_key(x) for x in hirq.pat_alts(a["pat"])]
                            if inside and explicit:
                                ok = True
                        # or: catch-all arm returns and the take follows the match
                        catch = [a for a in m["arms"] if any(hirq.is_catchall(x) for x in hirq.pat_alts(a["pat"]))]
                        if catch and all(any(x.get("k") == "Ret" for x in walk(a["body"])) for a in catch) \
                                and node.get("l", 0) > m.get("l", 0) and \
                                not any("BaseToken::EndOfSource" == hirq.pat_key(x) for a in m["arms"] for x in hirq.pat_alts(a["pat"])):
                            ok = True
                run.ob("R11-DISCARDED-TAKE", "%s|%s" % (b["npath"], node["pat"].get("name", "_")), ok, F.where(b, node),
                       "a take() whose token is discarded must follow a peek() that selected an explicit non-EndOfSource token")
    run.floor("R11-EOS-REJECTED", 6)
    # two end markers are pushed
    pe = F.body(LT + "TokensBuffer::push_end_of_source")
    k = sum(1 for p, _ in hirq.constructs(pe["hir"]) if hirq.short(p) == "BaseToken::EndOfSource")
    run.ob("R11-TWO-MARKERS", LT + "TokensBuffer::push_end_of_source", k >= 2, F.where(pe),
           "two EndOfSource markers keep base_tokens_from(cursor) in bounds after one take at the end (found %d)" % k)
    # the token streams that stand for a lexer-level failure (E101 empty file, E102 too large, E103 too many tokens) end in two markers
    # as well: parse() is a public function and `skip_until` panics ("there is always an EndOfSource token") on a stream without one
    ee = F.body(LT + "Tokens::empty_with_one_error")

    def multiplicity(root, pred):
        total = 0

        def visit(n, anc):
            nonlocal total
            if pred(n):
                m = 1
                for i, a in enumerate(anc):
                    if a.get("k") == "Loop" and "ForLoop" in str(a.get("lsrc")):
                        it = None
                        for b2 in reversed(anc[:i]):
                            if b2.get("k") == "Match":
                                sc = hirq.unwrap_trivial(b2["scrut"])
                                if sc.get("k") == "Call" and (hirq.callee(sc) or "").endswith("into_iter") and sc.get("a"):
                                    it = hirq.unwrap_trivial(sc["a"][0])
                                break
                        if it is not None and it.get("k") == "Struct" and str(it.get("path", "")).endswith("ops::Range"):
                            fs = {f["name"]: hirq.unwrap_trivial(f["e"]) for f in it.get("fields", [])}
                            if fs.get("start", {}).get("k") == "Lit" and fs.get("end", {}).get("k") == "Lit":
                                m *= max(0, fs["end"]["v"] - fs["start"]["v"])
                total += m
            for _, c in hirq._children(n):
                anc.append(n)
                visit(c, anc)
                anc.pop()
        visit(root, [])
        return total
    k2 = multiplicity(ee["hir"], lambda n: n.get("k") == "Path" and not n.get("inpat") and str(n.get("ctor_of") or n.get("res") or "").endswith("BaseToken::EndOfSource"))

    def pushes_on(field):
        return multiplicity(ee["hir"], lambda n: n.get("k") == "MethodCall" and n.get("name") == "push" and
                            hirq.unwrap_trivial(n["recv"]).get("k") == "Field" and hirq.unwrap_trivial(n["recv"]).get("name") == field)
    par = [pushes_on(f) for f in ("tokens", "token_vaps", "token_locations")]
    run.ob("R11-TWO-MARKERS", LT + "Tokens::empty_with_one_error", k2 >= 2 and len(set(par)) == 1 and par[0] >= 3, F.where(ee),
           "the one-error token stream is [Error, EndOfSource, EndOfSource] in all three parallel arrays (EndOfSource pushed %d times; pushes per array %s): "
           "`parse(&lex(b\"\"))` otherwise panics in skip_until" % (k2, par))
    # lex_source_into_buffer ends in push_end_of_source on the fall-through path
    lb = F.body("delta::lexer::lex_source_into_buffer")
    tail = lb["hir"].get("e", {})
    run.ob("R11-TWO-MARKERS", "lex_source_into_buffer|tail", tail.get("k") == "MethodCall" and
           hirq.callee(tail) == LT + "TokensBuffer::push_end_of_source", F.where(lb, tail),
           "the lexer's tail expression must be buffer.push_end_of_source(..)")


def r11b_one_take_past_end(run, F):
    """Tokens::take advances the cursor even when it returns EndOfSource, and the lexer pushes exactly two end markers: after a
    take() whose token may still be EndOfSource nothing else may be consumed.  Path rule on the MIR of every parser function:
    from a take(), every path to another consuming call (take / consume / consume_optional / a parse_* function) passes an
    edge of a switch on the taken token that excludes EndOfSource."""
    variants = [v["name"] for v in F.lib.adts["delta::lexer::BaseToken"]["variants"]]
    eos = variants.index("EndOfSource")
    TK = "delta::parser::tokens::Tokens::"
    n = 0
    for p, b in sorted(F.lib.bodies.items()):
        if "mir" not in b or not p.startswith("delta::parser::parse") or "{closure" in p:
            continue
        cfg = mirq.CFG(b)

        def consumer(t):
            c = mirq.call_target(t) or ""
            return c in (TK + "take", TK + "consume", TK + "consume_optional") or (c.startswith("delta::parser::parse") and "::parse_tree::" not in c and "::parse_node::" not in c)
        for u, t in cfg.calls():
            if (mirq.call_target(t) or "") != TK + "take" or not isinstance(t.get("dest"), int) or t.get("to") is None:
                continue
            # a take() whose token is never looked at follows a peek() that selected an explicit token (R11-DISCARDED-TAKE)
            d0 = t["dest"]
            text = json.dumps([blk["s"] for blk in cfg.blocks]) + json.dumps([{k: v for k, v in blk["t"].items() if k in ("args", "on")} for blk in cfg.blocks])
            used = ('"cp": %d}' % d0) in text or ('"mv": %d}' % d0) in text or ('"p": %d}' % d0) in text or ('"p": %d,' % d0) in text
            if not used:
                continue
            n += 1
            aliases = {t["dest"]}
            seen = set()
            work = [t["to"]]
            bad = None
            while work and bad is None:
                x = work.pop()
                if x in seen:
                    continue
                seen.add(x)
                dl = None
                for st in cfg.blocks[x]["s"]:
                    r = st["r"]
                    if r.get("k") == "Use" and mirq.op_local(r["a"]) in aliases and isinstance(st["d"], int):
                        aliases.add(st["d"])
                    if r.get("k") == "Discr" and isinstance(r.get("p"), int) and r["p"] in aliases:
                        dl = st["d"]
                tt = cfg.term(x)
                if tt["k"] == "Switch" and dl is not None and mirq.op_local(tt["on"]) == dl:
                    explicit = [v for v, bb in tt["targets"]]
                    for v, bb in tt["targets"]:
                        if v == eos:
                            work.append(bb)
                    if eos not in explicit and tt.get("otherwise") is not None:
                        work.append(tt["otherwise"])
                    continue
                if tt["k"] == "Call" and consumer(tt):
                    bad = (x, mirq.call_target(tt), tt.get("l"))
                    break
                for y in cfg.succ[x]:
                    work.append(y)
            run.ob("R11-ONE-TAKE-PAST-END", "%s|take@%s" % (p.split("::")[-1], len([1 for uu, tx in cfg.calls() if (mirq.call_target(tx) or "") == TK + "take" and uu < u])), bad is None,
                   F.where(b, t), "after this take() the token may still be EndOfSource when %s is reached (line %s): a second step past the end leaves the cursor "
                   "beyond both end markers and error recovery panics in skip_until" % ((bad or (0, "?", 0))[1], (bad or (0, 0, "?"))[2]))
    run.require(n >= 6, "parser: take() call sites whose token is inspected not found (%d)" % n)


def r12_protocol(run, F):
    """parse() only on the None edge of Tokens::errors(); build_header/as_xml only on the None edge of ParseTree::errors()."""
    users = [("lib", "delta::test_suite::compile"), ("bin", "compile_to_ir_using_delta")]
    n = 0
    for crate, fn in users:
        C = F.lib if crate == "lib" else F.bin
        b = C.bodies.get(fn)
        if b is None:
            raise AnchorMissing("pipeline driver %s not found in %s" % (fn, crate))
        cfg = mirq.CFG(b)
        none_edges = {}
        for i, t in cfg.calls():
            c = mirq.call_target(t)
            if c in (LT + "Tokens::errors", PT + "ParseTree::errors"):
                sw = mirq.enum_switch_after_call(cfg, i)
                if sw is not None and (0 in sw[0] or 1 in sw[0]):
                    none_edges[c] = sw[0].get(0, sw[1])
        need = {
            "delta::parser::parse": LT + "Tokens::errors",
            PT + "ParseTree::build_header": PT + "ParseTree::errors",
            PT + "parse_tree_xml::{ParseTree}::as_xml": PT + "ParseTree::errors",
        }
        for i, t in cfg.calls():
            c = mirq.call_target(t)
            if c in need:
                n += 1
                gate = need[c]
                ok = gate in none_edges and cfg.dominates(none_edges[gate], i)
                run.ob("R12-PROTOCOL", "%s|%s" % (fn, hirq.last(c)), ok, F.where(b, t),
                       "%s must only run on the `None` edge of %s (its panics/asserts assume error-free input)" % (c, gate))
    run.require(n >= 4, "pipeline protocol call sites not found (%d)" % n)
    # Tokens::errors / ParseTree::errors return Some iff the error vector is non-empty
    for fn, field in ((LT + "Tokens::errors", "errors"), (PT + "ParseTree::errors", "errors")):
        b = F.body(fn)
        cfg = mirq.CFG(b)
        isempty = [i for i, t in cfg.calls() if (mirq.call_target(t) or "").endswith("Vec::is_empty")]
        ok = False
        for i in isempty:
            sw = mirq.bool_switch_after_call(cfg, i)
            if sw is None:
                continue
            tt, ft = sw
            # on the true edge (empty) only None may be built; on the false edge Some
            def aggs(start):
                out = set()
                for x in cfg.reachable_from([start]):
                    for s in cfg.blocks[x]["s"]:
                        r = s["r"]
                        if r.get("k") == "Agg" and r.get("adt", "").endswith("Option"):
                            out.add(r.get("variant"))
                return out
            if aggs(tt) == {"None"} and "Some" in aggs(ft) and "None" not in (aggs(ft) - aggs(tt)) | set():
                ok = True
            elif aggs(tt) == {"None"} and "Some" in aggs(ft):
                ok = True
        run.ob("R12-ERRORS-IFF", fn, ok, F.where(b), "errors() must return None exactly when the error vector is empty")


def r13_asserted_capacity(run, F):
    """finish_declaration pushes behind `assert!(len < capacity)`: the declaration list is never grown, so its pre-allocation
    is a *hard* bound.  For every field of ParseTree whose push is guarded by such an assertion, the with_capacity argument
    in ParseTree::empty must be the count the caller computed, not a reduced one: its backward slice contains the caller's
    parameter and no min / clamp / saturating / division (the error list, which drops pushes beyond its cap, may)."""
    from rules import origins
    PT = "delta::parser::parse_tree::"
    guarded = set()
    for p, b in F.lib.bodies.items():
        if not p.startswith(PT + "ParseBuffer::") or "hir" not in b:
            continue
        asserts_on = set()
        for n in walk(b["hir"]):
            if n.get("k") == "Binary" and n.get("op") in ("Lt", "Gt"):
                l, r = hirq.unwrap_trivial(n["lhs"]), hirq.unwrap_trivial(n["rhs"])
                if n["op"] == "Gt":
                    l, r = r, l      # capacity > len
                if l.get("k") == "MethodCall" and l.get("name") == "len" and r.get("k") == "MethodCall" and r.get("name") == "capacity":
                    fl, fr = hirq.unwrap_trivial(l["recv"]), hirq.unwrap_trivial(r["recv"])
                    if fl.get("k") == "Field" and fr.get("k") == "Field" and fl.get("name") == fr.get("name"):
                        asserts_on.add(fl["name"])
        has_assert = any(hirq.panic_kind(c) == "assert" for c in hirq.calls(b["hir"]))
        returns_early = any(n.get("k") == "Ret" for n in walk(b["hir"]))
        if has_assert and not returns_early:
            guarded |= asserts_on
    run.require("declarations" in guarded, "the asserted push of ParseBuffer (finish_declaration) was not found; guarded fields: %s" % sorted(guarded))
    e = F.body(PT + "ParseTree::empty")
    params = [q.get("name") for q in e.get("params", [])]
    for p, node in hirq.constructs(e["hir"]):
        if node.get("k") != "Struct" or not p.endswith("ParseTree"):
            continue
        for f in node["fields"]:
            if f["name"] not in guarded:
                continue
            caps = []
            o = origins.origins(e["hir"], f["e"], e.get("params", ()))
            for c in hirq.calls(e["hir"]):
                if (hirq.callee(c) or "").endswith("with_capacity") and ("call", hirq.callee(c)) in o:
                    caps.append(c)
            # the with_capacity call this field is initialised from: the one whose result reaches the field
            ok_any = False
            detail = "no with_capacity call reaches the field"
            for c in caps:
                oc = origins.origins(e["hir"], c["a"][0], e.get("params", ()))
                if not any(k == ("param", params[1]) for k in oc if len(params) > 1):
                    continue
                reducing = sorted(str(k[1]).split("::")[-1] for k in oc if k[0] == "call" and str(k[1]).split("::")[-1] in (
                    "min", "clamp", "saturating_sub", "checked_sub", "div", "shr", "isqrt"))
                ok_any = not reducing
                detail = "capacity derives from %s; reducing operations: %s" % (sorted(map(str, oc)), reducing)
            run.ob("R13-ASSERTED-CAPACITY", "ParseTree.%s" % f["name"], ok_any, F.where(e, node),
                   "pushes onto `%s` assert len < capacity, so the pre-allocation must be the caller's bound unreduced: %s" % (f["name"], detail))
    run.floor("R13-ASSERTED-CAPACITY", 1, "asserted never-grown vectors of ParseTree (declarations)")


def r14_alloc_failure_propagated(run, F):
    """The token and node buffers are bounded; a push that does not fit returns an error which ends the run with E103 / E390.
    The parser's cursor arithmetic (R11) relies on every push having happened: a push whose failure is swallowed (`.ok()`,
    `let _ =`, a bare statement) leaves the buffer one token short -- with the second end marker missing, `skip_until` runs
    off the end of the token array.  In the second-generation lexer and parser no value of a type `Result<_, TokenAllocError>`,
    `Result<_, ParsingError>` or `Result<_, LexingError>` produced by a call is thrown away."""
    n = 0
    for p, b in sorted(F.lib.bodies.items()):
        if "hir" not in b or "/delta/" not in b["file"] or F.rel(b["file"]).endswith("fuzzer.rs"):
            continue

        def fallible(x):
            if x.get("k") not in ("Call", "MethodCall") or x.get("t") is None or (x.get("ck") or "").startswith("Ctor"):
                return False
            ty = F.lib.types[x["t"]]
            return ty.startswith("std::result::Result<") and any(e in ty for e in ("TokenAllocError", "ParsingError", "LexingError"))
        sites = [x for x in walk(b["hir"]) if fallible(x)]
        n += len(sites)
        for x, how in hirq.discarded_values(b["hir"], fallible):
            run.ob("R14-ALLOC-FAILURE-PROPAGATED", "%s|%s" % (p.split("delta::")[-1], (hirq.callee(x) or x.get("name") or "?").split("::")[-1]), False, F.where(b, x),
                   "the result of %s is thrown away (`%s`): a full buffer would go unnoticed and the parser would read past what was pushed" % (
                       (hirq.callee(x) or x.get("name") or "?").split("::")[-1], how))
    run.ob("R14-ALLOC-FAILURE-PROPAGATED", "scan", n >= 150, "src/delta", "%d fallible calls of the second-generation lexer and parser examined (floor 150); none is discarded" % n)


def r15_counters_bounded_in_loop(run, F, part="/delta/", floor=3):
    """The depth counters of the second-generation parser are u8.  Each `counter += 1` inside a loop that the input controls (one
    iteration per `&`) is bounded in the same iteration: the loop body compares the counter with its limit and leaves the function
    or the loop.  A check hoisted behind the loop still rejects 128..=255 ampersands with E390 and lets the 256th overflow the
    counter: a panic in a debug build, a silent wrap (and a bypassed limit) in release."""
    n = 0
    for p, b in sorted(F.lib.bodies.items()):
        if "hir" not in b or part not in b["file"] or F.rel(b["file"]).endswith("fuzzer.rs"):
            continue
        for lp in [x for x in walk(b["hir"]) if x.get("k") == "Loop"]:
            inner_loops = [y for y in walk(lp) if y.get("k") == "Loop" and y is not lp]
            for l, a in hirq.increments(lp):
                if any(a is z for il in inner_loops for z in walk(il)):
                    continue          # belongs to the inner loop
                t = str(F.lib.types[l["t"]]) if l.get("t") is not None else "?"
                if t not in ("u8", "u16", "i8", "i16"):
                    continue
                n += 1
                bounded = False
                for c in walk(lp):
                    if c.get("k") == "If":
                        cond = hirq.unwrap_trivial(c["cond"])
                        cmp_ = [x for x in walk(cond) if x.get("k") == "Binary" and x.get("op") in ("Gt", "Ge", "Lt", "Le", "Eq") and
                                any(y.get("k") == "Path" and y.get("lid") == l.get("lid") for y in walk(x))]
                        leaves = any(y.get("k") in ("Ret", "Break") for y in walk(c["then"])) or (c.get("else") is not None and any(y.get("k") in ("Ret", "Break") for y in walk(c["else"])))
                        if cmp_ and leaves:
                            bounded = True
                run.ob("R15-COUNTER-BOUNDED-IN-LOOP", "%s|%s" % (p.split("::")[-1], n), bounded, F.where(b, a),
                       "a %s counter is incremented once per iteration of a loop over input tokens and not compared with its limit inside that loop: "
                       "the 256th iteration overflows it (panic in debug builds, wrap-around in release) before the check behind the loop runs" % t)
    run.floor("R15-COUNTER-BOUNDED-IN-LOOP", floor, "narrow counters incremented in loops under %s" % part)


def check(run):
    F = run.facts("A")
    r13_asserted_capacity(run, F)
    r1_unsafe(run, F)
    r2_counters(run, F)
    r4_node_budget(run, F)
    r5_limits(run, F)
    r6_min_take(run, F)
    r7_inventory(run, F)
    r8_recursion(run, F)
    r10_args_covered(run, F)
    r11_eos(run, F)
    r11b_one_take_past_end(run, F)
    r12_protocol(run, F)
    r14_alloc_failure_propagated(run, F)
    r15_counters_bounded_in_loop(run, F)
    # "every input containing an invalid lexeme is rejected": the digit classifiers decide which bytes a literal swallows
    from props import c14
    c14.r7_digit_tables(run, F)
    if run.tier == "thorough":
        r3_witness(run, F)


def r3_witness(run, F):
    """E3: compile-fail witnesses (thorough tier): the length setters / buffers are not reachable from another crate."""
    import subprocess, os
    from rules.core import VERIF
    out = subprocess.run([os.path.join(VERIF, "bin", "run-witnesses"), F.repo], capture_output=True, text=True).stdout
    res = {}
    for line in out.splitlines():
        if line.startswith("test src/lib.rs - "):
            name = line.split(" - ")[1].split(" ")[0]
            res[name] = line.rstrip().endswith("... ok")
    pairs = [("W1", "W1Twin", "Tokens::set_tokens_len is private (E0624)"), ("W2", "W2Twin", "ParseTree::set_nodes_len is private (E0624)"),
             ("W3", "W3Twin", "TokensBuffer cannot be named (E0603)"), ("W4", "W4Twin", "ParseBuffer cannot be named (E0603)"),
             ("W5", "W1Twin", "Tokens::buffer is private (E0624)")]
    for w, twin, what in pairs:
        run.ob("R3-COMPILE-FAIL-WITNESS", w, res.get(w) is True and res.get(twin) is True, "witness/lib.rs.tmpl",
               "%s: the witness must fail to compile with exactly that error code and its twin must compile (witness %s, twin %s)" % (what, res.get(w), res.get(twin)),
               sample={"witness": w, "twin": twin, "doctest_output": [l for l in out.splitlines() if (" - %s " % w) in l or (" - %s " % twin) in l]})
