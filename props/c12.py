"""C12 -- imports expose exactly the public interface; modules compose."""
from rules import hirq, mirq, apimisuse
from rules.core import walk, norm_path, AnchorMissing
from props import c03

LEVEL = "other"
EXPLANATION = (
    "Static analysis of import expansion and per-module state (cfg B). Decided: R1 expander::export is a total table "
    "over Declaration: Constant->Constant, Function->FunctionHead without the body, FunctionHead->FunctionHead, "
    "Structure->Structure, Import and Poison export nothing; every exported declaration takes its flags from "
    "extract_public, which yields Some only when removing Public succeeded, so private items and already imported "
    "(no longer pub) items are never re-exported, and every other field is cloned unchanged; R2 expand(): self-imports "
    "are dropped, processed import declarations are removed from every module before splicing, unresolved imports "
    "become Poison(UnresolvedImport / UnresolvedImportWithHint), imports are recorded as (includer, includee); R3 "
    "Compiler::add_module resets typer, analyzer and linter to Default and delegates to Generator::add_module; "
    "R4 Generator::add_module clears every handle table (shared with C03.R1); R5 no iteration over hash containers in "
    "the expander (order of spliced declarations is deterministic); R6 get_key_offset tries the exact path first and "
    "then the path relative to the includer's parent. Behavioural equivalence of split programs is not decided."
    " ADDED LATER: R7 struct types of different modules must not share a name in the LLVM context (known finding); R8 an exported constant's initialiser is copied verbatim before names are resolved (known finding); the linkage table of C03.R2 is shared (private functions and all constants are module-private symbols, so equally named private items of two modules are never merged by the linker)."
    " ROUNDS 5-6: R2-ALL-IMPORTS-RESOLVED: the resolving loop ranges over every import (sort + partition_point or a filter); the linkage table of C03.R2 is shared."
    " ROUND 10: C05.R7-SCOPER-VISITS is shared: the types in an imported function head are scoped like those of a function.")

DECL = "alpha::common::Declaration"


def r1_export(run, F):
    b = F.body("alpha::expander::export")
    m = hirq.find_match(b, min_arms=5)
    want = {"Constant": "Constant", "Function": "FunctionHead", "FunctionHead": "FunctionHead", "Structure": "Structure",
            "Import": None, "Poison": None}
    adt = F.adt(DECL)
    fields_of = {v["name"]: [f["name"] for f in v["fields"]] for v in adt["variants"]}
    seen = set()
    for a in m["arms"]:
        for alt in hirq.pat_alts(a["pat"]):
            if hirq.is_catchall(alt):
                run.ob("R1-EXPORT-TABLE", "wildcard", False, F.where(b, a), "export must list every Declaration variant")
                continue
            v = hirq.pat_key(alt).split("::")[-1]
            seen.add(v)
            built = [p.split("::")[-1] for p, _ in hirq.constructs(a["body"]) if norm_path(p).startswith(DECL + "::")]
            opt = [hirq.short(p) for p, _ in hirq.constructs(a["body"]) if hirq.short(p).endswith("::None")]
            w = want.get(v, "?")
            if w is None:
                ok = not built and len(opt) == 1
                run.ob("R1-EXPORT-TABLE", v, ok, F.where(b, a), "%s must export nothing (None): builds %s" % (v, built))
                continue
            ok = built == [w]
            # bindings by what they are bound to (`$1.flags` is the flags field of the declaration passed in), not by name
            env = hirq.canon_params(b)
            base = hirq.canon_of(m["scrut"], env)
            hirq.bind_pattern(alt, base, env)
            # flags come from extract_public(<the declaration's flags>).map(|x| ..)
            ep = [c for c in hirq.calls(a["body"]) if hirq.callee(c) == "alpha::expander::extract_public"]
            ok = ok and len(ep) == 1 and hirq.canon_of(ep[0]["a"][0], env) == "%s.flags" % base
            run.ob("R1-EXPORT-TABLE", v, ok, F.where(b, a),
                   "%s must be exported as %s with flags from extract_public(flags): builds %s" % (v, w, built),
                   sample={"variant": v, "exported_as": built})
            # field fidelity: every field of the target variant is `field.clone()` of the same-named binding, flags excepted
            for p, node in hirq.constructs(a["body"]):
                if norm_path(p) == DECL + "::" + w and node.get("k") == "Struct":
                    got = {f["name"]: f["e"] for f in node["fields"]}
                    for fname in fields_of[w]:
                        e = got.get(fname)
                        if fname == "flags":
                            # the parameter of the closure handed to extract_public(..).map
                            from rules import origins as _or
                            oe = _or.origins(b["hir"], e, b.get("params", ())) if e is not None else set()
                            good = ("closureparam",) in oe and ("call", "alpha::expander::extract_public") in oe
                        else:
                            ee = hirq.unwrap_trivial(e) if e else {}
                            good = ee.get("k") == "MethodCall" and ee.get("name") == "clone" and \
                                hirq.canon_of(ee["recv"], env) == "%s.%s" % (base, fname)
                        run.ob("R1-EXPORT-FIELDS", "%s->%s.%s" % (v, w, fname), good, F.where(b, node),
                               "exported %s.%s must be a clone of the original's `%s`" % (w, fname, fname))
                    if v == "Function":
                        run.ob("R1-BODY-DROPPED", "Function", "body" not in got, F.where(b, node), "imported functions are signatures only")
    run.ob("R1-EXPORT-TABLE", "covers", seen == set(fields_of), F.where(b), "arms: %s" % sorted(seen))
    run.floor("R1-EXPORT-FIELDS", 20)
    # extract_public
    e = F.body("alpha::expander::extract_public")
    ifs = [n for n in walk(e["hir"]) if n.get("k") == "If" and "else" in n]
    ok = False
    for n in ifs:
        cc = [c for c in hirq.calls(n["cond"]) if (hirq.callee(c) or "").endswith("EnumSet::remove")]
        fl = c03.flags_in(n["cond"])
        t = [hirq.short(p) for p, _ in hirq.constructs(n["then"])]
        el = [hirq.short(p) for p, _ in hirq.constructs(n["else"])]
        if cc and fl == ["Public"] and any(x.endswith("Some") for x in t) and any(x.endswith("None") for x in el) and not any(x.endswith("Some") for x in el):
            ok = True
    if not ok:
        # combinator form: `flags.remove(Public).then_some(flags)` (possibly through a local holding the bool)
        from rules import origins
        defs = origins.definitions(e["hir"], e.get("params", ()))
        for n in walk(e["hir"]):
            if n.get("k") == "MethodCall" and n.get("name") in ("then_some", "then"):
                chain = [n["recv"]]
                seen_l = set()
                negated = False
                removes = []
                while chain:
                    x = chain.pop()
                    for y in walk(x):
                        if y.get("k") == "Unary" and y.get("op") == "Not":
                            negated = True
                        if y.get("k") in ("MethodCall", "Call") and (hirq.callee(y) or "").endswith("EnumSet::remove"):
                            removes.append(y)
                        if y.get("k") == "Path" and y.get("rk") == "Local" and y.get("lid") not in seen_l:
                            seen_l.add(y.get("lid"))
                            chain.extend(src for src, _ in defs.get(y.get("lid"), []) if src is not None)
                if removes and not negated and all(c03.flags_in(r) == ["Public"] for r in removes):
                    ok = True
    run.ob("R1-EXTRACT-PUBLIC", "extract_public", ok, F.where(e),
           "extract_public returns Some(flags without Public) exactly when Public was present, None otherwise")


def r2_expand(run, F):
    b = F.body("alpha::expander::expand")
    # retain closures
    rets = [c for c in hirq.calls(b["hir"]) if c.get("k") == "MethodCall" and c.get("name") == "retain"]
    self_import = False
    drop_imports = None
    for c in rets:
        cl = c["a"][0]
        if cl.get("k") != "Closure":
            continue
        body = hirq.unwrap_trivial(cl["body"])
        prm = cl.get("params", [])
        pair = hirq.strip_ref(prm[0]) if len(prm) == 1 else {}
        comps = [q.get("lid") for q in pair.get("pats", [])] if pair.get("k") == "Tuple" and len(pair.get("pats", [])) == 2 else []
        if body.get("k") == "Binary" and body.get("op") == "Ne" and len(comps) == 2 and None not in comps and \
                {hirq.unwrap_trivial(body["lhs"]).get("lid"), hirq.unwrap_trivial(body["rhs"]).get("lid")} == set(comps):
            self_import = True      # retain(|(a, b)| a != b) on the pair set, whatever the components are called
        tests_import = any(hirq.callee(x) == "alpha::expander::is_import" for x in hirq.calls(body)) or \
            any(str(x.get("ctor_of") or x.get("res") or "").endswith("Declaration::Import") and x.get("k") in ("Struct", "TupleStruct", "Path") for x in walk(body))
        if body.get("k") == "Unary" and body.get("op") == "Not" and tests_import:
            drop_imports = c       # retain(|x| !<x is an import>), through is_import or written out with matches!
    run.ob("R2-SELF-IMPORT", "imports.retain(from != to)", self_import, F.where(b), "a module importing itself must not splice its own declarations")
    splice = [c for c in hirq.calls(b["hir"]) if c.get("k") == "MethodCall" and c.get("name") == "splice"]
    exp = [c for c in hirq.calls(b["hir"]) if hirq.callee(c) == "alpha::expander::export"]
    ok = drop_imports is not None and len(splice) == 1 and drop_imports["l"] < splice[0]["l"]
    run.ob("R2-IMPORTS-REMOVED", "retain(!is_import) before splice", ok, F.where(b),
           "import declarations must be removed from every module before exported declarations are spliced in")
    run.ob("R2-EXPORT-FILTER", "splice uses export()", len(exp) == 1 and len(splice) == 1, F.where(b),
           "only declarations passed through export() may be spliced into the includer")
    # every import of the module is resolved before retain(!is_import) removes them all: the resolving loop ranges over the
    # prefix [0..k) with k = partition_point(is_import) after a sort that moves the imports to the front (or over a filter of
    # all declarations); a count of the *leading* imports (take_while / position) silently drops an import that follows
    # another declaration
    from rules import origins as _or
    fors = [n for n in walk(b["hir"]) if n.get("k") == "Match" and "ForLoop" in str(n.get("msrc"))
            and any(hirq.short(p) == "Error::UnresolvedImport" for p, _ in hirq.constructs(n))]
    inner = [n for n in fors if not any(m is not n and any(x is m for x in walk(n)) for m in fors)]
    dom_calls = set()
    for lp in inner[:1]:
        o = _or.origins(b["hir"], lp["scrut"], b.get("params", ()))
        dom_calls |= set(str(k[1]).split("::")[-1] for k in o if k[0] == "call")
    sorts = [c for c in hirq.calls(b["hir"]) if c.get("k") == "MethodCall" and c.get("name") in ("sort_by_key", "sort_by", "sort_by_cached_key")
             and any(hirq.callee(x) == "alpha::expander::is_import" for x in hirq.calls(c))]
    whole = ("partition_point" in dom_calls and len(sorts) >= 1) or ("filter" in dom_calls and not ({"take_while", "position", "partition_point"} & dom_calls))
    prefix_only = sorted({"take_while", "position", "skip_while", "find"} & dom_calls)
    run.ob("R2-ALL-IMPORTS-RESOLVED", "domain of the resolving loop", bool(inner) and whole and not prefix_only, F.where(b, inner[0]) if inner else F.where(b),
           "the loop that resolves imports must range over every import of the module (sorted to the front + partition_point, or a filter): "
           "domain derives from %s, sorts by is_import: %d, prefix-only adaptors: %s" % (sorted(dom_calls), len(sorts), prefix_only))
    # unresolved imports -> Poison
    cons = [hirq.short(p) for p, _ in hirq.constructs(b["hir"])]
    run.ob("R2-UNRESOLVED", "poisoned", "Error::UnresolvedImport" in cons and "Error::UnresolvedImportWithHint" in cons and "Declaration::Poison" in cons,
           F.where(b), "an import that cannot be resolved must become Declaration::Poison(UnresolvedImport[WithHint])")
    # pair orientation, by role: insert((<index of the module being scanned>, <result of get_key_offset>)); the splicing loop
    # destructures (p0, p1) from the pair set, reads modules[p1] (export source) and writes modules[p0] (splice target)
    from rules import origins as _or2
    ins = [c for c in hirq.calls(b["hir"]) if c.get("k") == "MethodCall" and c.get("name") == "insert"]
    ok = False
    pair_set_lid = None
    for c in ins:
        t = hirq.unwrap_trivial(c["a"][0])
        if t.get("k") == "Tup" and len(t["a"]) == 2:
            o0 = _or2.origins(b["hir"], t["a"][0], b.get("params", ()))
            o1 = _or2.origins(b["hir"], t["a"][1], b.get("params", ()))
            first_is_index = any(k[0] == "call" and str(k[1]).endswith("::enumerate") for k in o0) and ("tuplepos", 0) in o0
            second_is_found = ("call", "alpha::expander::get_key_offset") in o1
            if first_is_index and second_is_found and not ("call", "alpha::expander::get_key_offset") in o0:
                ok = True
                pair_set_lid = hirq.unwrap_trivial(c["recv"]).get("lid")
    run.ob("R2-PAIR-ORIENTATION", "insert((includer, includee))", ok, F.where(b), "imports are recorded as (includer, includee)")
    mod_param = [q.get("lid") for q in b.get("params", [])][:1]
    idx = [n for n in walk(b["hir"]) if n.get("k") == "Index" and hirq.unwrap_trivial(n["e"]).get("lid") in mod_param]
    pos = []
    for n in idx:
        oi = _or2.origins(b["hir"], n["i"], b.get("params", ()))
        pos.append(sorted(k[1] for k in oi if k[0] == "tuplepos"))
    reads = [any((hirq.callee(c) or "") == "alpha::expander::export" for c in hirq.calls(b["hir"]))]
    run.ob("R2-PAIR-ORIENTATION", "read includee, write includer", pos == [[1], [0]] and all(reads), F.where(b),
           "declarations are exported from modules[<second component>] and spliced into modules[<first component>]: index components %s" % pos)
    hs = [s for s in apimisuse.hash_iterations(F.lib, lambda x: x["npath"].startswith("alpha::expander::"))]
    run.ob("R5-DETERMINISTIC-SPLICE", "no hash iteration in expander", not hs, F.where(b),
           "the order in which imports are spliced must not depend on hash iteration order: %s" % [d for _, _, d in hs])
    # the set type is ordered
    T = F.lib.types
    ok = False
    for n in walk(b["hir"]):
        if n.get("k") == "Let" and n["pat"].get("lid") == pair_set_lid and pair_set_lid is not None:
            ok = T[n["pat"]["t"]].startswith("std::collections::BTreeSet<") or T[n["pat"]["t"]].startswith("std::vec::Vec<")
    run.ob("R5-DETERMINISTIC-SPLICE", "imports is an ordered collection", ok, F.where(b), "imports must be a BTreeSet/Vec")


def r3_compiler_reset(run, F):
    b = F.body("alpha::Compiler::add_module")
    adt = F.adt("alpha::Compiler")
    fields = [f["name"] for f in adt["variants"][0]["fields"]]
    assigned = {}
    for n in walk(b["hir"]):
        if n.get("k") == "Assign":
            l = hirq.unwrap_trivial(n["lhs"])
            if l.get("k") == "Field" and hirq.local_name_of(hirq.unwrap_trivial(l["e"])) == "self":
                cs = [hirq.callee(c) or "" for c in hirq.calls(n["rhs"])]
                assigned[l["name"]] = any(c.endswith("Default>::default") or c.endswith("::default") for c in cs)
    for f in fields:
        if f == "generator":
            cs = [hirq.callee(c) for c in hirq.calls(b["hir"])]
            run.ob("R3-COMPILER-RESET", "generator", "alpha::generator::Generator::add_module" in cs, F.where(b),
                   "Compiler::add_module must delegate to Generator::add_module")
        else:
            run.ob("R3-COMPILER-RESET", f, assigned.get(f) is True, F.where(b),
                   "Compiler::add_module must reset `%s` to Default so that nothing of the previous module leaks" % f)


def r6_key_offset(run, F):
    b = F.body("alpha::expander::get_key_offset")
    e = hirq.unwrap_trivial(b["hir"].get("e", {}))
    ok = e.get("k") == "MethodCall" and e.get("name") == "or_else"
    first = hirq.unwrap_trivial(e.get("recv", {})) if ok else {}
    ok = ok and first.get("k") == "MethodCall" and first.get("name") == "position"
    second = [c.get("name") for c in hirq.calls(e["a"][0])] if ok else []
    ok = ok and "parent" in second and "join" in second and "position" in second
    run.ob("R6-PATH-RESOLUTION", "get_key_offset", ok, F.where(b),
           "exact path first, then relative to the includer's parent directory: %s" % second)


def r7_struct_namespace(run, F):
    """Named LLVM struct types live in the LLVM *context*, which all modules of a compilation share (functions and globals
    live in the per-module LLVMModule).  A private struct must therefore not be looked up or created under its bare source
    name: two modules that each declare a private `struct Foo` would share one LLVM type and re-set its body."""
    from rules import origins
    d = F.body("alpha::generator::declare")
    m = hirq.find_match(d, min_arms=3)
    arm = hirq.arm_for(m, "Declaration::Structure")
    run.require(arm, "Structure arm not found in generator::declare")
    body = arm[0]["body"]
    created = [c for c in hirq.calls(body) if (hirq.callee(c) or "").endswith("LLVMStructCreateNamed")]
    looked = [c for c in hirq.calls(body) if (hirq.callee(c) or "").endswith("LLVMGetTypeByName")]
    run.require(len(created) == 1, "Structure arm: expected one LLVMStructCreateNamed (found %d)" % len(created))
    o = origins.origins(d["hir"], created[0]["a"][1], d.get("params", ()))
    decorated = any(x[0] == "call" and any(w in x[1] for w in ("format", "push_str", "concat")) for x in o) or \
        any(x[0] == "lit" and isinstance(x[1], str) and x[1] for x in o)
    flags_seen = [hirq.short(p).split("::")[-1] for p, _ in hirq.constructs(body) if "DeclarationFlag::" in hirq.short(p)]
    guarded = "Public" in flags_seen
    # is the context per module?  Generator::add_module must then create a fresh context
    am = F.body("alpha::generator::Generator::add_module")
    fresh_ctx = any((hirq.callee(c) or "").endswith("LLVMContextCreate") for c in hirq.calls(am["hir"]))
    ok = decorated or guarded or fresh_ctx or not looked
    run.ob("R7-STRUCT-TYPE-NAMESPACE", "private structs of different modules", ok, F.where(d, created[0]),
           "struct types are created/looked up in the shared LLVM context under the bare source name (decorated per module: %s, reuse limited "
           "to pub structs: %s, fresh context per module: %s): same-named private structs of two modules collide" % (decorated, guarded, fresh_ctx))


def r8_exported_constant(run, F):
    """An imported constant must have the value it has in its own module.  The expander copies declarations before any
    name is resolved, so an exported constant whose initialiser mentions another name is re-evaluated in the importer's
    scope (a private constant of the same name in the importer is captured; without one the import fails with E402)."""
    b = F.body("alpha::expander::export")
    m = hirq.find_match(b, min_arms=4)
    arm = hirq.arm_for(m, "Declaration::Constant")
    run.require(arm, "Constant arm not found in expander::export")
    verbatim = False
    for p, node in hirq.constructs(arm[0]["body"]):
        if norm_path(p) == DECL + "::Constant" and node.get("k") == "Struct":
            for f in node["fields"]:
                if f["name"] == "value":
                    e = hirq.unwrap_trivial(f["e"])
                    verbatim = e.get("k") == "MethodCall" and e.get("name") == "clone" and hirq.local_name_of(hirq.unwrap_trivial(e["recv"])) == "value"
    # are names resolved before export?  scoper::analyze would have to run before expander::expand
    order = []
    for crate in (F.lib, F.bin):
        for bb in crate.bodies.values():
            if "hir" not in bb:
                continue
            cs = [(hirq.callee(c), c["l"]) for c in hirq.calls(bb["hir"]) if hirq.callee(c) in ("alpha::expander::expand", "alpha::expander::expand_one", "alpha::scoper::analyze")]
            if len(set(c for c, _ in cs)) >= 2:
                order.append((bb["npath"], [c.split("::")[-2] for c, _ in sorted(cs, key=lambda x: x[1])]))
    resolved_first = bool(order) and all(o[1][0] == "scoper" for o in order)
    run.ob("R8-EXPORTED-CONSTANT-CLOSED", "Constant.value", (not verbatim) or resolved_first, F.where(b, arm[0]),
           "the initialiser of an exported constant is copied verbatim (%s) before names are resolved (drivers: %s): it is evaluated "
           "again in the importing module's scope" % (verbatim, order))


def check(run):
    F = run.facts("B")
    r1_export(run, F)
    r2_expand(run, F)
    r3_compiler_reset(run, F)
    c03.r1_reset(run, F)
    # private items of different modules meet in one linked LLVM module: they stay apart only while they are private symbols
    c03.r2_linkage(run, F, linked_program=False)
    r6_key_offset(run, F)
    r7_struct_namespace(run, F)
    r8_exported_constant(run, F)
    # an imported `pub fn` reaches the importer as a FunctionHead: its parameter and return types are scoped like those of a
    # function, or a struct named in them is never resolved (the split program fails where the single file compiles) (C05.R7)
    from props import c05 as _c05
    _c05.r7_visit(run, F)
