"""C14 -- both lexers implement the same lexical grammar, with exact spans."""
from rules import hirq, mirq, lexq
from rules.core import walk, AnchorMissing

LEVEL = "other"
EXPLANATION = (
    "Sibling cross-check of the two lexers' decision tables, extracted from their type-checked HIR (cfg A): "
    "single- and double-character operator tables with their look-ahead characters, the keyword/type-keyword table "
    "(delta may additionally reserve `return`), integer suffix tables, escape tables per quote kind with the byte each "
    "simple escape denotes, identifier start/continuation classes, whitespace class, comment opener, builtin `!` rule and "
    "the catch-all error kind must agree (R1); span balance of the byte scanner: a path analysis over its MIR shows that on every "
    "path from the first byte of a token to buffer.push the advance of location.end equals the number of bytes consumed, and every "
    "inner loop is balanced (R2); line accounting of the byte scanner: line_number/start_of_line change only "
    "in the newline arm and no other consumption can swallow a newline (R3); payload agreement between token-producing "
    "arms and the consumers that unwrap payloads (R4); overflow-checked literal accumulation and E140 conditioned on value "
    "overflow (R5); digit evidence: whether a literal follows `0x`/`0b` is decided only from state updated by digit branches (R6). "
    "Equality of the two lexers on all strings and exact spans for every input are not decided."
    " ADDED LATER: R4-PAYLOAD-APPENDED: push_integer_payload appends on every Ok path and returns the length read before the append; R1-ESCAPES also compares the number of hex digits accepted in \\u{..}; the per-line offset bookkeeping of the first generation (C13.R4) is shared."
    " ROUNDS 5-6: R1-ESCAPES also: the literal digit-count interval of the unicode escape contains 1..=6; R7-DIGIT-TABLES: parse_hex_digit / parse_decimal_digit folded over all 256 bytes (rules/bytefn.py); R1-IDENT-CLASS by folding is_identifier_continuation over the code points 0..0x3FF; C09.R9 shared."
    " ROUND 8: R8-SUFFIX-START: in both digit arms of the second-generation scanner the start of the type suffix (the local handed to span_from) is only set to the current end of the token and never inside a digit/`_` loop whose `_` branch leaves it alone."
    " ROUND 9: R9-FIRST-ERROR-WINS: the per-literal error slot of the second-generation scanner is only filled under `slot.is_none()` (13 sites): the first defect of a quoted literal is the one reported, as by the first generation."
    " ROUND 10: R3-NEWLINE-CONSUME 'bytes are taken one at a time': only next / peek / next_if are applied to the second-generation scanner's byte iterator (a bulk skip can step over a line feed without the line accounting)."
    " ROUND 11: the suffix tables are read through one level of helper (a lookup function shared with the keyword table).")

REF_SUFFIXES = {"i8": "Int8", "i16": "Int16", "i32": "Int32", "i64": "Int64", "i128": "Int128",
                "u8": "Uint8", "u16": "Uint16", "u32": "Uint32", "u64": "Uint64", "u128": "Uint128", "usize": "Usize"}
PAYLOAD_KINDS = {"NakedDecimal", "BitInteger", "SuffixedInteger", "CharLiteral", "BoolLiteral"}


def ch(c):
    if c is None:
        return "<other>"
    if isinstance(c, int):
        return repr(chr(c))
    return str(c)


def r1_tables(run, F):
    A = lexq.LexTables(F, "alpha")
    D = lexq.LexTables(F, "delta")
    wa, wd = F.where(A.body), F.where(D.body)
    # single-character operators
    for c in sorted(set(A.single) | set(A.double) | set(D.single) | set(D.double)):
        a = A.single.get(c, A.double.get(c))
        d = D.single.get(c, D.double.get(c))
        if isinstance(a, dict) or isinstance(d, dict):
            a = a if isinstance(a, dict) else {None: a}
            d = d if isinstance(d, dict) else {None: d}
            for c2 in sorted(set(a) | set(d), key=lambda x: (x is None, x)):
                run.ob("R1-OPERATORS", "%s then %s" % (ch(c), ch(c2)), a.get(c2) == d.get(c2) and a.get(c2) not in (None, "?"),
                       "%s / %s" % (wa, wd), "alpha lexes %s%s as %s, delta as %s" % (ch(c), ch(c2), a.get(c2), d.get(c2)),
                       sample={"first": ch(c), "lookahead": ch(c2), "alpha": a.get(c2), "delta": d.get(c2)})
        else:
            run.ob("R1-OPERATORS", ch(c), a == d and a is not None and not str(a).startswith("?"), "%s / %s" % (wa, wd),
                   "alpha lexes %s as %s, delta as %s" % (ch(c), a, d), sample={"char": ch(c), "alpha": a, "delta": d})
    run.floor("R1-OPERATORS", 30)
    # keywords
    for sp in sorted(set(A.keywords) | set(D.keywords)):
        a, d = A.keywords.get(sp), D.keywords.get(sp)
        if a is None and sp == "return":
            run.ob("R1-KEYWORDS", sp, d == ("Return", None, None), wd, "`return` is reserved by the second generation only")
            continue
        run.ob("R1-KEYWORDS", sp, a == d and a is not None and a[0] is not None, "%s / %s" % (wa, wd),
               "keyword %r: alpha -> %s, delta -> %s" % (sp, a, d), sample={"spelling": sp, "alpha": a, "delta": d})
    run.floor("R1-KEYWORDS", 35)
    # suffixes
    sa, sd = lexq.suffix_table(F, "alpha"), lexq.suffix_table(F, "delta")
    for sp in sorted(set(sa) | set(sd) | set(REF_SUFFIXES)):
        run.ob("R1-SUFFIXES", sp, sa.get(sp) == sd.get(sp) == REF_SUFFIXES.get(sp), "%s / %s" % (wa, wd),
               "suffix %r: alpha %s, delta %s, documented %s" % (sp, sa.get(sp), sd.get(sp), REF_SUFFIXES.get(sp)))
    # escapes
    ea, ed = A.escape_tables(), D.escape_tables()
    for q in (34, 39):
        run.require(q in ea and q in ed, "quote arm %r missing" % chr(q))
        for c in sorted(set(ea[q]) | set(ed[q])):
            a, d = ea[q].get(c), ed[q].get(c)
            run.ob("R1-ESCAPES", "%s-literal \\%s" % ("string" if q == 34 else "char", chr(c)), a == d, "%s / %s" % (wa, wd),
                   "escape \\%s inside %s...%s: alpha %s, delta %s (None = rejected as E162)" % (chr(c), chr(q), chr(q), a, d),
                   sample={"quote": chr(q), "escape": chr(c), "alpha": a, "delta": d})
    run.floor("R1-ESCAPES", 16)
    # \u{...}: both lexers accept the same number of hex digits
    def unicode_digit_bounds(T, quote):
        arm = T.quote_arms.get(quote)
        ms = [m for m in hirq.matches(arm["body"]) if lexq.is_next(m["scrut"])] if arm else []
        if len(ms) != 1:
            return "?"
        for a in ms[0]["arms"]:
            if lexq.char_lits(a["pat"]) == [117]:
                ranges = []
                for n in walk(a["body"]):
                    if n.get("k") == "Call" and str(hirq.callee(n) or "").endswith("RangeInclusive::new"):
                        ranges.append(tuple(hirq.unwrap_trivial(x).get("v") for x in n["a"][:2]))
                    if n.get("k") == "Struct" and str(n.get("path", "")).endswith(("ops::Range", "ops::RangeInclusive")):
                        ranges.append(tuple(hirq.unwrap_trivial(f["e"]).get("v") for f in n["fields"]))
                    if n.get("k") == "Binary" and n.get("op") in ("Le", "Lt", "Gt", "Ge") and any(
                            x.get("k") == "MethodCall" and x.get("name") == "len" for x in walk(n)):
                        ranges.append((n["op"], hirq.unwrap_trivial(n["rhs"]).get("v")))
                ranges = [r for r in ranges if all(isinstance(x, (int, str)) and x is not None for x in r)]
                return sorted(set(ranges), key=str) or None
        return "no \\u arm"
    def unicode_digit_interval(T, quote):
        """(lo, hi) inclusive of the digit counts admitted by a literal range test in the \\u arm; None = no such test."""
        arm = T.quote_arms.get(quote)
        ms = [m for m in hirq.matches(arm["body"]) if lexq.is_next(m["scrut"])] if arm else []
        out = []
        for a in (ms[0]["arms"] if len(ms) == 1 else []):
            if lexq.char_lits(a["pat"]) != [117]:
                continue
            for n in walk(a["body"]):
                if n.get("k") == "Call" and str(hirq.callee(n) or "").endswith("RangeInclusive::new"):
                    lo, hi = [hirq.unwrap_trivial(x).get("v") for x in n["a"][:2]]
                    out.append((lo, hi))
                elif n.get("k") == "Struct" and str(n.get("path", "")).endswith("ops::RangeInclusive"):
                    lo, hi = [hirq.unwrap_trivial(f["e"]).get("v") for f in n["fields"]][:2]
                    out.append((lo, hi))
                elif n.get("k") == "Struct" and str(n.get("path", "")).endswith("ops::Range"):
                    lo, hi = [hirq.unwrap_trivial(f["e"]).get("v") for f in n["fields"]][:2]
                    out.append((lo, hi - 1 if isinstance(hi, int) else hi))
        return [(lo, hi) for lo, hi in out if isinstance(lo, int) and isinstance(hi, int)]   # location ranges have no literal bounds
    for q in (34, 39):
        for T, gen in ((A, "first"), (D, "second")):
            for lo, hi in unicode_digit_interval(T, q):
                run.ob("R1-ESCAPES", "%s-literal \\u{10FFFF} %s generation" % ("string" if q == 34 else "char", gen),
                       isinstance(lo, int) and isinstance(hi, int) and lo <= 1 and hi >= 6, F.where(T.body),
                       "the digit-count test of the \\u{..} escape admits %s..=%s digits; every Unicode scalar value up to U+10FFFF (six digits) and "
                       "`\\u{A}` (one digit) must be expressible, as they are for the other lexer" % (lo, hi))
    for q in (34, 39):
        ba, bd = unicode_digit_bounds(A, q), unicode_digit_bounds(D, q)
        if "no \\u arm" in (ba, bd):
            continue   # the missing arm itself is reported by the escape table comparison above
        run.ob("R1-ESCAPES", "%s-literal \\u digit count" % ("string" if q == 34 else "char"), ba == bd, "%s / %s" % (F.where(A.body), F.where(D.body)),
               "number of hex digits accepted in \\u{..}: first generation %s, second generation %s (None = unbounded: `\"\\u{0000041}\"` is 'A' for one "
               "lexer and E162 for the other)" % (ba, bd))
    # identifier classes
    ia, idd = lexq.ident_continuation(F, "alpha"), lexq.ident_continuation(F, "delta")
    run.ob("R1-IDENT-CLASS", "continuation", ia == idd and len(ia) == 4, "%s / %s" % (wa, wd),
           "identifier continuation classes: alpha %s, delta %s" % (sorted(map(str, ia)), sorted(map(str, idd))))
    run.ob("R1-IDENT-CLASS", "start", set(A.ident_start) == set(D.ident_start) and len(A.ident_start) == 3, "%s / %s" % (wa, wd),
           "identifier start classes: alpha %s, delta %s" % (A.ident_start, D.ident_start))
    # whitespace ('\n' never reaches the alpha line scanner)
    extra = (D.whitespace - {10}) - A.whitespace
    for c in sorted(D.whitespace | A.whitespace):
        if c == 10:
            continue
        run.ob("R1-WHITESPACE", ch(c), (c in A.whitespace) == (c in D.whitespace), "%s / %s" % (wa, wd),
               "byte %s is %s in alpha and %s in delta" % (ch(c), "whitespace" if c in A.whitespace else "an invalid character (E110) unless it precedes a newline",
                                                            "whitespace" if c in D.whitespace else "invalid"))
    # fallthrough
    fa = lexq.token_constructs(A.fallthrough["body"], "lexer::Error") if A.fallthrough else None
    fd = lexq.token_constructs(D.fallthrough["body"], "lexer::Error") if D.fallthrough else None
    run.ob("R1-FALLTHROUGH", "catch-all", fa == fd == ["UnexpectedCharacter"], "%s / %s" % (wa, wd),
           "any other character must be UnexpectedCharacter (E110): alpha %s delta %s" % (fa, fd))
    # builtin rule: catch-all keyword arm peeks for '!'
    for T in (A, D):
        arm = [a for a in T.keyword_match["arms"] if hirq.is_catchall(a["pat"])]
        ok = False
        if len(arm) == 1:
            toks = set(lexq.token_constructs(arm[0]["body"], T.enum))
            lits = lexq.char_lits(arm[0]["body"])
            ok = toks == {"Builtin", "Identifier"} and lits == [33]
        run.ob("R1-BUILTIN", T.which, ok, F.where(T.body, T.keyword_match),
               "a non-keyword identifier followed by `!` is a Builtin, otherwise an Identifier")
    # digit-run membership: same characters continue a numeric literal in both lexers ('_' separators)
    return A, D


def enclosing_arm_chars(D, node):
    for a in D.match["arms"]:
        for n in walk(a["body"]):
            if n is node:
                return lexq.pat_chars(a["pat"])
    return None


def r3_lines(run, F, D):
    b = D.body
    n = 0
    for node in walk(b["hir"]):
        tgt = None
        if node.get("k") == "AssignOp":
            tgt = hirq.local_name_of(node["lhs"])
        elif node.get("k") == "Assign":
            tgt = hirq.local_name_of(node["lhs"])
        if tgt in ("line_number", "start_of_line"):
            n += 1
            chars = enclosing_arm_chars(D, node)
            run.ob("R3-LINE-ACCOUNTING", "%s|arm %s" % (tgt, [ch(c) for c in (chars or [])]), chars == [10], F.where(b, node),
                   "%s may only change in the b'\\n' arm of the byte scanner" % tgt)
    run.require(n >= 2, "line accounting assignments not found")
    # inner consumption never swallows '\n' silently: next_if closures test `!= b'\n'`;
    # a `match iter.next()` with a catch-all Some arm can take the newline itself
    for node in walk(b["hir"]):
        if node.get("k") == "MethodCall" and node.get("name") == "next_if":
            cl = node["a"][0] if node["a"] else {}
            ok = False
            if cl.get("k") == "Closure":
                body = hirq.unwrap_trivial(cl["body"])
                if body.get("k") == "Binary" and body.get("op") == "Ne" and lexq.char_lits(body) == [10]:
                    ok = True
            run.ob("R3-NEXT-IF-NOT-NEWLINE", "next_if@%s" % [ch(c) for c in (enclosing_arm_chars(D, node) or [])], ok,
                   F.where(b, node), "string/char/comment loops must stop at a newline: next_if(|&(_, y)| y != b'\\n')")
    for m in hirq.matches(b["hir"]):
        if lexq.is_next(m["scrut"]) and hirq.unwrap_trivial(m["scrut"]).get("name") == "next_if":
            run.ob("R3-NEWLINE-CONSUME", "match iter.next_if()@%s" % [ch(c) for c in (enclosing_arm_chars(D, m) or [])], True,
                   F.where(b, m), "escape lookup stops at the newline (closure checked by R3-NEXT-IF-NOT-NEWLINE)")
        elif lexq.is_next(m["scrut"]):
            # arms: explicit chars, catch-all Some, None
            swallow = False
            for a in m["arms"]:
                p = hirq.strip_ref(a["pat"])
                if p.get("k") == "TupleStruct" and not lexq.char_lits(p):
                    swallow = True
            chars = enclosing_arm_chars(D, m)
            run.ob("R3-NEWLINE-CONSUME", "match iter.next()@%s" % [ch(c) for c in (chars or [])], not swallow, F.where(b, m),
                   "`match iter.next()` after a backslash takes whatever byte follows, including b'\\n': the newline is consumed "
                   "without `line_number += 1`, later tokens carry a line number one too small, and the error is E162 where the "
                   "first generation reports a trailing backslash (E163)")
    run.floor("R3-NEXT-IF-NOT-NEWLINE", 3)
    # the scanner takes bytes one at a time, and only through calls whose treatment of b'\n' the rules above decide (next at the head of
    # the loop or after a peek, next_if with a `!= b'\n'` closure); a bulk skip (nth, skip, advance_by, find, position, last, ..) can
    # step over a line feed without the line accounting of the b'\n' arm
    used = {}
    for c in hirq.calls(b["hir"]):
        if c.get("k") == "MethodCall":
            r = hirq.unwrap_trivial(c["recv"])
            t = str(F.lib.ty(r.get("t"))) if r.get("t") is not None else ""
            if "Peekable<" in t and "Enumerate<" in t:
                used.setdefault(c.get("name"), c)
    other = sorted(k for k in used if k not in ("next", "peek", "next_if", "next_if_eq", "peek_mut"))
    run.ob("R3-NEWLINE-CONSUME", "bytes are taken one at a time", bool(used) and not other, F.where(b, used[other[0]]) if other else F.where(b),
           "methods called on the scanner's byte iterator: %s; not reviewed (can consume a line feed unseen): %s" % (sorted(used), other))
    run.floor("R3-NEWLINE-CONSUME", 2)


def r4_payload(run, F, D):
    b = D.body
    # walk with ancestors
    n_sites = 0

    def rec(node, anc):
        nonlocal n_sites
        if isinstance(node, dict):
            k = node.get("k")
            if k == "Path" and (node.get("rk") or "").startswith("Ctor") and \
                    (node.get("res") or "").rsplit("::", 1)[0].endswith("lexer::BaseToken"):
                v = node["res"].split("::")[-1]
                if v in PAYLOAD_KINDS:
                    n_sites += 1
                    ok = False
                    for a in reversed(anc):
                        if a.get("k") == "Block":
                            for s in a.get("stmts", []):
                                if s.get("k") == "Assign" and "TokenPayload" in str(F.lib.ty(hirq.unwrap_trivial(s["lhs"]).get("t"))) and \
                                        s.get("l", 0) <= node.get("l", 0):
                                    cons = [hirq.short(p) for p, _ in hirq.constructs(s["rhs"])]
                                    if any(c.endswith("Some") for c in cons) and any(c == "TokenPayload::Integer" for c in cons):
                                        ok = True
                            if ok:
                                break
                    run.ob("R4-PAYLOAD-SET", "BaseToken::%s@%s" % (v, node.get("l") and "site"), ok, F.where(b, node),
                           "every arm producing BaseToken::%s must set payload = Some(TokenPayload::Integer(..)) first "
                           "(consumers unwrap() it)" % v)
            for c in list(_kids(node)):
                rec(c, anc + [node])

    def _kids(n):
        for key, v in n.items():
            if isinstance(v, dict):
                yield v
            elif isinstance(v, list):
                for x in v:
                    if isinstance(x, dict):
                        yield x
    rec(b["hir"], [])
    run.require(n_sites >= 7, "payload-producing sites not found (%d)" % n_sites)
    # consumer: Tokens::print_xml unwraps only for payload kinds
    px = F.body("delta::lexer::tokens::Tokens::print_xml")
    m = None
    for mm in hirq.matches(px["hir"]):
        if str(F.lib.ty(hirq.unwrap_trivial(mm["scrut"]).get("t"))).endswith("BaseToken") and hirq.n_alts(mm) >= 5:
            m = mm
    run.require(m is not None, "the match over the BaseToken was not found in Tokens::print_xml")
    for a in m["arms"]:
        unwraps = [c for c in hirq.calls(a["body"]) if (hirq.callee(c) or "").endswith("Option::unwrap")]
        if unwraps:
            kinds = set(hirq.pat_key(x).split("::")[-1] for x in hirq.pat_alts(a["pat"]))
            run.ob("R4-PAYLOAD-UNWRAP", "Tokens::print_xml|%s" % ",".join(sorted(kinds)), kinds <= PAYLOAD_KINDS,
                   F.where(px, a), "get_integer_payload(..).unwrap() is only safe for %s" % sorted(PAYLOAD_KINDS))
    run.floor("R4-PAYLOAD-UNWRAP", 2)


def r5_accumulate(run, F, D):
    b = D.body
    T = F.lib.types
    n = 0
    for node in walk(b["hir"]):
        k = node.get("k")
        if k in ("AssignOp", "Binary") and node.get("op") in ("Add", "AddAssign", "Mul", "MulAssign", "Sub", "SubAssign"):
            lt = T[node["lhs"]["t"]] if "t" in node.get("lhs", {}) else None
            if lt == "u128":
                n += 1
                run.ob("R5-CHECKED-ACCUMULATION", "%s u128@arm %s" % (node["op"], [ch(c) for c in (enclosing_arm_chars(D, node) or [])]),
                       False, F.where(b, node),
                       "unchecked %s on the u128 literal accumulator: overflows (panic in debug, wrap in release) instead of E140" % node["op"])
    # positive obligation: the checked_* calls exist in the decimal and hex arms
    chk = {}
    for c in hirq.calls(b["hir"]):
        cn = hirq.callee(c) or ""
        if cn.startswith("core::num::checked_"):
            chars = enclosing_arm_chars(D, c)
            chk.setdefault(str([ch(x) for x in (chars or [])]), []).append(cn.split("::")[-1])
    dec = [v for k, v in chk.items() if "'1'" in k or "('1'" in k or "(49, 57)" in k]
    decimal_ops = sorted(sum([v for k, v in chk.items() if "(49, 57)" in k], []))
    run.ob("R5-CHECKED-ACCUMULATION", "decimal arm uses checked_mul+checked_add", decimal_ops == ["checked_add", "checked_mul"],
           F.where(b), "decimal accumulation must be `value.checked_mul(10)` then `checked_add(digit)`: found %s" % decimal_ops,
           sample=chk)
    # E140 must be conditioned on overflow, not on a digit count.  Locals by role, not by name: an *overflow flag* is a bool
    # local set to true inside a match/if over the result of a checked_* call; a *counter* is a local that is only ever
    # incremented by one
    overflow_flags, counters = set(), set()
    for m in walk(b["hir"]):
        if m.get("k") in ("Match", "If"):
            head = m.get("scrut") if m.get("k") == "Match" else m.get("cond")
            if head is not None and any((hirq.callee(c) or "").startswith("core::num::checked_") for c in hirq.calls(head)):
                for x in walk(m):
                    if x.get("k") == "Assign" and hirq.unwrap_trivial(x["rhs"]).get("v") is True:
                        l = hirq.unwrap_trivial(x["lhs"])
                        if l.get("k") == "Path" and l.get("rk") == "Local":
                            overflow_flags.add(l.get("lid"))
    for x in walk(b["hir"]):
        if x.get("k") == "AssignOp" and x.get("op") in ("Add", "AddAssign") and hirq.unwrap_trivial(x["rhs"]).get("v") == 1:
            l = hirq.unwrap_trivial(x["lhs"])
            if l.get("k") == "Path" and l.get("rk") == "Local":
                counters.add(l.get("lid"))

    def role(e):
        e = hirq.unwrap_trivial(e)
        if e.get("k") == "Path" and e.get("rk") == "Local":
            return "<overflow flag>" if e.get("lid") in overflow_flags else "<counter>" if e.get("lid") in counters else "<local>"
        return e.get("k")
    for node in walk(b["hir"]):
        if node.get("k") == "If":
            direct = hirq.unwrap_trivial(node["then"])
            then_cons = [hirq.short(p) for p, _ in hirq.constructs(direct)] if direct.get("k") == "Call" else []
            if any(c.endswith("InvalidIntegerLength") for c in then_cons):
                cond = hirq.unwrap_trivial(node["cond"])
                if cond.get("k") == "Unary" and cond.get("op") == "Not":
                    continue
                desc = role(cond) if cond.get("k") == "Path" else "%s %s" % (cond.get("k"), cond.get("op"))
                if cond.get("k") == "Binary":
                    desc = "%s %s %s" % (role(cond["lhs"]), cond["op"], hirq.unwrap_trivial(cond["rhs"]).get("v"))
                run.ob("R5-E140-CONDITION", "if %s" % desc, desc == "<overflow flag>", F.where(b, node),
                       "E140 (InvalidIntegerLength) must be raised when the value does not fit 128 bits; `%s` rejects by digit count, "
                       "so 0b literals with leading zeros beyond 128 digits are rejected here but accepted by the first generation" % desc)
        if node.get("k") == "If" and "else" in node:
            else_cons = [hirq.short(p) for p, _ in hirq.constructs(node["else"]) ]
            cond = hirq.unwrap_trivial(node["cond"])
            if cond.get("k") == "Unary" and cond.get("op") == "Not" and role(cond["e"]) == "<overflow flag>":
                # `if !has_overflowed { Ok } else { Err(InvalidIntegerLength) }`
                inner = node["else"]
                ic = [hirq.short(p) for p, _ in hirq.constructs(inner)]
                if any(c.endswith("InvalidIntegerLength") for c in ic):
                    run.ob("R5-E140-CONDITION", "if !<overflow flag> .. else", True, F.where(b, node), "conditioned on overflow flag")
    run.floor("R5-E140-CONDITION", 3)


def r4b_payload_table(run, F):
    """Every value-carrying token owns the payload entry it was given: push_integer_payload appends on every path that
    returns Ok, and the id it returns is the length of the table before that append (id 0 is the `no payload` sentinel
    that Tokens::empty puts at index 0, so handing out an existing index can alias it)."""
    cands = [x for p, x in F.lib.bodies.items() if p.endswith("TokensBuffer::push_integer_payload")]
    run.require(len(cands) == 1, "TokensBuffer::push_integer_payload not found")
    b = cands[0]
    cfg = mirq.CFG(b)
    dom = cfg.dom()
    pushes = [u for u, t in cfg.calls() if (mirq.call_target(t) or "").endswith("Vec::push")]
    oks = []
    ids = []
    for i in sorted(cfg.reach):
        for st in cfg.blocks[i]["s"]:
            r = st["r"]
            if r.get("k") == "Agg" and str(r.get("adt", "")).endswith("result::Result") and r.get("variant") == "Ok" and st["d"] == 0:
                oks.append(i)
            if r.get("k") == "Agg" and str(r.get("adt", "")).endswith("PayloadId"):
                ids.append(i)
    ok = bool(oks) and len(pushes) == 1 and all(pushes[0] in dom[o] and pushes[0] != o or pushes[0] in dom[o] for o in oks)
    run.ob("R4-PAYLOAD-APPENDED", "push_integer_payload", ok and len(ids) == 1, F.where(b),
           "every Ok return is dominated by integer_payloads.push(payload) and there is one PayloadId construction: "
           "Ok blocks %s, push blocks %s, PayloadId blocks %s" % (oks, pushes, ids))
    lens = [u for u, t in cfg.calls() if (mirq.call_target(t) or "").endswith("Vec::len")]
    ok2 = len(lens) == 1 and len(pushes) == 1 and lens[0] in dom[pushes[0]] and all(lens[0] in dom[i] for i in ids)
    du = mirq.DefUse(cfg)
    src_ok = False
    for i in ids:
        for st in cfg.blocks[i]["s"]:
            if st["r"].get("k") == "Agg" and str(st["r"].get("adt", "")).endswith("PayloadId"):
                srcs = du.sources(st["r"]["ops"][0])
                src_ok = any(k == "call" and (mirq.call_target(x) or "").endswith("Vec::len") for k, x in srcs)
    run.ob("R4-PAYLOAD-APPENDED", "id = len before push", ok2 and src_ok, F.where(b),
           "the returned id is integer_payloads.len() read before the append (sources of the id: len() call %s)" % src_ok)


def check(run):
    F = run.facts("A")
    A, D = r1_tables(run, F)
    r2_span_balance(run, F)
    r3_lines(run, F, D)
    r4_payload(run, F, D)
    r4b_payload_table(run, F)
    r5_accumulate(run, F, D)
    r6_digit_evidence(run, F, D)
    r7_digit_tables(run, F)
    r8_suffix_start(run, F, D)
    r9_first_error_wins(run, F, D)
    # the first generation's counterpart of R6-DIGIT-EVIDENCE: `0x` / `0b` without a digit is E141 for both lexers
    from props import c09
    c09.r9_radix_needs_digit(run, F, A)
    # exact spans of the first generation: the per-line offset bookkeeping in lex() (shared with C13.R4 / R5)
    from props import c13
    c13.r4_lines(run, F)
    run.assume("alpha never sees '\\n' or a '\\r' directly before it: str::lines() strips them (C13.R4 checks the offset bookkeeping)")


DIGIT_FNS = {
    # classifier                                   radix  call sites in the scanner, counted by hand
    "delta::lexer::digits::parse_hex_digit":      (16, 4),   # 0x literal, \\x in char, \\x in string, \\u{..}
    "delta::lexer::digits::parse_decimal_digit":  (10, 2),   # first digit, following digits
}


def r8_suffix_start(run, F, D):
    """The type suffix of an integer literal is what follows the *whole* run of digits and `_` separators (`40_i32` is 40 with
    suffix `i32` for both lexers).  In each digit arm of the scanner the local handed to `span_from` (the start of the suffix)
    is only ever set to the current end of the token, and never inside a scanning loop whose `_` branch does not set it too --
    otherwise separators after the last digit would be read as part of the suffix (E141)."""
    b = D.body
    n = 0
    for label, arm in sorted(D.digit_arms.items()):
        sf = [c for c in hirq.calls(arm["body"]) if c.get("k") == "MethodCall" and c.get("name") == "span_from"]
        run.require(len(sf) >= 1, "digit arm %s: no span_from call" % label)
        lids = set()
        for c in sf:
            a = hirq.unwrap_trivial(c["a"][0]) if c.get("a") else {}
            if a.get("k") == "Path" and a.get("rk") == "Local":
                lids.add(a["lid"])
        run.require(len(lids) == 1, "digit arm %s: the argument of span_from is not one local (%s)" % (label, lids))
        lid = list(lids)[0]
        # every definition is `<location>.end`
        defs = []
        for x in walk(arm["body"]):
            if x.get("k") == "Let" and hirq.strip_ref(x["pat"]).get("lid") == lid and isinstance(x.get("init"), dict):
                defs.append((x, x["init"]))
            elif x.get("k") == "Assign" and hirq.unwrap_trivial(x["lhs"]).get("lid") == lid:
                defs.append((x, x["rhs"]))
        run.require(defs, "digit arm %s: no definition of the suffix start" % label)
        for d, rhs in defs:
            r = hirq.unwrap_trivial(rhs)
            ok = r.get("k") == "Field" and r.get("name") == "end"
            n += 1
            run.ob("R8-SUFFIX-START", "%s arm: definition %d is the current end of the token" % (label, defs.index((d, rhs))), ok, F.where(b, d),
                   "the start of the suffix is set to `location.end`, nothing computed")
        # loops with a `_` separator branch
        for lp in [x for x in walk(arm["body"]) if x.get("k") == "Loop"]:
            under = []
            for x in walk(lp):
                if x.get("k") == "If":
                    c = hirq.unwrap_trivial(x["cond"])
                    if c.get("k") == "Binary" and c.get("op") == "Eq" and lexq.char_lits(c) == [95]:
                        under.append(x["then"])
            if not under:
                continue
            inside = [d for d, _ in defs if any(y is d for y in walk(lp))]
            sep_sets = all(any(y is d for d in inside for y in walk(u)) for u in under)
            n += 1
            run.ob("R8-SUFFIX-START", "%s arm: loop at line order %d" % (label, [id(x) for x in walk(arm["body"]) if x.get("k") == "Loop"].index(id(lp))),
                   (not inside) or sep_sets, F.where(b, inside[0] if inside else lp),
                   "inside the loop that consumes digits and `_` separators the start of the suffix is set in a digit branch but not in the `_` branch: "
                   "`40_i32` would have the suffix `_i32` (E141) while the first generation reads 40i32")
    run.floor("R8-SUFFIX-START", 6, "definitions and scanning loops in the two digit arms")


def r9_first_error_wins(run, F, D):
    """A quoted literal with several defects is one Error token carrying the *first* defect (both lexers: the first-generation one
    stops looking after its first error).  In the second-generation scanner the per-literal slot for the error (an
    `Option<(error, location)>` local that starts as None) is only ever filled under the test that it is still empty."""
    b = D.body
    slots = {}
    for n in walk(b["hir"]):
        if n.get("k") == "Let" and hirq.strip_ref(n["pat"]).get("k") == "Bind" and isinstance(n.get("init"), dict):
            p = hirq.strip_ref(n["pat"])
            t = str(F.lib.types[p["t"]]) if p.get("t") is not None else ""
            init = hirq.unwrap_trivial(n["init"])
            if t.startswith("std::option::Option<(") and "TokenLocation" in t and init.get("k") == "Path" and str(init.get("res", "")).endswith("None"):
                slots[p["lid"]] = n.get("l")
    run.require(len(slots) >= 2, "the per-literal error slots of the scanner were not found (%d)" % len(slots))
    found = []

    def visit(n, anc):
        if n.get("k") == "Assign" and hirq.unwrap_trivial(n["lhs"]).get("lid") in slots:
            lid = hirq.unwrap_trivial(n["lhs"])["lid"]
            guarded = False
            for a, slot in reversed(anc):
                if a.get("k") == "If" and slot == "then":
                    cond0 = hirq.unwrap_trivial(a["cond"])
                    if cond0.get("k") in ("LetExpr", "Let") and str(hirq.strip_ref(cond0.get("pat", {})).get("res", "")).endswith("None") and \
                            hirq.unwrap_trivial(cond0.get("init", {})).get("lid") == lid:
                        guarded = True       # `if let None = slot`
                        break
                    for c in walk(a["cond"]):
                        if c.get("k") == "MethodCall" and c.get("name") == "is_none" and hirq.unwrap_trivial(c["recv"]).get("lid") == lid:
                            # the test itself, or a conjunction that contains it (not under a negation or a disjunction)
                            guarded = not any(x.get("k") == "Binary" and x.get("op") == "Or" for x in walk(a["cond"])) and \
                                not any(x.get("k") == "Unary" and x.get("op") == "Not" and any(y is c for y in walk(x)) for x in walk(a["cond"]))
                    if guarded:
                        break
            found.append((n, guarded))
        for slot, c in hirq._children(n):
            anc.append((n, slot))
            visit(c, anc)
            anc.pop()
    visit(b["hir"], [])
    for i, (n, guarded) in enumerate(sorted(found, key=lambda x: x[0].get("l", 0))):
        run.ob("R9-FIRST-ERROR-WINS", "assignment %d" % i, guarded, F.where(b, n),
               "the error of a quoted literal is recorded only while none has been recorded (`if slot.is_none()`): a later defect must not replace the first, "
               "which is the one the first-generation lexer reports")
    run.floor("R9-FIRST-ERROR-WINS", 10, "places where the scanner records the error of a quoted literal (13 counted)")


def r7_digit_tables(run, F):
    """The byte classifiers shared by every digit consumer of the second-generation scanner, as tables over all 256
    bytes (rules/bytefn.py folds their definition; nothing runs): exactly the digits of the radix, each with its value.
    A byte wrongly classified as a digit is swallowed by the literal or escape and is never reported (E110/E141/E162);
    a wrong value is a wrong payload."""
    from rules import bytefn
    scanner = F.body("delta::lexer::lex_source_into_buffer")
    for path, (radix, sites) in sorted(DIGIT_FNS.items()):
        run.require(F.has_body(path), "%s not found" % path)
        b = F.body(path)
        t = bytefn.table(b)
        bad = []
        for x in range(256):
            c = chr(x)
            try:
                want = ("Some", int(c, radix)) if c.isascii() and c.isalnum() else "None"
            except ValueError:
                want = "None"
            if t[x] != want:
                bad.append((x, t[x], want))
        run.ob("R7-DIGIT-TABLES", path.split("::")[-1], not bad, F.where(b),
               "%s must map exactly the radix-%d digits to their values and every other byte to None; differs for %s" % (
                   path.split("::")[-1], radix, ", ".join("byte 0x%02X -> %s (expected %s)" % z for z in bad[:6]) or "nothing"),
               sample={"function": path, "differences": [list(map(str, z)) for z in bad[:20]]})
        n = sum(1 for x in walk(scanner["hir"]) if x.get("k") == "Call" and hirq.callee(x) == path)
        run.ob("R7-DIGIT-TABLES", "%s call sites" % path.split("::")[-1], n >= sites, F.where(scanner),
               "the scanner classifies digits through %s at %d sites (%d counted when the rule was written); a site that classifies bytes "
               "by its own test is outside the table" % (path.split("::")[-1], n, sites))


# ---------------------------------------------------------------------------
# R2: span balance of the byte scanner (path analysis on MIR)

def r2_span_balance(run, F):
    """Within one iteration of the scanning loop, on every path from the creation of `location`
    (end = i + 1, one byte consumed) to `buffer.push(.., location)`, the number of further bytes
    consumed equals the amount added to `location.end`."""
    b = F.body(lexq.DELTA_LEX)
    cfg = mirq.CFG(b)
    du = mirq.DefUse(cfg)
    # the token's location local: aggregate TokenLocation assigned to a user variable named `location`
    loc_local = None
    start = None
    for i in sorted(cfg.reach):
        for s in cfg.blocks[i]["s"]:
            r = s["r"]
            if r.get("k") == "Agg" and r.get("adt", "").endswith("TokenLocation") and isinstance(s["d"], int) and \
                    cfg.mir["locals"][s["d"]].get("name") == "location":
                loc_local, start = s["d"], i
    run.require(loc_local is not None, "`location` aggregate not found in the delta lexer")

    def end_delta(stmt):
        fp = mirq.field_proj(stmt["d"])
        if not (isinstance(stmt["d"], dict) and stmt["d"].get("l") == loc_local and fp and fp[-1][0] == "end" and len(fp) == 1):
            return None
        src = mirq.op_place(stmt["r"].get("a", {})) if stmt["r"].get("k") == "Use" else None
        if isinstance(src, dict) and src.get("p") and src["p"][0][0] == "f" and src["p"][0][1] == "0":
            for kind, bi, sj, rv in du.defs.get(src["l"], []):
                if kind == "stmt" and rv.get("k") == "Bin" and rv["op"] in ("AddWithOverflow", "SubWithOverflow"):
                    a = mirq.op_place(rv["a"])
                    c = mirq.op_const(rv["b"])
                    fa = mirq.field_proj(a) if a is not None else []
                    if isinstance(a, dict) and a.get("l") == loc_local and fa and fa[-1][0] == "end" and isinstance(c, int):
                        return c if rv["op"] == "AddWithOverflow" else -c
        return "unknown"
    edges = []
    unknown = []
    consumers = ("<std::iter::Peekable<I> as std::iter::Iterator>::next", "std::iter::Peekable::next_if")
    for u in sorted(cfg.reach):
        w = 0
        for s in cfg.blocks[u]["s"]:
            d = end_delta(s)
            if d == "unknown":
                unknown.append(s.get("l"))
            elif d is not None:
                w += d
        t = cfg.term(u)
        extra = {}
        if t["k"] == "Call" and mirq.call_target(t) in consumers:
            sw = mirq.enum_switch_after_call(cfg, u)
            if sw is not None and 1 in sw[0]:
                extra_edge = (t["to"], sw[0][1])
                edges.append(("some", extra_edge))
            else:
                w -= 1   # result discarded: follows a successful peek()
        for v in cfg.succ[u]:
            edges.append((u, v, w))
    some_edges = set(e[1] for e in edges if e[0] == "some")
    E = []
    for e in edges:
        if e[0] == "some":
            continue
        u, v, w = e
        if (u, v) in some_edges:
            w -= 1
        if v == start:
            continue   # next iteration: a new location
        E.append((u, v, w))
    run.ob("R2-SPAN-BALANCE", "all updates of location.end are +=/-= constants", not unknown, F.where(b),
           "location.end is modified in a way the analysis cannot follow at lines %s" % unknown[:5])
    pushes = [i for i, t in cfg.calls() if mirq.call_target(t) == "delta::lexer::tokens::TokensBuffer::push"]
    run.require(len(pushes) == 1, "expected one buffer.push call in the scanner (%d)" % len(pushes))
    # only blocks from which buffer.push is still reachable within this iteration matter
    rev = {}
    for u, v, w in E:
        rev.setdefault(v, []).append(u)
    co = set()
    st = [pushes[0]]
    while st:
        x = st.pop()
        if x in co:
            continue
        co.add(x)
        st.extend(rev.get(x, []))
    E = [(u, v, w) for u, v, w in E if u in co and v in co]
    n = len(cfg.reach)
    for mode, better in (("max", lambda a, c: a > c), ("min", lambda a, c: a < c)):
        dist = {start: 0}
        parent = {}
        changed_edge = None
        for _ in range(n + 2):
            changed_edge = None
            for u, v, w in E:
                if u in dist:
                    nd = dist[u] + w
                    if v not in dist or better(nd, dist[v]):
                        dist[v] = nd
                        parent[v] = u
                        changed_edge = (u, v)
            if changed_edge is None:
                break
        if changed_edge is not None:
            v = changed_edge[1]
            for _ in range(n):
                v = parent[v]
            cyc = [v]
            x = parent[v]
            while x != v and len(cyc) <= n:
                cyc.append(x)
                x = parent[x]
            lines = sorted(set(cfg.term(x)["l"] for x in cyc))
            run.ob("R2-SPAN-BALANCE", "loop %s" % mode, False, "%s:%s" % (F.rel(b["file"]), lines[:6]),
                   "an inner scanning loop consumes bytes and advances location.end by different amounts per iteration (lines %s): the token's span "
                   "no longer covers exactly its bytes" % lines[:8], sample={"cycle_lines": lines[:12]})
            continue
        val = dist.get(pushes[0])
        path = []
        x = pushes[0]
        g = 0
        while x in parent and g < 400:
            path.append(cfg.term(parent[x])["l"])
            x = parent[x]
            g += 1
        run.ob("R2-SPAN-BALANCE", "%s over paths to buffer.push" % mode, val == 0, F.where(b, cfg.term(pushes[0])),
               "%s over all paths of (location.end advance - bytes consumed) from the first byte of a token to buffer.push is %s; it must be 0 "
               "so that every token's span covers exactly the bytes consumed for it" % (mode, val),
               sample={"mode": mode, "value": val, "witness_lines": sorted(set(path))[:20]})
    run.note_analysed("R2 blocks", n)
    run.note_analysed("R2 weighted edges", len(E))
    run.assume("R2: a bare `iter.next();` follows a successful `iter.peek()` and therefore consumes exactly one byte; all CFG paths are treated as feasible")


# ---------------------------------------------------------------------------
# R6: digit evidence in radix-prefixed literals

def _assigned_locals(node):
    out = set()
    for n in walk(node):
        if n.get("k") in ("Assign", "AssignOp"):
            l = hirq.unwrap_trivial(n["lhs"])
            while l.get("k") == "Field":
                l = hirq.unwrap_trivial(l["e"])
            if l.get("k") == "Path" and l.get("rk") == "Local":
                out.add((l["lid"], l.get("res")))
    return out


def _read_locals(node):
    out = set()
    for n in walk(node):
        if n.get("k") == "Path" and n.get("rk") == "Local":
            out.add((n["lid"], n.get("res")))
    return out


def r6_digit_evidence(run, F, D):
    """`0x` / `0b` followed by no digit is not a literal (the letter belongs to the suffix, E141). Whether a literal
    is present must therefore be decided from state that only the digit branches of the scanning loop update, never
    from state that the `_` separator branch also updates (e.g. the span end)."""
    b = D.body
    arm = D.digit_arms.get("0")
    run.require(arm is not None, "b'0' arm not found")
    n = 0
    for pm in hirq.matches(arm["body"]):
        if not lexq.is_peek(pm["scrut"]):
            continue
        for a in pm["arms"]:
            cl = lexq.char_lits(a["pat"])
            if len(cl) != 1 or cl[0] not in (120, 98):
                continue
            body = a["body"]
            if body.get("k") != "Block":
                continue
            seq = list(body.get("stmts", [])) + ([body["e"]] if "e" in body else [])
            loops = [s for s in seq if s.get("k") == "Loop" or (s.get("k") == "Match" and False)]
            loop = None
            for s in seq:
                for x in walk(s):
                    if x.get("k") == "Loop":
                        loop = x
                        break
                if loop is not None:
                    loop_stmt = s
                    break
            if loop is None:
                continue
            under = []
            for x in walk(loop):
                if x.get("k") == "If":
                    c = hirq.unwrap_trivial(x["cond"])
                    if c.get("k") == "Binary" and c.get("op") == "Eq" and lexq.char_lits(c) == [95]:
                        under.append(x["then"])
            if not under:
                continue
            sep_assigned = set()
            for u in under:
                sep_assigned |= _assigned_locals(u)
            after = seq[seq.index(loop_stmt) + 1:]
            decision_reads = set()
            for s in after:
                x = s
                while x is not None and x.get("k") == "If":
                    decision_reads |= _read_locals(x["cond"])
                    x = hirq.unwrap_trivial(x["else"]) if "else" in x else None
            n += 1
            bad = sorted(name for lid, name in decision_reads & sep_assigned)
            run.ob("R6-DIGIT-EVIDENCE", "0%s literal" % chr(cl[0]), not bad, F.where(b, a),
                   "whether a literal follows `0%s` is decided from %s, which the `_` separator branch also updates: `0%s_` would lex as "
                   "the literal 0 instead of an invalid suffix (E141), unlike the first generation" % (chr(cl[0]), bad, chr(cl[0])),
                   sample={"decision_reads": sorted(nm for _, nm in decision_reads), "updated_by_separator_branch": sorted(nm for _, nm in sep_assigned)})
    run.require(n == 2, "radix sub-arms (x, b) not analysed (%d)" % n)
