"""C08 -- only vars and explicitly passed pointers can be mutated."""
from rules import hirq, mirq, flagstate, visit, origins
from rules.core import walk, norm_path, AnchorMissing

LEVEL = "other"
EXPLANATION = (
    "Static analysis of the mutability and copy analyzers (cfg B). Decided: R1 mutability bits: parameters and "
    "constants are declared immutable (`false || is_error`), structure members mutable, local declarations mutable "
    "unless their type is a slice, slice pointer or view; R2 needs_outer_mutability returns false exactly when the "
    "reference passes through a pointer (Autoderef, Autodeslice{ArrayByPointer}); R3 Statement::Assignment is rebuilt "
    "only on the Ok edge of use_variable(base, needs_outer_mutability(..)), Expression::Deref only after "
    "use_variable(base, address_depth > 0 && needs_outer_mutability(..)), use_variable reports NotMutable exactly for "
    "`is_mutated && !is_mutable`; R4 copy discipline: the three CannotCopy* errors are built exactly under "
    "`!is_immediate_function_argument` for the array/slice/struct type groups, and an interprocedural typestate over "
    "that flag shows it is true exactly when an argument expression of a call is entered and false whenever a statement "
    "value, comparison operand, array element, binary/unary operand, index or return value is entered; R5 the "
    "missing-address hint table and codes 513, 530-533, 538. Non-interference over all call graphs is not decided."
    " ADDED LATER: R3-BASE-DECIDES: the mutability bit consulted for an assignment or an address-of is the one of the base of the reference (def-use); R6 the mutability analyzer visits every expression (T2); the coercion relation of C07.R5 is shared (what may silently become a pointer)."
    " ROUNDS 5-6: R7-DESLICE-TAG: ArrayByView only under a test for Slice, ArrayByPointer only under SlicePointer, at every construction site of the typer."
    " ROUND 9: C10.R10-PASS-KEEPS-NODE is shared for the constness and mutability passes, with its struct mode: a struct impl rebuilds the node on every path or on none (the mutability pass relies on the constness pass rejecting every address-of inside a constant)."
    " ROUND 10: C07.R7-CALL-ANALYZER-VISITS is shared: E512/E513 and E531-E533 are raised only where the call analyzer looks.")

MU = "alpha::analyzer::mutability::"
FC = "alpha::analyzer::function_calls::"


def second_arg_summary(call, env=None):
    return hirq.summarize_bool(call["a"][1], env) if len(call.get("a", [])) > 1 else None


POISONED = "(false || {self.value_type.is_err()})"    # canonical (hirq.full_env): immutable unless the declared type is poisoned


def r1_bits(run, F):
    spec = {
        "<alpha::common::Parameter as alpha::analyzer::mutability::Analyzable>::analyze": POISONED,
        "<alpha::common::Member as alpha::analyzer::mutability::Analyzable>::analyze": "true",
    }
    for fn, want in spec.items():
        b = F.body(fn)
        cs = [c for c in hirq.calls(b["hir"]) if hirq.callee(c) == MU + "Analyzer::declare_variable"]
        got = [second_arg_summary(c, hirq.full_env(b)) for c in cs]
        run.ob("R1-MUTABILITY-BITS", fn.split(" as ")[0].split("::")[-1], got == [want], F.where(b),
               "declare_variable(.., %s) expected, found %s" % (want, got))
    d = F.body("<alpha::common::Declaration as alpha::analyzer::mutability::Analyzable>::analyze")
    m = [x for x in hirq.matches(d["hir"]) if hirq.n_alts(x) >= 5][0]
    carm = hirq.arm_for(m, "Declaration::Constant")
    denv = hirq.full_env(d)
    cs = [second_arg_summary(c, denv) for c in hirq.calls(carm[0]["body"]) if hirq.callee(c) == MU + "Analyzer::declare_variable"] if carm else []
    run.ob("R1-MUTABILITY-BITS", "Constant", cs == [POISONED], F.where(d), "constants are immutable (mutability is only faked for poisoned types): %s" % cs)
    st = F.body("<alpha::common::Statement as alpha::analyzer::mutability::Analyzable>::analyze")
    sm = [x for x in hirq.matches(st["hir"]) if hirq.n_alts(x) >= 8][0]
    darm = hirq.arm_for(sm, "Statement::Declaration")
    run.require(darm, "Statement::Declaration arm not found")
    senv = hirq.full_env(st)
    tm = [x for x in hirq.matches(darm[0]["body"]) if hirq.canon_of(x["scrut"], senv) == "self.value_type"]
    rows = []
    if tm:
        for k, g, o in hirq.nested_table(tm[0]):
            rows.append(("/".join(k), o))
    want = [("v1::Some/v1::Ok/ValueType::Slice" if False else None, None)]
    got = {}
    if tm:
        for a in tm[0]["arms"]:
            vts = [hirq.pat_key(x).split("::")[-1] for x in walk(a["pat"]) if x.get("k") in ("Struct", "Path", "TupleStruct") and "ValueType::" in hirq.pat_key(x)]
            key = vts[0] if vts else ("Err" if any((x.get("res") or "").endswith("Err") for x in walk(a["pat"])) else
                                      ("None" if (hirq.pat_res(a["pat"]) or "").endswith("None") else "other"))
            got[key] = hirq.summarize_bool(a["body"])
    ref = {"Slice": "false", "SlicePointer": "false", "View": "false", "other": "true", "Err": "true", "None": "true"}
    run.ob("R1-MUTABILITY-BITS", "Statement::Declaration table", got == ref, F.where(st, darm[0]),
           "local variables are mutable unless they are slices, slice pointers or views: %s" % got, sample=got)
    cs = [c for c in hirq.calls(darm[0]["body"]) if hirq.callee(c) == MU + "Analyzer::declare_variable"]
    # ... and the bit handed to declare_variable is the value of that match (directly or through a local)
    from rules import origins as _or
    uses = False
    if len(cs) == 1 and tm:
        a1 = hirq.unwrap_trivial(cs[0]["a"][1])
        defs = _or.definitions(st["hir"], st.get("params", ()))
        srcs = [a1] + [src for src, _ in defs.get(a1.get("lid"), []) if src is not None] if a1.get("k") == "Path" else [a1]
        uses = any(hirq.unwrap_trivial(x) is tm[0] for x in srcs)
    run.ob("R1-MUTABILITY-BITS", "Statement::Declaration uses the table", uses, F.where(st), "declare_variable(&name, <value of the table>)")


def r2_outer(run, F):
    b = F.body(MU + "needs_outer_mutability")
    m = hirq.find_match(b, min_arms=4)
    rows = {}
    for k, g, o in hirq.nested_table(m):
        key = "/".join(x.split("::")[-1] for x in k)
        rows[key] = o
    falses = sorted(k for k, o in rows.items() if o not in ("Tup", "()"))
    rets = []
    for a in m["arms"]:
        for n in walk(a["body"]):
            if n.get("k") == "Ret":
                pk = hirq.pat_key(a["pat"]).split("::")[-1]
                inner = None
                for mm in hirq.matches(a["body"]):
                    for ia in mm["arms"]:
                        if any(x is n for x in walk(ia["body"])):
                            inner = hirq.pat_key(ia["pat"]).split("::")[-1]
                rets.append((pk + ("/" + inner if inner else ""), hirq.unwrap_trivial(n["e"]).get("v")))
    tail = hirq.unwrap_trivial(b["hir"].get("e", {})).get("v")
    ok = sorted(rets) == [("Autoderef", False), ("Autodeslice/ArrayByPointer", False)] and tail is True
    run.ob("R2-OUTER-MUTABILITY", "needs_outer_mutability", ok, F.where(b),
           "mutability of the named variable is required unless the reference goes through a pointer: early `return false` at %s, "
           "fall-through %s" % (rets, tail), sample={"early_returns": rets, "fallthrough": tail})
    variants = set(F.variants("alpha::common::ReferenceStep"))
    covered = set(hirq.pat_key(a["pat"]).split("::")[-1] for a in m["arms"])
    run.ob("R2-OUTER-MUTABILITY", "covers ReferenceStep", covered == variants, F.where(b), "arms %s" % sorted(covered))


def ok_err_rows(match):
    rows = {}
    for a in match["arms"]:
        rows[hirq.pat_key(a["pat"]).split("::")[-1]] = [hirq.short(p) for p, _ in hirq.constructs(a["body"])]
    return rows


def r3_checked_mutation(run, F):
    st = F.body("<alpha::common::Statement as alpha::analyzer::mutability::Analyzable>::analyze")
    sm = [x for x in hirq.matches(st["hir"]) if hirq.n_alts(x) >= 8][0]
    arm = hirq.arm_for(sm, "Statement::Assignment")
    run.require(arm, "Assignment arm not found")
    inner = [x for x in hirq.matches(arm[0]["body"]) if hirq.callee(hirq.unwrap_trivial(x["scrut"])) == MU + "Analyzer::use_variable"]
    ok = False
    if len(inner) == 1:
        call = hirq.unwrap_trivial(inner[0]["scrut"])
        arg2 = hirq.unwrap_trivial(call["a"][1])
        rows = ok_err_rows(inner[0])
        ok = arg2.get("k") == "Call" and hirq.callee(arg2) == MU + "needs_outer_mutability" and rows.get("Ok") == ["Statement::Assignment"] and \
            rows.get("Err") == ["Statement::Poison"]
    run.ob("R3-ASSIGNMENT-CHECKED", "Statement::Assignment", ok, F.where(st, arm[0]),
           "an assignment survives only if use_variable(base, needs_outer_mutability(reference)) succeeds; otherwise it is poisoned (E530)")
    e = F.body("<alpha::common::Expression as alpha::analyzer::mutability::Analyzable>::analyze")
    em = [x for x in hirq.matches(e["hir"]) if hirq.n_alts(x) > 12][0]
    darm = hirq.arm_for(em, "Expression::Deref")
    run.require(darm, "Deref arm not found")
    ok = False
    isadd = None
    eenv = hirq.full_env(e)
    inner = [x for x in hirq.matches(darm[0]["body"]) if hirq.callee(hirq.unwrap_trivial(x["scrut"])) == MU + "Analyzer::use_variable"]
    if len(inner) == 1:
        call = hirq.unwrap_trivial(inner[0]["scrut"])
        rows = ok_err_rows(inner[0])
        isadd = hirq.summarize_bool(call["a"][1], eenv)
        ok = rows.get("Ok") == ["Expression::Deref"] and rows.get("Err") == ["Expression::Poison"]
    ok = ok and isadd == "{((self.reference.address_depth > 0) && needs_outer_mutability(..))}"
    run.ob("R3-ADDRESS-CHECKED", "Expression::Deref", ok, F.where(e, darm[0]),
           "taking the address of a variable (&x) requires it to be mutable unless reached through a pointer: is_addressed = %s" % isadd)
    # the variable whose mutability bit is consulted is the BASE of the reference (members are declared mutable one and all:
    # it is the binding -- var, parameter, constant -- that decides)
    for label, body_, armnode in (("Statement::Assignment", st, arm[0]), ("Expression::Deref", e, darm[0])):
        calls = [c for c in hirq.calls(armnode["body"]) if hirq.callee(c) == MU + "Analyzer::use_variable"]
        okb = False
        det = "no use_variable call"
        if len(calls) == 1:
            o = origins.origins(body_["hir"], calls[0]["a"][0], body_.get("params", ()))
            from_base = ("field", "base") in o
            from_steps = ("field", "steps") in o or ("call", "alpha::common::ReferenceStep::get_member") in o
            okb = from_base and not from_steps
            det = "derives from reference.base: %s, from the steps/members: %s" % (from_base, from_steps)
        run.ob("R3-BASE-DECIDES", label, okb, F.where(body_, armnode),
               "use_variable must be asked about the base of the reference (%s); asking about a member step loses E530 for "
               "`param.member = ..` and `CONST.member = ..`" % det)
    uv = F.body(MU + "Analyzer::use_variable")
    # `<the is-mutated parameter> && !<the bit stored for the variable>`: operands by role (bool parameter; negated local that
    # derives from the `variables` table), either operand order
    from rules import origins as _or
    bool_params = [q.get("lid") for q in uv.get("params", []) if str(F.lib.ty(q.get("t"))) == "bool"]

    def mutated_and_immutable(cond):
        c = hirq.unwrap_trivial(cond)
        if c.get("k") != "Binary" or c.get("op") != "And":
            return False
        sides = [hirq.unwrap_trivial(c["lhs"]), hirq.unwrap_trivial(c["rhs"])]
        par = [x for x in sides if x.get("k") == "Path" and x.get("lid") in bool_params]
        neg = [x for x in sides if x.get("k") == "Unary" and x.get("op") == "Not"]
        if len(par) != 1 or len(neg) != 1:
            return False
        o = _or.origins(uv["hir"], neg[0]["e"], uv.get("params", ()))
        return ("field", "variables") in o
    ifs = [n for n in walk(uv["hir"]) if n.get("k") == "If" and "else" in n and mutated_and_immutable(n["cond"])]
    ok = False
    if len(ifs) == 1:
        tc = [hirq.short(p) for p, _ in hirq.constructs(ifs[0]["then"])]
        ec = [hirq.short(p) for p, _ in hirq.constructs(ifs[0]["else"])]
        ok = "Error::NotMutable" in tc and "Error::NotMutable" not in ec and any(x.endswith("Ok") for x in ec)
    run.ob("R3-NOT-MUTABLE", "use_variable", ok, F.where(uv), "NotMutable (E530) exactly when the variable is mutated and was declared immutable")
    # the mutability bit read is the one stored by declare_variable (same map, keyed by resolution_id)
    dv = F.body(MU + "Analyzer::declare_variable")
    ins = [c for c in hirq.calls(dv["hir"]) if c.get("k") == "MethodCall" and c.get("name") == "insert"]
    ok = len(ins) == 1 and "resolution_id" in [x.get("name") for x in walk(ins[0]["a"][0]) if x.get("k") == "Field"] and \
        "is_mutable" in [hirq.local_name_of(x) for x in walk(ins[0]["a"][1])]
    run.ob("R3-NOT-MUTABLE", "declare_variable stores the bit", ok, F.where(dv), "variables.insert(resolution_id, (identifier, is_mutable))")


def r4_copies(run, F):
    e = F.body("<alpha::common::Expression as alpha::analyzer::function_calls::Analyzable>::analyze")
    em = [x for x in hirq.matches(e["hir"]) if hirq.n_alts(x) > 12][0]
    darm = hirq.arm_for(em, "Expression::Deref")
    run.require(darm, "Deref arm not found in function_calls")
    fenv = hirq.full_env(e)
    tm = [x for x in hirq.matches(darm[0]["body"]) if hirq.canon_of(x["scrut"], fenv) == "self.deref_type"]
    run.require(tm, "the match over the Deref's type was not found")
    got = {}
    for a in tm[0]["arms"]:
        vts = sorted(set(hirq.pat_key(x).split("::")[-1] for x in walk(a["pat"]) if x.get("k") in ("Struct",) and "ValueType::" in hirq.pat_key(x)))
        if not vts:
            continue
        ifs = [n for n in walk(a["body"]) if n.get("k") == "If" and "else" in n]
        ok = False
        err = None
        if len(ifs) == 1:
            cond = hirq.summarize_bool(ifs[0]["cond"], fenv)
            tc = [hirq.short(p) for p, _ in hirq.constructs(ifs[0]["then"]) if hirq.short(p).startswith("Error::")]
            ec = [hirq.short(p) for p, _ in hirq.constructs(ifs[0]["else"]) if hirq.short(p).startswith("Error::")]
            ok = cond == "!$1.is_immediate_function_argument" and len(tc) == 1 and not ec
            err = tc[0] if tc else None
        got[",".join(vts)] = (err, ok)
    ref = {"Array,EndlessArray": ("Error::CannotCopyArray", True), "Arraylike,Slice,SlicePointer": ("Error::CannotCopySlice", True),
           "Struct": ("Error::CannotCopyStruct", True)}
    run.ob("R4-COPY-TABLE", "Expression::Deref", got == ref, F.where(e, darm[0]),
           "whole arrays, slices and structs may only be read as an immediate call argument: %s" % got, sample={k: list(v) for k, v in got.items()})
    # typestate on the flag
    FM = flagstate.FlagModule(F, "src/alpha/analyzer/function_calls.rs", ("is_immediate_function_argument",), "function_calls::Analyzer")
    root = "<alpha::common::Declaration as alpha::analyzer::function_calls::Analyzable>::analyze"
    run.require(root in FM.fns, "function_calls Declaration::analyze not found")
    entries, records = FM.reachable_calls({root: {(0,)}})
    EX = "<alpha::common::Expression as alpha::analyzer::function_calls::Analyzable>::analyze"
    transparent = {"Parenthesized", "Structural", "Autocoerce", "BitCast", "TypeCast", "Deref", "LengthOfArray"}
    # lines of transparent arms in Expression::analyze
    tlines = set()
    for a in em["arms"]:
        v = hirq.pat_key(a["pat"]).split("::")[-1]
        writes = [n for n in walk(a["body"]) if n.get("k") == "Assign" and hirq.unwrap_trivial(n["lhs"]).get("name") == "is_immediate_function_argument"]
        recs = [c for c in hirq.calls(a["body"]) if c.get("k") == "MethodCall" and c.get("name") == "analyze"]
        if recs and not writes:
            run.ob("R4-TRANSPARENT-ARMS", v, v in transparent, F.where(e, a),
                   "Expression::%s recurses without resetting is_immediate_function_argument; reviewed transparent wrappers: %s" % (v, sorted(transparent)))
            for c in recs:
                tlines.add(c["l"])
    n = 0
    for fn, recs in records.items():
        b = FM.fns[fn]
        for u, t, st in recs:
            if mirq.call_target(t) != EX:
                continue
            n += 1
            vals = sorted(s[0] for s in st)
            base = fn.split("::{closure")[0]
            is_arg_closure = "{closure" in fn and any(FM.flag_write(s) == ("is_immediate_function_argument", {1})
                                                     for blk in b["mir"]["blocks"] for s in blk["s"])
            label = "%s%s@%d" % (base.split(" as ")[0].replace("<alpha::common::", ""), "{cl}" if "{closure" in fn else "", _ord(FM.cfgs[fn], u))
            if is_arg_closure:
                run.ob("R4-ARGUMENT-FLAG", "argument of " + label, vals == [1], F.where(b, t),
                       "call arguments are analysed with is_immediate_function_argument = true; reachable values %s" % vals)
            elif base == EX and t["l"] in tlines:
                continue
            else:
                run.ob("R4-ARGUMENT-FLAG", label, vals == [0], F.where(b, t),
                       "this operand is not an immediate call argument: is_immediate_function_argument must be false here, otherwise an "
                       "array/slice/struct copy by assignment or operation goes unreported (E531-E533); reachable values %s" % vals)
    run.require(n >= 12, "too few Expression::analyze call sites (%d)" % n)


def _ord(cfg, u):
    return sorted(i for i, t in cfg.calls()).index(u)


def r5_hint_codes(run, F):
    b = F.body(FC + "can_hint_missing_address")
    m = hirq.find_match(b, min_arms=2)
    rows = [["/".join(x.split("::")[-1] for x in k), g, o] for k, g, o in hirq.nested_table(m)]
    want = [["Deref/Pointer", "(deref_type.as_ref() == argument_type)", "true"],
            ["Deref/_", None, "argument_type.can_coerce_address_into(parameter_type)"],
            ["_", None, "false"]]
    run.ob("R5-MISSING-ADDRESS-HINT", "can_hint_missing_address", rows == want, F.where(b),
           "E513 is hinted when the parameter is a pointer to the argument's type (or its address would coerce): %s" % rows, sample=rows)
    code = F.body("alpha::error::Error::code")
    cm = [x for x in hirq.matches(code["hir"]) if hirq.n_alts(x) > 40][0]
    rows = {hirq.pat_key(a["pat"]).split("::")[-1]: hirq.unwrap_trivial(a["body"]).get("v") for a in cm["arms"]}
    for v, c in (("ArgumentMissingAddress", 513), ("NotMutable", 530), ("CannotCopyArray", 531), ("CannotCopySlice", 532), ("CannotCopyStruct", 533),
                 ("AddressOfTemporaryAddress", 538)):
        run.ob("R5-CODES", v, rows.get(v) == c, F.where(code), "Error::%s must have code %d (found %s)" % (v, c, rows.get(v)))


def r6_visit(run, F):
    """T2: the mutability analyzer reaches every Expression / Reference of a function (an unvisited child is an unchecked mutation or address-of)."""
    C = F.lib
    rel = visit.type_closure(C, {"alpha::common::Expression", "alpha::common::Reference"})
    impls = [b for b in C.bodies.values() if b.get("impl_trait") == "alpha::analyzer::mutability::Analyzable" and "{closure" not in b["npath"]]
    run.require(len(impls) >= 10, "mutability Analyzable impls not found (%d)" % len(impls))
    exceptions = {"Declaration::Constant.value": "constants are covered by the constness analyzer, which rejects mutation and addresses in constant expressions (comment in the source)"}

    def is_trav(c):
        return c.endswith("mutability::Analyzable>::analyze") or c == "alpha::analyzer::mutability::Analyzable::analyze"
    n = 0
    for b in impls:
        def rep(key, ok, where, detail, sample):
            run.ob("R6-MUTABILITY-VISITS", key, ok, where, detail + ": assignments and `&` inside it are never checked for mutability (E530)", sample)
        n += visit.check_impl(F, C, b, rel, is_trav, rep, exceptions=exceptions)
    run.require(n >= 25, "too few visit obligations (%d)" % n)


DESLICE_TAG = {"Slice": "ArrayByView", "SlicePointer": "ArrayByPointer"}


def r7_deslice_tag(run, F):
    """needs_outer_mutability lets a write through `ArrayByPointer` pass without a mutable base (the program wrote `&` to get
    the slice pointer) and demands a mutable base for `ArrayByView`.  The typer therefore may tag an automatic deslice step
    ArrayByView only under a test for ValueType::Slice and ArrayByPointer only under a test for ValueType::SlicePointer:
    every construction site of the two tags, against the pattern of the innermost enclosing match arm that tests one of the two."""
    sites = 0
    for p, b in sorted(F.lib.bodies.items()):
        if "hir" not in b or not F.rel(b["file"]).endswith("alpha/typer.rs"):
            continue

        def visit(node, ctx):
            nonlocal sites
            if not isinstance(node, (dict, list)):
                return
            if isinstance(node, list):
                for x in node:
                    visit(x, ctx)
                return
            if node.get("k") == "Match":
                visit(node["scrut"], ctx)
                for a in node["arms"]:
                    tested = set()
                    for x in walk(a["pat"]):
                        r = str(x.get("ctor_of") or x.get("res") or "")
                        if r.endswith(("ValueType::Slice", "ValueType::SlicePointer")):
                            tested.add(r.split("::")[-1])
                    c2 = tested if tested else ctx
                    if "guard" in a:
                        visit(a["guard"], c2)
                    visit(a["body"], c2)
                return
            r = str(node.get("ctor_of") or node.get("res") or "")
            if node.get("k") == "Path" and not node.get("inpat") and r.endswith(("DesliceOffset::ArrayByView", "DesliceOffset::ArrayByPointer")):
                tag = r.split("::")[-1]
                sites += 1
                want = set(DESLICE_TAG[t] for t in (ctx or ()))
                run.ob("R7-DESLICE-TAG", "%s|%s under %s" % (b["npath"].split("::")[-1], tag, "/".join(sorted(ctx)) if ctx else "no test"),
                       want == {tag}, F.where(b, node),
                       "DesliceOffset::%s is built under a test for %s; a slice taken by view must be tagged ArrayByView (writes need a mutable base, "
                       "E530) and only a slice pointer ArrayByPointer" % (tag, sorted(ctx) if ctx else "neither Slice nor SlicePointer"))
            for k, v in node.items():
                if isinstance(v, (dict, list)) and k != "pat":
                    visit(v, ctx)
        visit(b["hir"], None)
    run.floor("R7-DESLICE-TAG", 4, "construction sites of ArrayByView / ArrayByPointer in the typer (4 counted)")


def check(run):
    F = run.facts("B")
    r7_deslice_tag(run, F)
    r1_bits(run, F)
    r2_outer(run, F)
    r3_checked_mutation(run, F)
    r4_copies(run, F)
    r5_hint_codes(run, F)
    r6_visit(run, F)
    # the mutability pass does not look into constants: it relies on the constness pass rejecting every address-of inside a constant
    # initialiser, so a node of a constant that skips the constness visit (an early `return self`) can hold a pointer to a constant (C10.R10)
    from props import c10 as _c10
    _c10.r10_pass_keeps_node(run, F, modules=("analyzer::constness", "analyzer::mutability"), floor=60)
    # what may silently become a pointer: an argument is wrapped in an Autocoerce exactly when can_coerce_into allows it,
    # and E512/E513 compare against the coerced type -- the coercion relation is part of "requires an explicit &" (shared with C07.R5)
    from props import c07
    c07.r3_r5_relations(run, F)
    # E512/E513 (an argument that needs `&`) and E531-E533 (whole-aggregate copies) are only raised where the call analyzer looks: its T2 (C07.R7)
    c07.r7_visit(run, F)
    if run.tier == "thorough":
        FA = run.facts("A")
        run.key_prefix = "cfgA:"
        for fn in (r1_bits, r2_outer, r3_checked_mutation, r4_copies, r5_hint_codes, r6_visit, r7_deslice_tag):
            fn(run, FA)
        run.key_prefix = ""
