"""C06 -- loop and if-branches only where the language allows."""
from rules import hirq, mirq, typestate, flagstate, visit
from rules.core import walk, norm_path, AnchorMissing, CannotAnalyse

LEVEL = "other"
EXPLANATION = (
    "Static analysis of the syntax analyzer and the branch lint (cfg B). Decided: R1 emission sites: "
    "NonFinalLoopStatement is built only in Block::analyze for non-last statements, MisplacedLoopStatement only on the "
    "`!is_in_block` edge of the Loop arm, MissingBraces only under a naked-branch flag, with codes 800/801/840, and the "
    "set of statements accepted as a naked branch is exactly {Goto, Block, If (else only), Poison}; R2 flag typestate "
    "on MIR (may-analysis over the three bool fields of the Analyzer, with call effects = the flag values the callee "
    "can write): the then-branch is analysed with is_naked_then_branch = true and is_naked_else_branch = false, the "
    "else-branch with the reverse, a block with both false, and every statement of a block with is_in_block = true; "
    "R3 the L1800 lint is pushed only from the Loop arm, only when is_first_statement_of_branch was Some, which is "
    "set only in Block::lint from is_naked_branch, which is set only in the If arm and cleared after the first "
    "statement; R4 the generator peels a final `loop` off a block before generating the other statements, which is "
    "what makes its `Statement::Loop => unreachable!()` arm dead. Agreement over all statement trees is not decided."
    " ADDED LATER: R3-LINT-TYPESTATE: may-typestate of the linter's two Option flags (None/Some, Option::take): a statement is linted as a naked branch only as the branch of an if, and the flags never survive into the next statement, function or declaration; R5 the syntax analyzer visits every statement (T2)."
    " ROUNDS 5-6: the per-module reset of analyzer and linter (C12.R3) is shared."
    " ROUND 7: R7-ERRORS-MERGED: the parts of a statement are resolved together (tuple) so that the placement errors of every part are reported."
    " ROUND 8: R8-COMBINERS-KEEP-BOTH: combine, accumulate, the fold of Vec<T> and the pair examine both results in one match, hand back both error lists when both failed and contain no `?`; R3-LINT-TYPESTATE 'sees no inherited flag': Block::lint run from a symbolic entry state writes both flags before any statement of the block is linted."
    " ROUND 9: C03.R11-BRANCH-TARGETS-FRESH is shared: a `loop` ending a block is accepted only if the looped block compiles, and its back edge needs a block of its own; R8 also covers the wider tuples."
    " ROUND 10: R4-LOOP-PEELED 'the resolver keeps blocks blocks': every value of the Block arm of the resolver's Statement impl is Ok(resolved::Statement::Block(..)) or an error."
    " ROUND 12: R9-EVERY-DECLARATION-LINTED: in the per-declaration closure of analyze_and_resolve_sorted Linter::lint is dominated by Analyzer::analyze and lies on every path from it to a normal return (L1800 does not depend on the outcome of the resolver); R8 also covers the list resolver by its impl path: no short-circuiting adaptor, no `?`.")

AN = "alpha::analyzer::syntax::"
ST = "<alpha::common::Statement as alpha::analyzer::syntax::Analyzable>::analyze"
BL = "<alpha::common::Block as alpha::analyzer::syntax::Analyzable>::analyze"
FB = "<alpha::common::FunctionBody as alpha::analyzer::syntax::Analyzable>::analyze"
FLAGS = ("is_naked_then_branch", "is_naked_else_branch", "is_in_block")


def r2_flags(run, F):
    FM = flagstate.FlagModule(F, "src/alpha/analyzer/syntax.rs", FLAGS, "syntax::Analyzer")
    fns = FM.fns
    run.require(ST in fns and BL in fns and FB in fns, "syntax analyzer impls not found")
    summary = FM.summary
    roots = {"<alpha::common::Declaration as alpha::analyzer::syntax::Analyzable>::analyze": {(0, 0, 0)}}
    run.require(list(roots)[0] in fns, "Declaration::analyze of the syntax analyzer not found")
    entries, records = FM.reachable_calls(roots)
    run.info("R2: exit summaries (E = unchanged): %s" % {p.split(" as ")[0][-30:] + ("{cl}" if "{closure" in p else ""): sorted(map(str, v)) for p, v in summary.items() if ("Statement" in p or "Block" in p)})
    n = 0
    for fn, recs in records.items():
        b = fns[fn]
        in_closure = "{closure" in fn
        base = fn.split("::{closure")[0]
        for u, t, st in recs:
            c = mirq.call_target(t)
            if c == ST and base == ST:
                n += 1
                if not in_closure:
                    ok = all(s[0] == 1 and s[1] == 0 for s in st) and st
                    run.ob("R2-FLAG-TYPESTATE", "then-branch", ok, F.where(b, t),
                           "when the then-branch is analysed is_naked_then_branch must be true and is_naked_else_branch false; reachable "
                           "(then, else, in_block) states: %s -- with else=1 inherited from an enclosing else, a naked `if` is accepted as a "
                           "then-branch (`if a == b goto x; else if c == d if e == f goto y;`) although E840 is required" % sorted(st),
                           sample={"states": sorted(st)})
                else:
                    ok = all(s[0] == 0 and s[1] == 1 for s in st) and st
                    run.ob("R2-FLAG-TYPESTATE", "else-branch", ok, F.where(b, t),
                           "when the else-branch is analysed is_naked_else_branch must be true and is_naked_then_branch false; states: %s" % sorted(st),
                           sample={"states": sorted(st)})
            elif c == BL and base == ST:
                n += 1
                ok = all(s[0] == 0 and s[1] == 0 for s in st) and st
                run.ob("R2-FLAG-TYPESTATE", "block", ok, F.where(b, t),
                       "statements inside a braced block are not naked branches: both flags must be false when Block::analyze is called; states %s" % sorted(st))
            elif c == ST and base == BL:
                n += 1
                ok = all(s[2] == 1 for s in st) and st
                run.ob("R2-FLAG-TYPESTATE", "block statement%s" % (" (non-last)" if in_closure else " (last)"), ok, F.where(b, t),
                       "every statement of a block is analysed with is_in_block = true; states %s" % sorted(st))
            elif c == ST and base == FB:
                n += 1
                ok = all(s == (0, 0, 0) for s in st) and st
                run.ob("R2-FLAG-TYPESTATE", "function body statement", ok, F.where(b, t),
                       "statements directly in a function body are analysed with all three flags false (a `loop` there is E801); states %s" % sorted(st))
    run.require(n >= 6, "recursive analyze call sites not found (%d)" % n)


def r1_emission(run, F):
    sites = {}
    for b in F.lib.bodies.values():
        if "hir" not in b or F.rel(b["file"]) == "src/alpha/error.rs":
            continue
        for p, node in hirq.constructs(b["hir"]):
            s = hirq.short(p)
            if s in ("Error::NonFinalLoopStatement", "Error::MisplacedLoopStatement", "Error::MissingBraces", "Error::LoopAsFirstStatement"):
                sites.setdefault(s, []).append((b, node))
    want = {"Error::NonFinalLoopStatement": BL + "::{closure#0}", "Error::MisplacedLoopStatement": ST, "Error::MissingBraces": ST,
            "Error::LoopAsFirstStatement": "<alpha::common::Statement as alpha::linter::Lintable>::lint"}
    for s, fn in want.items():
        got = sorted(set(b["npath"] for b, _ in sites.get(s, [])))
        # closures are nested in the parent's HIR: compare on the parent path
        ok = got == [fn.split("::{closure")[0]]
        run.ob("R1-EMISSION-SITE", s, ok, F.where(sites[s][0][0], sites[s][0][1]) if s in sites else "?",
               "%s must be constructed exactly in %s: found in %s" % (s, fn, got))
    st = F.body(ST)
    # naked-branch acceptance set
    m = None
    for mm in hirq.matches(st["hir"]):
        keys = [hirq.pat_key(a["pat"]) for a in mm["arms"]]
        if "Statement::Goto" in keys and len(mm["arms"]) == 5:
            m = mm
    run.require(m is not None, "naked-branch match not found in Statement::analyze")
    acc = []
    for a in m["arms"]:
        body = hirq.unwrap_trivial(a["body"])
        is_unit = body.get("k") == "Tup" and not body.get("a")
        key = hirq.pat_key(a["pat"])
        g = None
        if "guard" in a:
            gg = hirq.unwrap_trivial(a["guard"])
            g = gg.get("name") if gg.get("k") == "Field" else "?"
        if is_unit:
            acc.append((key, g))
    want_acc = [("Statement::Goto", None), ("Statement::Block", None), ("Statement::If", "is_naked_else_branch"), ("Statement::Poison", None)]
    run.ob("R1-NAKED-ACCEPTED-SET", "table", acc == want_acc, F.where(st, m),
           "a naked branch may only be goto, a braced block, another if (else branch only) or poison: %s" % acc, sample=acc)
    # the match is guarded by the two flags
    ifs = [n for n in walk(st["hir"]) if n.get("k") == "If" and any(x is m for x in walk(n["then"]))]
    ok = False
    if ifs:
        c = hirq.unwrap_trivial(ifs[0]["cond"])
        fl = sorted(x.get("name") for x in walk(c) if x.get("k") == "Field")
        ok = c.get("k") == "Binary" and c.get("op") == "Or" and fl == ["is_naked_else_branch", "is_naked_then_branch"]
    run.ob("R1-NAKED-ACCEPTED-SET", "guarded by both flags", ok, F.where(st), "the check runs when either naked flag is set")
    # Loop arm: MisplacedLoopStatement on the !is_in_block edge
    mm = None
    for x in hirq.matches(st["hir"]):
        if hirq.local_name_of(x["scrut"]) == "self" and hirq.n_alts(x) >= 8:
            mm = x
    run.require(mm is not None, "main match of Statement::analyze not found")
    la = hirq.arm_for(mm, "Statement::Loop")
    ok = False
    if la:
        ifs = [n for n in walk(la[0]["body"]) if n.get("k") == "If" and "else" in n]
        if len(ifs) == 1:
            c = hirq.unwrap_trivial(ifs[0]["cond"])
            tc = [hirq.short(p) for p, _ in hirq.constructs(ifs[0]["then"])]
            ec = [hirq.short(p) for p, _ in hirq.constructs(ifs[0]["else"])]
            ok = c.get("k") == "Field" and c.get("name") == "is_in_block" and "Statement::Loop" in tc and "Error::MisplacedLoopStatement" in ec \
                and "Error::MisplacedLoopStatement" not in tc
    run.ob("R1-LOOP-PLACEMENT", "Loop arm", ok, F.where(st), "`loop` is kept when is_in_block and becomes MisplacedLoopStatement (E801) otherwise")
    # codes
    code = F.body("alpha::error::Error::code")
    cm = [x for x in hirq.matches(code["hir"]) if hirq.n_alts(x) > 40][0]
    rows = {hirq.pat_key(a["pat"]): hirq.unwrap_trivial(a["body"]).get("v") for a in cm["arms"]}
    for v, c in (("Error::NonFinalLoopStatement", 800), ("Error::MisplacedLoopStatement", 801), ("Error::MissingBraces", 840), ("Error::LoopAsFirstStatement", 1800)):
        run.ob("R1-CODES", v, rows.get(v) == c, F.where(code), "%s must have code %d (found %s)" % (v, c, rows.get(v)))
    # NonFinalLoopStatement: built from the *analysed* non-last statement when it is a Loop
    blc = F.body(BL)
    nf = [node for p, node in hirq.constructs(blc["hir"]) if hirq.short(p) == "Error::NonFinalLoopStatement"]
    inside_closure = False
    for n in walk(blc["hir"]):
        if n.get("k") == "Closure" and nf and any(x is nf[0] for x in walk(n["body"])):
            arms = [a for mmm in hirq.matches(n["body"]) for a in mmm["arms"] if any(x is nf[0] for x in walk(a["body"]))]
            inside_closure = bool(arms) and hirq.pat_key(arms[0]["pat"]) == "Statement::Loop"
    run.ob("R1-LOOP-PLACEMENT", "non-final loop", inside_closure, F.where(blc),
           "a `loop` that is not the last statement of its block becomes NonFinalLoopStatement (E800)")


def r3_lint(run, F):
    st = F.body("<alpha::common::Statement as alpha::linter::Lintable>::lint")
    bl = F.body("<alpha::common::Block as alpha::linter::Lintable>::lint")
    writes = {}
    for b in (st, bl, F.body("<alpha::common::FunctionBody as alpha::linter::Lintable>::lint"),
              F.body("<alpha::common::Expression as alpha::linter::Lintable>::lint")):
        for n in walk(b["hir"]):
            if n.get("k") == "Assign":
                l = hirq.unwrap_trivial(n["lhs"])
                if l.get("k") == "Field" and l.get("name") in ("is_naked_branch", "is_first_statement_of_branch"):
                    cons = [hirq.short(p) for p, _ in hirq.constructs(n["rhs"])]
                    val = "None" if any(c.endswith("::None") for c in cons) and not any(c.endswith("::Some") for c in cons) else "Some/derived"
                    writes.setdefault((l["name"], b["npath"].split(" as ")[0].split("::")[-1]), []).append((val, n))
    nb_some = [k for k, v in writes.items() if k[0] == "is_naked_branch" and any(x[0] != "None" for x in v)]
    run.ob("R3-LINT-FLAGS", "is_naked_branch set only in Statement::lint", nb_some == [("is_naked_branch", "Statement")], F.where(st),
           "is_naked_branch may only be set to Some in the If arm of Statement::lint: %s" % sorted(writes))
    fs_some = [k for k, v in writes.items() if k[0] == "is_first_statement_of_branch" and any(x[0] != "None" for x in v)]
    run.ob("R3-LINT-FLAGS", "is_first_statement_of_branch set only in Block::lint", fs_some == [("is_first_statement_of_branch", "Block")], F.where(bl),
           "is_first_statement_of_branch may only be derived in Block::lint: %s" % fs_some)
    # Block::lint: first.lint; flag = None; others
    seq = []
    for n in walk(bl["hir"]):
        if n.get("k") == "MethodCall" and n.get("name") == "lint":
            # which statements: the head of split_first (tuple position 0) or the rest (position 1), whatever they are called
            from rules import origins as _or
            o = _or.origins(bl["hir"], n["recv"], bl.get("params", ()))
            pos = sorted(k[1] for k in o if k[0] == "tuplepos")
            seq.append(("lint:" + ("first" if pos == [0] else "statement" if pos == [1] else "?"), n["l"]))
        if n.get("k") == "Assign" and hirq.unwrap_trivial(n["lhs"]).get("name") == "is_first_statement_of_branch":
            cons = [hirq.short(p) for p, _ in hirq.constructs(n["rhs"])]
            seq.append(("set:" + ("None" if cons and all(c.endswith("None") for c in cons) else "derived"), n["l"]))
        if n.get("k") == "MethodCall" and n.get("name") == "take" and hirq.unwrap_trivial(n["recv"]).get("name") == "is_first_statement_of_branch":
            seq.append(("set:None", n["l"]))       # Option::take leaves None behind
    names = [x[0] for x in sorted(seq, key=lambda x: x[1])]
    run.ob("R3-LINT-FLAGS", "Block::lint order", names == ["set:derived", "lint:first", "set:None", "lint:statement"], F.where(bl),
           "only the first statement of a branch block may see the flag: %s" % names)
    # Loop arm: push lint only when take() is Some
    mm = [x for x in hirq.matches(st["hir"]) if hirq.n_alts(x) >= 8]
    la = hirq.arm_for(mm[0], "Statement::Loop") if mm else []
    ok = False
    if la:
        ifl = [n for n in walk(la[0]["body"]) if n.get("k") == "If"]
        for n in ifl:
            c = hirq.unwrap_trivial(n["cond"])
            if c.get("k") == "LetExpr" and hirq.pat_key(c["pat"]).endswith("Some") and \
                    any(x.get("name") == "is_first_statement_of_branch" for x in walk(c["init"])):
                cons = [hirq.short(p) for p, _ in hirq.constructs(n["then"])]
                ok = "Error::LoopAsFirstStatement" in cons
    run.ob("R3-LINT-FLAGS", "Loop arm", ok, F.where(st), "L1800 is raised exactly when the loop is the first statement of a branch block")
    # If arm clears is_naked_branch at the end and sets it before each branch
    ia = hirq.arm_for(mm[0], "Statement::If") if mm else []
    seq = []
    if ia:
        for n in walk(ia[0]["body"]):
            if n.get("k") == "Assign" and hirq.unwrap_trivial(n["lhs"]).get("name") == "is_naked_branch":
                cons = [hirq.short(p) for p, _ in hirq.constructs(n["rhs"])]
                seq.append(("Some" if any(c.endswith("Some") for c in cons) else "None", n["l"]))
            if n.get("k") == "MethodCall" and n.get("name") == "lint":
                r = hirq.unwrap_trivial(n["recv"])
                nm = hirq.local_name_of(r) or ".".join(x.get("name", "") for x in walk(r) if x.get("k") == "Field")
                seq.append(("lint:" + nm, n["l"]))
    names = [x[0] for x in sorted(seq, key=lambda x: x[1]) if x[0] != "lint:condition"]
    run.ob("R3-LINT-FLAGS", "If arm", names == ["Some", "lint:then_branch", "Some", "lint:branch", "None"], F.where(st),
           "each branch is linted right after marking it as a naked branch; the mark is cleared afterwards: %s" % names)


def r3b_lint_typestate(run, F):
    """May-typestate of the linter's two Option flags (None = 0, Some = 1; Option::take leaves None): a statement is linted
    with is_naked_branch = Some only as the branch of an `if`, and the flags never survive into the next statement,
    block, function or declaration (a stale Some would blame an unrelated `if` for a later `{ loop; }`: spurious L1800)."""
    LF = ("is_naked_branch", "is_first_statement_of_branch")
    FM = flagstate.FlagModule(F, "src/alpha/linter.rs", LF, "linter::Linter")
    L = "alpha::linter::Lintable>::lint"
    ST_, BL_, FB_, DE_ = ("<alpha::common::%s as %s" % (x, L) for x in ("Statement", "Block", "FunctionBody", "Declaration"))
    run.require(all(x in FM.fns for x in (ST_, BL_, FB_, DE_)), "linter impls not found")
    # the Linter lives for the whole module: entry states of a declaration = initial state closed under the declaration's own exit
    entry = {(0, 0)}
    for _ in range(8):
        new = entry | FM.apply_summary(FM.summary[DE_], entry)
        if new == entry:
            break
        entry = new
    run.ob("R3-LINT-TYPESTATE", "declaration leaves both flags None", entry == {(0, 0)}, F.where(FM.fns[DE_]),
           "states in which the next declaration may be linted: %s" % sorted(entry), sample={"states": sorted(entry)})
    entries, records = FM.reachable_calls({DE_: entry})
    n = 0
    for fn, recs in records.items():
        b = FM.fns[fn]
        base = fn.split("::{closure")[0]
        for u, t, st in recs:
            c = mirq.call_target(t)
            if c != ST_:
                continue
            n += 1
            if base == ST_:
                ok = bool(st) and all(s[0] == 1 for s in st)
                run.ob("R3-LINT-TYPESTATE", "if branch @%s" % ("else" if len([1 for x in recs if x[2] and mirq.call_target(x[1]) == ST_ and x[1]["l"] < t["l"]]) else "then"), ok, F.where(b, t),
                       "a branch of an `if` is linted with is_naked_branch = Some; states %s" % sorted(st))
            elif base == BL_:
                ok = bool(st) and all(s[0] == 0 for s in st)
                run.ob("R3-LINT-TYPESTATE", "block statement (line order %d)" % len([1 for x in recs if mirq.call_target(x[1]) == ST_ and x[1]["l"] < t["l"]]), ok, F.where(b, t),
                       "a statement inside a block is not the branch of an `if`: is_naked_branch must be None when it is linted; states %s" % sorted(st))
            elif base == FB_:
                ok = bool(st) and all(s == (0, 0) for s in st)
                run.ob("R3-LINT-TYPESTATE", "function body statement", ok, F.where(b, t),
                       "a statement directly in a function body is linted with both flags None (otherwise a bare `{ loop; }` after an "
                       "else-less `if c goto l;` raises L1800); states %s" % sorted(st))
    run.require(n >= 5, "linter: recursive lint call sites not found (%d)" % n)
    # a block decides afresh whether its first statement is the first statement of a branch: with a symbolic entry state ('E' = the
    # value the flag had when the block was entered) no statement of the block is linted with an inherited flag
    sym = []
    typestate.run(FM.cfgs[BL_], {("E", "E")}, FM.make_transfer(BL_), None, lambda u, t, st: sym.append((t, set(st))),
                  stmt_transfer=FM.make_stmt_transfer(BL_))
    sym = [(t, st) for t, st in sym if mirq.call_target(t) == ST_]
    run.require(len(sym) >= 2, "Block::lint: the calls that lint the statements were not found")
    for i, (t, st) in enumerate(sorted(sym, key=lambda x: x[0]["l"])):
        run.ob("R3-LINT-TYPESTATE", "block statement (line order %d) sees no inherited flag" % i, bool(st) and all("E" not in x for x in st), F.where(FM.fns[BL_], t),
               "whatever the flags were when the block was entered, both have been written before this statement is linted (a bare block "
               "inside a branch block would otherwise inherit `first statement of a branch`: spurious L1800); states %s" % sorted(map(str, st)))
    # only the first statement of a block may see is_first_statement_of_branch = Some
    later = [(u, t, st) for u, t, st in records.get(BL_, []) if mirq.call_target(t) == ST_]
    if len(later) >= 2:
        later.sort(key=lambda x: x[1]["l"])
        u, t, st = later[-1]
        run.ob("R3-LINT-TYPESTATE", "non-first statements", bool(st) and all(s == (0, 0) for s in st), F.where(FM.fns[BL_], t),
               "statements after the first are linted with both flags None; states %s" % sorted(st))


def r4_generator(run, F):
    b = F.body("<alpha::resolved::Block as alpha::generator::Generatable>::generate")
    ifs = [n for n in walk(b["hir"]) if n.get("k") == "If" and "else" in n]
    ok = False
    for n in ifs:
        c = hirq.unwrap_trivial(n["cond"])
        if c.get("k") == "LetExpr" and "Statement::Loop" in [hirq.pat_key(x) for x in walk(c["pat"]) if x.get("k") in ("Struct", "Path", "TupleStruct")]:
            last = any(x.get("k") == "MethodCall" and x.get("name") == "last" for x in walk(c["init"]))
            # slice [0..len] with len = statements.len() - 1
            subs = [x for x in walk(n["then"]) if x.get("k") == "Binary" and x.get("op") == "Sub" and x["rhs"].get("v") == 1]
            rng = [x for x in walk(n["then"]) if x.get("k") == "Struct" and x.get("path") == "std::ops::Range"]
            brs = [x for x in hirq.calls(n["then"]) if (hirq.callee(x) or "").endswith("LLVMBuildBr")]
            ok = last and len(subs) == 1 and len(rng) == 1 and len(brs) == 2
    run.ob("R4-LOOP-PEELED", "Block::generate", ok, F.where(b),
           "a block ending in `loop` generates statements[0..len-1] inside a looped basic block with a back edge; "
           "the generator's `Statement::Loop => unreachable!()` relies on it")
    s = F.body("<alpha::resolved::Statement as alpha::generator::Generatable>::generate")
    mm = [x for x in hirq.matches(s["hir"]) if hirq.n_alts(x) >= 6]
    la = hirq.arm_for(mm[0], "Statement::Loop") if mm else []
    run.ob("R4-LOOP-PEELED", "Statement::Loop arm is unreachable!()", bool(la) and any(hirq.panic_kind(c) == "unreachable" for c in hirq.calls(la[0]["body"])),
           F.where(s), "documented dependency (if this arm ever generates code the rule above must be revisited)")


def r4b_blocks_stay_blocks(run, F):
    """The generator lowers `loop` only as the last statement of a Block (R4-LOOP-PEELED; a bare Statement::Loop is `unreachable!()`).
    The stages between the parser and the generator therefore keep every block a block: the Block arm of the resolver's
    Statement impl answers resolved::Statement::Block (or an error) on every path -- unwrapping a one-statement block turns
    `{ loop; }` into a bare Loop."""
    from rules import visit
    b = F.body("<alpha::common::Statement as alpha::resolver::Resolvable>::resolve")
    ms = hirq.matches_on_type(F.lib, b["hir"], "common::Statement", min_alts=6)
    run.require(len(ms) >= 1, "resolver: match on the statement not found")
    arms = hirq.arm_for(ms[0], "Statement::Block")
    run.require(len(arms) >= 1, "resolver: Block arm not found")
    bad = []
    n = 0
    for a in arms:
        for l in visit.result_leaves(a["body"]):
            x = hirq.unwrap_trivial(l)
            n += 1
            if x.get("k") == "Call" and (hirq.callee(x) or "").endswith(("FromResidual::from_residual", "::Err")):
                continue
            if x.get("k") == "Call" and (hirq.callee(x) or "").endswith("::Ok") and x.get("a"):
                y = hirq.unwrap_trivial(x["a"][0])
                what = norm_path(y.get("path") or y.get("ctor_of") or hirq.callee(y) or y.get("res") or "")
                if what.endswith("resolved::Statement::Block"):
                    continue
            bad.append(l)
    run.ob("R4-LOOP-PEELED", "the resolver keeps blocks blocks", n >= 1 and not bad, F.where(b, bad[0]) if bad else F.where(b, arms[0]),
           "every value of the Block arm of the resolver is Ok(resolved::Statement::Block(..)) or an error (%d result expression(s), %d are something else)" % (n, len(bad)))


def r5_visit(run, F):
    """T2: the syntax analyzer reaches every statement (a `loop` or naked branch in an unvisited block is never checked)."""
    C = F.lib
    rel = visit.type_closure(C, {"alpha::common::Statement"})
    TR = "alpha::analyzer::syntax::Analyzable"
    impls = [b for b in C.bodies.values() if b.get("impl_trait") == TR and "{closure" not in b["npath"]]
    run.require(len(impls) >= 4, "syntax Analyzable impls not found (%d)" % len(impls))

    def is_trav(c):
        return c.endswith("analyzer::syntax::Analyzable>::analyze") or c == TR + "::analyze"
    n = 0
    for b in impls:
        def rep(key, ok, where, detail, sample):
            run.ob("R5-SYNTAX-VISITS", key, ok, where, detail + ": loop placement and naked branches inside it are never checked (E800/E801/E840)", sample)
        # the guard `match &self` at the top of Statement::analyze only dispatches on the kind of statement
        n += visit.check_impl(F, C, b, rel, is_trav, rep, skip_dispatch_only=True)
    run.require(n >= 6, "too few visit obligations (%d)" % n)


def r6_pass_order(run, F):
    """The syntax analyzer lets a poisoned statement pass as a naked branch (it has been reported already).  So it must see
    the statements before the passes that poison for other reasons (wrong calls: E510-E513, immutable targets: E530),
    or E840 is lost for exactly those statements."""
    b = F.body("alpha::analyzer::Analyzer::analyze")
    seq = []
    for c in hirq.calls(b["hir"]):
        cn = hirq.callee(c) or ""
        if cn.startswith("alpha::analyzer::") and cn.endswith("::analyze"):
            seq.append((c["l"], cn.split("::")[-2]))
    # data flow order: each pass consumes the result of the previous one (let x = pass(x))
    order = [nm for _, nm in sorted(seq)]
    ok = "syntax" in order and all(order.index("syntax") < order.index(x) for x in ("function_calls", "mutability") if x in order) and \
        "function_calls" in order and "mutability" in order
    run.ob("R6-ANALYZER-ORDER", "Analyzer::analyze", ok, F.where(b),
           "syntax::analyze must run before function_calls::analyze and mutability::analyze: order %s" % order, sample={"order": order})
    # and the chain is a chain: every pass takes the previous result
    lets = [n for n in walk(b["hir"]) if n.get("k") == "Let" and "init" in n]
    chained = all(any(x.get("k") == "Path" and x.get("rk") == "Local" for x in walk(n["init"])) for n in lets)
    run.ob("R6-ANALYZER-ORDER", "chained", chained and len(seq) == 4, F.where(b), "four analyzer passes, each fed with the previous result (%d found)" % len(seq))


STATEMENT_LEVEL = ("alpha::common::Statement", "alpha::common::Block", "alpha::common::FunctionBody", "alpha::common::Declaration",
                   "alpha::common::Else")


def r7_errors_merged(run, F):
    """The placement errors (E800/E801/E840), the label errors (E400/E420) and every other diagnostic planted in a statement by
    an earlier stage surface when the resolver *merges* the errors of all parts of a statement: `(a, b, c).resolve()?`
    resolves every part and concatenates their errors.  Two `.resolve()?` in sequence in one arm of a statement-level
    Resolvable impl stop at the first part that has an error, so the errors of the later parts (the else branch, a later
    `else if`) are never reported.  Expression-level impls do this on purpose in five commented places (no point reporting
    type inference under an unresolved name); statement-level impls never."""
    n = 0
    for p, b in sorted(F.lib.bodies.items()):
        if "hir" not in b or not F.rel(b["file"]).endswith("alpha/resolver.rs") or "{closure" in p or not p.endswith("::resolve"):
            continue
        if not any(p.startswith("<" + t + " as ") for t in STATEMENT_LEVEL):
            continue
        n += 1

        def tries(node):
            out = []
            for x in walk(node):
                if x.get("k") == "Match" and "Try" in str(x.get("msrc")):
                    sc = hirq.unwrap_trivial(x["scrut"])
                    arg = hirq.unwrap_trivial(sc["a"][0]) if sc.get("a") else {}
                    if arg.get("k") == "MethodCall" and arg.get("name") == "resolve":
                        out.append(x)
            return out
        ms = [m for m in hirq.matches(b["hir"]) if hirq.n_alts(m) >= 3]
        units = [(hirq.pat_key(hirq.pat_alts(a["pat"])[0]).split("::")[-1], a["body"]) for a in ms[0]["arms"]] if ms else [("body", b["hir"])]
        for label, body in units:
            t = tries(body)
            run.ob("R7-ERRORS-MERGED", "%s|%s" % (p.split(" as ")[0].strip("<").split("::")[-1], label), len(t) <= 1, F.where(b, t[1]) if len(t) > 1 else F.where(b),
                   "%d `.resolve()?` in sequence: the parts of a statement must be resolved together (tuple) so that the errors of every part "
                   "are reported, not only those of the first part that has one" % len(t))
    run.floor("R7-ERRORS-MERGED", 10, "arms of the statement-level Resolvable impls")
    run.require(n >= 3, "statement-level Resolvable impls not found in resolver.rs (%d)" % n)


def r8_combiners_keep_both(run, F):
    """The functions that join two results of the resolver (`combine`, `accumulate`, the fold of Vec<T>, the pair (T1, T2)) are where
    the diagnostics of two parts of a program meet.  Each examines both results *together* (a match on the pair) and, when both are
    errors, hands back the errors of both; a `?` on one of the two results returns the first error list alone and drops every
    diagnostic of the other part (the functions of a module when a constant has an error, the else branch when the condition has)."""
    C = F.lib

    def is_res(t):
        return t is not None and C.types[t].startswith("std::result::Result<") and C.types[t].rstrip(">").endswith("alpha::error::Errors")
    n = 0
    for p, b in sorted(C.bodies.items()):
        if "hir" not in b or not F.rel(b["file"]).endswith("alpha/resolver.rs"):
            continue
        name = p.split(" as ")[0].strip("<").split("::")[-1] + ("::" + p.split("::")[-1] if " as " in p else "")
        pair_matches = []
        for m in hirq.matches(b["hir"]):
            sc = hirq.unwrap_trivial(m["scrut"])
            if sc.get("k") == "Tup" and len(sc.get("a", [])) == 2 and all(is_res(x.get("t")) for x in sc["a"]):
                pair_matches.append(m)
        res_params = [q for q in b.get("params", []) if is_res((q.get("pat") or q).get("t", q.get("t")))]
        if len(res_params) >= 2 and "{closure" not in p:
            # a function that takes two results joins them
            n += 1
            tries = [x for x in walk(b["hir"]) if x.get("k") == "Match" and "Try" in str(x.get("msrc"))]
            run.ob("R8-COMBINERS-KEEP-BOTH", name + "|no early return", not tries, F.where(b, tries[0]) if tries else F.where(b),
                   "no `?` in a function that joins two results: it would return the first error list without the second")
            if not pair_matches and not tries:
                raise CannotAnalyse("R8-COMBINERS-KEEP-BOTH: %s joins two results in a form other than one match on the pair" % name)
            run.ob("R8-COMBINERS-KEEP-BOTH", name + "|joined", len(pair_matches) >= 1, F.where(b),
                   "%s takes %d results and examines them together in one match on the pair (found %d such matches)" % (name, len(res_params), len(pair_matches)))
        if p.split(" as ")[0].startswith("<std::vec::Vec<") and p.endswith("alpha::resolver::Resolvable>::resolve"):
            # the list of statements / declarations / members: every element is resolved and every error list is kept.  Collecting
            # an iterator of results into one Result (FromIterator, try_fold, `?` in a loop) stops at the first element that fails:
            # the E400 / E420 / E8xx planted in a later statement of the same list would never be reported.
            n += 1
            stops = [x for x in walk(b["hir"]) if (x.get("k") == "MethodCall" and x.get("name") in ("collect", "try_fold", "try_for_each", "sum", "product", "find_map", "map_while", "take_while") and
                                                    (is_res(x.get("t")) or x.get("name") in ("map_while", "take_while", "find_map")))
                     or (x.get("k") == "Match" and "Try" in str(x.get("msrc")))]
            run.ob("R8-COMBINERS-KEEP-BOTH", "Vec<T>::resolve|every element", not stops, F.where(b, stops[0]) if stops else F.where(b),
                   "the list resolver visits every element and keeps every error list: no short-circuiting adaptor (collect into a Result, try_fold, "
                   "take_while, `?`) -- found %s" % sorted(set(x.get("name") or "?" for x in stops)))
            if not stops and not pair_matches:
                raise CannotAnalyse("R8-COMBINERS-KEEP-BOTH: the list resolver joins its element results in a form other than one match on the pair")
        for m in pair_matches:
            n += 1
            both = None
            single = {}
            for a in m["arms"]:
              for q in hirq.pat_alts(a["pat"]):
                q = hirq.strip_ref(q)
                if q.get("k") != "Tuple" or len(q.get("pats", [])) != 2:
                    continue
                kinds = []
                for e in q["pats"]:
                    e = hirq.strip_ref(e)
                    r = str(e.get("res") or e.get("path") or "")
                    kinds.append("Ok" if r.endswith("::Ok") else "Err" if r.endswith("::Err") else "?")
                if kinds == ["Err", "Err"]:
                    both = (a, q)
                elif "Err" in kinds and "Ok" in kinds:
                    single[tuple(kinds)] = (a, q)
            ok = False
            if both:
                a, q = both
                lids = [[lid for _, lid, _ in hirq.pat_bindings(e)] for e in q["pats"]]
                ok = all(l and any(hirq.uses_local(a["body"], x) for x in l) for l in lids)
                # the value of the arm is an Err
                cons = [hirq.short(pp) for pp, _ in hirq.constructs(a["body"])]
                ok = ok and any(c.endswith("Err") for c in cons)
            run.ob("R8-COMBINERS-KEEP-BOTH", name + "|(Err, Err)", ok, F.where(b, both[0] if both else m),
                   "when both results are errors the outcome is an Err built from the errors of both")
            for kinds in (("Ok", "Err"), ("Err", "Ok")):
                a, q = single.get(kinds, (None, None))
                ok = False
                if a:
                    e = hirq.strip_ref(q["pats"][kinds.index("Err")])
                    lids = [lid for _, lid, _ in hirq.pat_bindings(e)]
                    body = hirq.unwrap_trivial(a["body"])
                    ok = bool(lids) and body.get("k") == "Call" and (hirq.callee(body) or "").endswith("Err") and any(hirq.uses_local(body, x) for x in lids)
                run.ob("R8-COMBINERS-KEEP-BOTH", name + "|(%s, %s)" % kinds, ok, F.where(b, a or m), "one error list: it is the outcome")
    # the wider tuples are built on the pair: one `.resolve()?` on a nesting of pairs; two in sequence would stop at the first half that
    # fails (the parameters of a function) and never report the errors of the second (its body)
    for p, b in sorted(C.bodies.items()):
        if "hir" not in b or not p.endswith("alpha::resolver::Resolvable>::resolve") or not p.startswith("<("):
            continue
        width = p.split(" as ")[0].count(",") + 1
        if width < 3:
            continue
        res = [x for x in walk(b["hir"]) if x.get("k") == "MethodCall" and x.get("name") == "resolve"]
        run.ob("R8-COMBINERS-KEEP-BOTH", "%d-tuple|one resolve" % width, len(res) == 1, F.where(b, res[1]) if len(res) > 1 else F.where(b),
               "the %d-tuple resolves all its parts in one `.resolve()` on nested pairs (found %d calls): the errors of all parts are reported together" % (width, len(res)))
    run.floor("R8-COMBINERS-KEEP-BOTH", 19, "obligations on the four places where two results are joined (combine, accumulate, Vec fold, pair)")


def r9_every_declaration_linted(run, F):
    """L1800 (a braced if-branch that starts with `loop`) is a verdict on the *source*, observed at `Compiler::take_lints()` whatever
    else is wrong with the function: the linter runs on every declaration the analyzer hands back.  Decided on the MIR of the
    per-declaration closure of `analyze_and_resolve_sorted`: the call of `Linter::lint` is dominated by the call of
    `Analyzer::analyze` (it sees the analysed declaration) and every path from that call to a normal return of the closure passes
    through it -- in particular it does not hang on the outcome of `resolver::resolve`, which fails exactly for the functions that
    have another error."""
    cl = None
    for p, b in F.lib.bodies.items():
        if p.startswith("alpha::Compiler::analyze_and_resolve_sorted::{closure") and "mir" in b:
            cfg = mirq.CFG(b)
            if any((mirq.call_target(t) or "") == "alpha::analyzer::Analyzer::analyze" for i, t in cfg.calls()):
                cl = b
    run.require(cl is not None, "closure calling analyzer.analyze not found in analyze_and_resolve_sorted")
    cfg = mirq.CFG(cl)
    ana = [i for i, t in cfg.calls() if mirq.call_target(t) == "alpha::analyzer::Analyzer::analyze"]
    lint = [i for i, t in cfg.calls() if mirq.call_target(t) == "alpha::linter::Linter::lint"]
    ok = bool(lint) and all(any(cfg.dominates(a, l) for a in ana) for l in lint)
    run.ob("R9-EVERY-DECLARATION-LINTED", "lint after analyze", ok, F.where(cl, cfg.term(lint[0])) if lint else F.where(cl),
           "Linter::lint is called on the declaration the analyzer produced (%d lint call(s), %d analyze call(s))" % (len(lint), len(ana)))
    escaped = []
    if lint:
        for a in ana:
            seen = cfg.reachable_from(cfg.succ[a], cut=set(lint))
            escaped += [x for x in seen if x in cfg.exits()]
    run.ob("R9-EVERY-DECLARATION-LINTED", "lint on every path", bool(lint) and not escaped, F.where(cl, cfg.term(lint[0])) if lint else F.where(cl),
           "every path from Analyzer::analyze to a normal return of the closure passes through Linter::lint (the lint may not depend on the "
           "outcome of resolver::resolve or of code generation); %d return block(s) reachable around it" % len(set(escaped)))
    run.floor("R9-EVERY-DECLARATION-LINTED", 2, "obligations on the per-declaration closure")


def check(run):
    F = run.facts("B")
    r7_errors_merged(run, F)
    r8_combiners_keep_both(run, F)
    r9_every_declaration_linted(run, F)
    # a `loop` that ends a block is only *accepted* if the looped block compiles: the back edge needs a block of its own (shared with C03.R11)
    from props import c03 as _c03
    _c03.r11_branch_targets(run, F)
    r1_emission(run, F)
    r2_flags(run, F)
    r3_lint(run, F)
    r3b_lint_typestate(run, F)
    r4_generator(run, F)
    r4b_blocks_stay_blocks(run, F)
    r5_visit(run, F)
    r6_pass_order(run, F)
    # the flags and the lint list live in per-module analyzer / linter objects: a second module must start from fresh ones,
    # or it inherits `is_in_block` / reports the first module's L1800 again (shared with C12.R3)
    from props import c12
    c12.r3_compiler_reset(run, F)
