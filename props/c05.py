"""C05 -- no variable is used out of scope, shadowed, or with its declaration skipped."""
from rules import hirq, mirq, balance, visit
from rules.core import walk, norm_path, AnchorMissing, CannotAnalyse

LEVEL = "other"
EXPLANATION = (
    "Static analysis of the variable scoper (cfg B). Decided (necessary parts of the mechanism): R1 scope pairing: "
    "push_scope/pop_scope path-balance (max and min over all paths) is 0 for every Analyzable impl of "
    "variable_references.rs, closures included; R2 a variable is declared only after its initialiser and type were "
    "analysed, parameters are declared before the body; R3 pass order predeclare < analyze < determine_container_depths "
    "< postanalyze; R4 skip-detection wiring: the Goto arm calls prepare_to_prune_at_goto, the Label arm prune_at_label, "
    "use_variable consults pruned_variables before returning Ok and builds VariableDeclarationMayBeSkipped, "
    "prepare_to_prune_at_goto intersects (retain) and prune_at_label only prunes variables absent from the intersection; "
    "R5 declare_variable and use_variable scan every layer, use_constant scans layer 0 first and reports "
    "NotACompileTimeConstant for deeper layers; R6 code table 402/422/424/426/482/433 and the parameter/member remapping; "
    "R7 visitor completeness: every field of every node that can contain a Reference, Expression or ValueType reaches an "
    "analyze call (reviewed exceptions: type annotations that are only filled in by the typer). Soundness of the pruning "
    "algorithm over all control-flow graphs is not decided."
    " ADDED LATER: R8 who may write the scoper's state (scope stack, pruning tables, the constant-initialiser context)."
    " ROUND 9: R4-IDENTITY-BY-ID: the sets of the goto pruning are keyed by resolution id (collecting closure and membership test), not by name."
    " ROUND 10: R4-LABEL-SET-CONSUMED: either every return of prune_at_label is dominated by the removal of the label's entry from unresolved_labels, or label ids are never reused in a module (the label analyzer's resolution_id is only incremented) -- one obligation, because either half alone keeps a stale goto set from meeting another label."
    " ROUND 12: R4-PRUNE-UNCONDITIONAL: with the None edges of its discriminant switches removed, every path through prune_at_label passes the filter of the layer's variables against the intersection (no fast path that decides by counts).")

VR = "alpha::scoper::variable_references::"
AN = VR + "Analyzer::"

VISIT_EXCEPTIONS = {
    "Expression::ArrayLiteral.element_type": "Option<Poisonable<ValueType>> is None until typer.rs fills it in (who-constructs check R7-TYPER-ONLY)",
    "Expression::Deref.deref_type": "None until the typer; filled by typer.rs only",
    "Expression::BitCast.coerced_type": "None until the typer; filled by typer.rs only",
    "Expression::FunctionCall.return_type": "None until the typer; filled by typer.rs only",
    "Expression::Autocoerce.expression": "Autocoerce nodes are only constructed by the typer (arm is unreachable!() here)",
    "Expression::Autocoerce.coerced_type": "Autocoerce nodes are only constructed by the typer (arm is unreachable!() here)",
    "Expression::SignedIntegerLiteral.value_type": "literal suffix types are primitive (no identifiers to resolve)",
    "Expression::BitIntegerLiteral.value_type": "literal suffix types are primitive (no identifiers to resolve)",
    "Declaration::Poison.0": "poisoned declarations carry no tree",
    "Statement::Poison.0": "poisoned statements carry no tree",
    "Expression::Poison.0": "poisoned expressions carry no tree",
}


def r1_balance(run, F):
    region = set(p for p, b in F.lib.bodies.items() if F.rel(b["file"]) == "src/alpha/scoper/variable_references.rs" and "mir" in b)
    PUSH, POP = AN + "push_scope", AN + "pop_scope"
    run.require(PUSH in region and POP in region, "push_scope/pop_scope not found")
    reg = region - {PUSH, POP}
    mx, gx = balance.recursion_growth(F.lib, reg, {PUSH: 1, POP: -1}, {}, "max")
    mn, gn = balance.recursion_growth(F.lib, reg, {PUSH: 1, POP: -1}, {}, "min")
    run.note_analysed("R1 functions", mx.functions)
    n = 0
    for p in sorted(reg):
        if not (p.endswith("Analyzable>::analyze") or "{closure" in p or p in (VR + "analyze", VR + "analyze_type", VR + "predeclare", VR + "postanalyze")):
            continue
        a, b = mx.summary.get(p), mn.summary.get(p)
        n += 1
        label = p.split(" as ")[0].replace("<alpha::common::", "").replace("<", "") + ("::closure" + p.split("{closure")[1] if "{closure" in p else "")
        unb = set(u[0] for u in mx.unbounded) | set(u[0] for u in mn.unbounded)
        run.ob("R1-SCOPE-BALANCE", label[-70:], a == 0 and b == 0 and p not in unb and p not in gx and p not in gn,
               F.where(F.lib.bodies[p]), "push_scope/pop_scope balance must be 0 on every path (max %s, min %s)" % (a, b))
    run.require(n >= 15, "too few functions in the balance region (%d)" % n)
    # the impls that open a scope
    opened = []
    for p in sorted(reg):
        b = F.lib.bodies[p]
        cfg = mirq.CFG(b)
        if any(mirq.call_target(t) == PUSH for i, t in cfg.calls()):
            opened.append(p.split(" as ")[0].split("::")[-1])
    want = {"Declaration", "FunctionBody", "Block", "Array"}
    run.ob("R1-SCOPES-OPENED", "who opens scopes", set(opened) == want, "src/alpha/scoper/variable_references.rs",
           "scopes are opened by exactly the impls for %s: %s" % (sorted(want), sorted(opened)))


def line_of_call(body, pred):
    return [c["l"] for c in hirq.calls(body) if pred(c)]


def r2_order(run, F):
    st = F.body("<alpha::common::Statement as alpha::scoper::variable_references::Analyzable>::analyze")
    m = [x for x in hirq.matches(st["hir"]) if hirq.n_alts(x) >= 8][0]
    arm = hirq.arm_for(m, "Statement::Declaration")
    run.require(arm, "Statement::Declaration arm not found")
    an = line_of_call(arm[0]["body"], lambda c: c.get("k") == "MethodCall" and c.get("name") == "analyze")
    dv = line_of_call(arm[0]["body"], lambda c: hirq.callee(c) == AN + "declare_variable")
    run.ob("R2-DECLARE-AFTER-INITIALISER", "Statement::Declaration", len(an) == 2 and len(dv) == 1 and max(an) < dv[0], F.where(st, arm[0]),
           "value and value_type are analysed before the variable is declared (no reflexive definitions such as `var x = x;`)")
    d = F.body("<alpha::common::Declaration as alpha::scoper::variable_references::Analyzable>::analyze")
    dm = [x for x in hirq.matches(d["hir"]) if hirq.n_alts(x) >= 5][0]
    farm = hirq.arm_for(dm, "Declaration::Function")
    run.require(farm, "Declaration::Function arm not found")
    # parameters analysed (declared) before the body
    pl = [c["l"] for c in hirq.calls(farm[0]["body"]) if c.get("k") == "MethodCall" and c.get("name") == "collect"]
    bl = [c["l"] for c in hirq.calls(farm[0]["body"]) if c.get("k") == "MethodCall" and c.get("name") == "analyze"
          and hirq.local_name_of(hirq.unwrap_trivial(c["recv"])) == "body"]
    run.ob("R2-PARAMETERS-BEFORE-BODY", "Declaration::Function", bool(pl) and bool(bl) and min(pl) < min(bl), F.where(d, farm[0]),
           "parameters are declared before the body is analysed")
    p = F.body("<alpha::common::Parameter as alpha::scoper::variable_references::Analyzable>::analyze")
    cs = [hirq.callee(c) for c in hirq.calls(p["hir"])]
    run.ob("R2-PARAMETERS-BEFORE-BODY", "Parameter declares", AN + "declare_parameter" in cs, F.where(p), "Parameter::analyze must call declare_parameter")


def r3_passes(run, F):
    b = F.body(VR + "analyze")
    seq = []
    for c in hirq.calls(b["hir"]):
        cn = hirq.callee(c)
        if cn in (VR + "predeclare", VR + "postanalyze", AN + "determine_container_depths"):
            seq.append((cn.split("::")[-1], c["l"]))
        if c.get("k") == "MethodCall" and c.get("name") == "analyze":
            seq.append(("analyze", c["l"]))
    names = [x[0] for x in sorted(seq, key=lambda x: x[1])]
    run.ob("R3-PASS-ORDER", "variable_references::analyze", names == ["predeclare", "analyze", "determine_container_depths", "postanalyze"], F.where(b),
           "all top-level names are predeclared before any body is analysed, container depths are computed after: %s" % names)
    # each pass is collected before the next starts (three collect() calls)
    cols = [c for c in hirq.calls(b["hir"]) if c.get("k") == "MethodCall" and c.get("name") == "collect"]
    run.ob("R3-PASS-ORDER", "passes are materialised", len(cols) == 3, F.where(b), "each lazy map must be collected before the next pass (found %d collect calls)" % len(cols))
    # layer 0 exists for constants
    vs = [n for n in walk(b["hir"]) if n.get("k") == "Let" and n["pat"].get("name") == "variable_stack"]
    run.ob("R3-LAYER-ZERO", "variable_stack starts with one layer", len(vs) == 1 and (vs[0]["init"].get("src") or "").startswith("vec![Vec::new()]"), F.where(b),
           "layer 0 of the variable stack holds the constants")


def r4_pruning(run, F):
    st = F.body("<alpha::common::Statement as alpha::scoper::variable_references::Analyzable>::analyze")
    m = [x for x in hirq.matches(st["hir"]) if hirq.n_alts(x) >= 8][0]
    for variant, fn in (("Goto", "prepare_to_prune_at_goto"), ("Label", "prune_at_label")):
        arm = hirq.arm_for(m, "Statement::" + variant)
        cs = [hirq.callee(c) for c in hirq.calls(arm[0]["body"])] if arm else []
        run.ob("R4-PRUNING-WIRED", variant, cs.count(AN + fn) == 1, F.where(st), "the %s arm must call %s" % (variant, fn))
    uv = F.body(AN + "use_variable")
    cons = [hirq.short(p) for p, _ in hirq.constructs(uv["hir"])]
    rem = [c for c in hirq.calls(uv["hir"]) if c.get("k") == "MethodCall" and c.get("name") == "remove"
           and hirq.unwrap_trivial(c["recv"]).get("name") == "pruned_variables"]
    ctn = [c for c in hirq.calls(uv["hir"]) if c.get("k") == "MethodCall" and c.get("name") == "contains"
           and hirq.unwrap_trivial(c["recv"]).get("name") == "poisoned_variables"]
    okc = [c for c in hirq.calls(uv["hir"]) if hirq.callee(c) == AN + "use_containee"]
    ok = "Error::VariableDeclarationMayBeSkipped" in cons and len(rem) == 1 and len(ctn) == 1 and len(okc) == 1 and \
        rem[0]["l"] < okc[0]["l"] and ctn[0]["l"] < okc[0]["l"]
    run.ob("R4-USE-CHECKS-PRUNED", "use_variable", ok, F.where(uv),
           "use_variable must consult pruned_variables and poisoned_variables before accepting the use, and report E482")
    # MIR: the Ok path (use_containee) is only reachable on the None edge of pruned_variables.remove and the false edge of contains
    cfg = mirq.CFG(uv)
    remb = [i for i, t in cfg.calls() if (mirq.call_target(t) or "").endswith("HashMap::remove")]
    conb = [i for i, t in cfg.calls() if (mirq.call_target(t) or "").endswith("HashSet::contains")]
    ucb = [i for i, t in cfg.calls() if mirq.call_target(t) == AN + "use_containee"]
    good = False
    if remb and conb and ucb:
        sw = mirq.enum_switch_after_call(cfg, remb[0])
        bs = mirq.bool_switch_after_call(cfg, conb[0])
        if sw and bs:
            none_edge = sw[0].get(0, sw[1])
            good = cfg.dominates(none_edge, ucb[0]) and cfg.dominates(bs[1], ucb[0])
    run.ob("R4-USE-CHECKS-PRUNED", "use_variable (paths)", good, F.where(uv),
           "use_containee (the accepting exit) is dominated by the `not pruned` and `not poisoned` edges")
    pg = F.body(AN + "prepare_to_prune_at_goto")
    names = [c.get("name") for c in hirq.calls(pg["hir"]) if c.get("k") == "MethodCall"]
    # growing the *kept* set (a field read `.intersection_of_variables` as receiver) would make it a union; building the local set of
    # this goto with insert/extend is fine
    grows = [c for c in hirq.calls(pg["hir"]) if c.get("k") == "MethodCall" and c.get("name") in ("extend", "insert", "append", "union")
             and any(x.get("k") == "Field" and x.get("name") == "intersection_of_variables" for x in walk(c["recv"]))]
    ok = "retain" in names and "and_modify" in names and "or_insert" in names and not grows
    run.ob("R4-INTERSECTION", "prepare_to_prune_at_goto", ok, F.where(pg),
           "the set kept per label must be the *intersection* of the variables in scope at each goto (retain), never a union: %s" % names)
    # the retain closure keeps x iff variables_in_scope.contains(x)
    okr = False
    for c in hirq.calls(pg["hir"]):
        if c.get("k") == "MethodCall" and c.get("name") == "retain":
            cl = c["a"][0]
            body = hirq.unwrap_trivial(cl["body"]) if cl.get("k") == "Closure" else {}
            if body.get("k") == "MethodCall" and body.get("name") == "contains" and hirq.local_name_of(hirq.unwrap_trivial(body["recv"])) == "variables_in_scope":
                okr = True
    run.ob("R4-INTERSECTION", "retain closure", okr, F.where(pg), "retain(|x| variables_in_scope.contains(x))")
    pl = F.body(AN + "prune_at_label")
    okf = False
    for c in hirq.calls(pl["hir"]):
        if c.get("k") == "MethodCall" and c.get("name") == "filter":
            cl = c["a"][0]
            body = hirq.unwrap_trivial(cl["body"]) if cl.get("k") == "Closure" else {}
            if body.get("k") == "Unary" and body.get("op") == "Not":
                inner = hirq.unwrap_trivial(body["e"])
                if inner.get("k") == "MethodCall" and inner.get("name") == "contains" and \
                        hirq.local_name_of(hirq.unwrap_trivial(inner["recv"])) == "intersection_of_variables":
                    okf = True
    names = [c.get("name") for c in hirq.calls(pl["hir"]) if c.get("k") == "MethodCall"]
    run.ob("R4-PRUNE-COMPLEMENT", "prune_at_label", okf and "last" in names and "remove" in names, F.where(pl),
           "at a label, the variables of the label's layer that were *not* in scope at every goto are marked as possibly skipped")


def r4b_identity_by_id(run, F):
    """Names are not identities: a nested block may declare `a`, and the enclosing block may declare another `a` later.  The sets
    that carry "which declarations were in scope at the goto" / "which may have been skipped" are keyed by the declaration's
    resolution id.  In prepare_to_prune_at_goto and prune_at_label the only thing read from an identifier to identify it is
    `resolution_id` (its location may be read for a diagnostic); `name` is never consulted there, in whatever form the code is
    written (closure, loop, helper-free)."""
    for fn in ("prepare_to_prune_at_goto", "prune_at_label"):
        b = F.body(AN + fn)
        reads = []
        for n in walk(b["hir"]):
            if n.get("k") == "Field":
                inner = hirq.unwrap_trivial(n["e"])
                t = str(F.lib.ty(inner.get("t"))) if inner.get("t") is not None else ""
                if t.replace("&", "").replace("mut ", "").strip().endswith("common::Identifier"):
                    reads.append((n.get("name"), n))
        names = sorted(set(k for k, _ in reads))
        bad = [x for x in reads if x[0] not in ("resolution_id", "location")]
        run.ob("R4-IDENTITY-BY-ID", fn, "resolution_id" in names and not bad, F.where(b, bad[0][1]) if bad else F.where(b),
               "variables are identified by resolution id in the goto pruning, never by name (a later declaration of the same name is another variable): "
               "fields of identifiers read here: %s" % names)


def r4c_label_set_consumed(run, F):
    """The set "variables in scope at every goto to this label" lives in a per-module map keyed by the label's resolution id.  It is
    taken out of the map at the label on *every* path through prune_at_label (MIR: each return is dominated by the `remove`), and
    label ids are never handed out twice in a module (the label analyzer's counter is only ever incremented).  Either condition
    alone keeps a stale set from meeting an unrelated label; a shortcut in front of the `remove` together with per-function label
    ids lets a goto of one function prune the variables of another (spurious E482)."""
    pl = F.body(AN + "prune_at_label")
    cfg = mirq.CFG(pl)
    rem = [i for i, t in cfg.calls() if (mirq.call_target(t) or "").endswith(("HashMap::remove", "BTreeMap::remove", "HashMap::remove_entry"))]
    exits = cfg.exits()
    consumed = bool(rem) and bool(exits) and all(any(cfg.dominates(r, e) for r in rem) for e in exits)
    writes = []
    for p, b in sorted(F.lib.bodies.items()):
        if "hir" not in b or not F.rel(b["file"]).endswith("scoper/label_references.rs"):
            continue
        for n in walk(b["hir"]):
            if n.get("k") in ("Assign", "AssignOp"):
                l = hirq.unwrap_trivial(n["lhs"])
                if l.get("k") == "Field" and l.get("name") == "resolution_id":
                    inc = any(x is n for _, x in _field_increments(b["hir"]))
                    writes.append((p.split("::")[-1], inc, b, n))
    bad = [w for w in writes if not w[1]]
    unique = bool(writes) and not bad
    run.ob("R4-LABEL-SET-CONSUMED", "a stale goto set never meets another label", consumed or unique, F.where(bad[0][2], bad[0][3]) if bad else F.where(pl),
           "either every return of prune_at_label is dominated by the removal of the label's entry from unresolved_labels (%s: %d removal(s), %d return block(s)) or "
           "label ids are never reused in a module (%s: %d write(s) of the label analyzer's resolution_id, %d of them not an increment); with neither, the goto "
           "set of one function prunes the variables of another" % (consumed, len(rem), len(exits), unique, len(writes), len(bad)))


def _field_increments(node):
    for n in walk(node):
        if n.get("k") == "AssignOp" and n.get("op") in ("Add", "AddAssign"):
            yield None, n
        elif n.get("k") == "Assign":
            l = hirq.unwrap_trivial(n["lhs"])
            r = hirq.unwrap_trivial(n["rhs"])
            if l.get("k") == "Field" and r.get("k") == "Binary" and r.get("op") == "Add" and \
                    any(hirq.unwrap_trivial(r[s_]).get("k") == "Field" and hirq.unwrap_trivial(r[s_]).get("name") == l.get("name") for s_ in ("lhs", "rhs")):
                yield None, n


def r5_lookup(run, F):
    dv = F.body(AN + "declare_variable")
    loops = [m for m in hirq.matches(dv["hir"], msrc=None) if (m.get("msrc") or "").startswith("ForLoopDesugar")
             and m["scrut"].get("k") == "Call" and (m["scrut"].get("callee") or "").endswith("into_iter")]
    ok = any(hirq.unwrap_trivial(m["scrut"]["a"][0]).get("name") == "variable_stack" for m in loops)
    cons = [hirq.short(p) for p, _ in hirq.constructs(dv["hir"])]
    run.ob("R5-SCAN-ALL-LAYERS", "declare_variable", ok and "Error::DuplicateDeclarationVariable" in cons, F.where(dv),
           "a declaration clashes with any visible name in any layer (shadowing is rejected), constants in layer 0 included")
    uv = F.body(AN + "use_variable")
    names = [c.get("name") for c in hirq.calls(uv["hir"]) if c.get("k") == "MethodCall"]
    chain_ok = "flat_map" in names and "find" in names and "skip" not in names and "last" not in names
    cons = [hirq.short(p) for p, _ in hirq.constructs(uv["hir"])]
    run.ob("R5-SCAN-ALL-LAYERS", "use_variable", chain_ok and "Error::UndefinedVariable" in cons, F.where(uv),
           "a use is resolved against every layer; an unknown name is UndefinedVariable")
    uc = F.body(AN + "use_constant")
    names = [c.get("name") for c in hirq.calls(uc["hir"]) if c.get("k") == "MethodCall"]
    cons = [hirq.short(p) for p, _ in hirq.constructs(uc["hir"])]
    gets = [c for c in hirq.calls(uc["hir"]) if c.get("k") == "MethodCall" and c.get("name") == "get" and c["a"] and c["a"][0].get("v") == 0]
    skips = [c for c in hirq.calls(uc["hir"]) if c.get("k") == "MethodCall" and c.get("name") == "skip" and c["a"] and c["a"][0].get("v") == 1]
    run.ob("R5-CONSTANT-LAYER", "use_constant", len(gets) == 1 and len(skips) == 1 and "Error::NotACompileTimeConstant" in cons and "Error::UndefinedVariable" in cons,
           F.where(uc), "array lengths must name a constant of layer 0; a variable of a deeper layer is NotACompileTimeConstant")
    # name equality closures compare .name of both sides
    for b in (dv, uv, uc):
        finds = [c for c in hirq.calls(b["hir"]) if c.get("k") == "MethodCall" and c.get("name") == "find"]
        ok = bool(finds)
        for f in finds:
            cl = f["a"][0]
            body = hirq.unwrap_trivial(cl["body"]) if cl.get("k") == "Closure" else {}
            fields = sorted(x.get("name") for x in walk(body) if x.get("k") == "Field")
            ok = ok and body.get("k") == "Binary" and body.get("op") == "Eq" and fields == ["name", "name"]
        run.ob("R5-NAME-EQUALITY", b["npath"].split("::")[-1], ok, F.where(b), "names are matched by string equality")


def r6_codes(run, F):
    code = F.body("alpha::error::Error::code")
    cm = [x for x in hirq.matches(code["hir"]) if hirq.n_alts(x) > 40][0]
    rows = {hirq.pat_key(a["pat"]): hirq.unwrap_trivial(a["body"]).get("v") for a in cm["arms"]}
    for v, c in (("Error::UndefinedVariable", 402), ("Error::DuplicateDeclarationVariable", 422), ("Error::DuplicateDeclarationParameter", 424),
                 ("Error::DuplicateDeclarationMember", 426), ("Error::VariableDeclarationMayBeSkipped", 482), ("Error::NotACompileTimeConstant", 433)):
        run.ob("R6-CODES", v, rows.get(v) == c, F.where(code), "%s must have code %d (found %s)" % (v, c, rows.get(v)))
    for fn, target in (("declare_parameter", "Error::DuplicateDeclarationParameter"), ("declare_member", "Error::DuplicateDeclarationMember")):
        b = F.body(AN + fn)
        ms = [m for m in hirq.matches(b["hir"])]
        ok = False
        for m in ms:
            for a in m["arms"]:
                if hirq.pat_key(a["pat"]) == "Error::DuplicateDeclarationVariable":
                    ok = [hirq.short(p) for p, _ in hirq.constructs(a["body"])] == [target]
        cs = [hirq.callee(c) for c in hirq.calls(b["hir"])]
        run.ob("R6-REMAPPING", fn, ok and AN + "declare_variable" in cs, F.where(b), "%s remaps the variable clash to %s" % (fn, target))


def r7_visit(run, F):
    C = F.lib
    rel = visit.type_closure(C, {"alpha::common::Expression", "alpha::common::Reference", "alpha::value_type::ValueType"})
    impls = [b for b in C.bodies.values() if b.get("impl_trait") == "alpha::scoper::variable_references::Analyzable" and "{closure" not in b["npath"]]
    run.require(len(impls) >= 11, "variable_references Analyzable impls not found (%d)" % len(impls))

    def is_trav(c):
        return c.endswith("variable_references::Analyzable>::analyze") or c == "alpha::scoper::variable_references::Analyzable::analyze" \
            or c in (VR + "analyze_type", AN + "use_variable", AN + "use_struct", AN + "use_constant", AN + "found_container")
    n = 0
    for b in impls:
        def rep(key, ok, where, detail, sample):
            run.ob("R7-SCOPER-VISITS", key, ok, where, detail + ": names inside it would never be resolved or checked", sample)
        n += visit.check_impl(F, C, b, rel, is_trav, rep, exceptions=VISIT_EXCEPTIONS)
    run.require(n >= 40, "too few visit obligations (%d)" % n)
    # exceptions rest on: Some(..) for these option fields is only built in typer.rs
    for field, variant in (("deref_type", "Deref"), ("coerced_type", "BitCast"), ("return_type", "FunctionCall"), ("element_type", "ArrayLiteral")):
        bad = []
        for b in C.bodies.values():
            if "hir" not in b:
                continue
            relf = F.rel(b["file"])
            if not (relf in ("src/alpha/parser.rs", "src/alpha/expander.rs", "src/alpha/common.rs") or relf.startswith("src/alpha/scoper")):
                continue
            for p, node in hirq.constructs(b["hir"]):
                if p == "alpha::common::Expression::" + variant and node.get("k") == "Struct":
                    for f in node["fields"]:
                        if f["name"] == field:
                            e = hirq.unwrap_trivial(f["e"])
                            somes = [hirq.short(x) for x, _ in hirq.constructs(e)]
                            if any(s.endswith("Some") for s in somes):
                                bad.append(F.where(b, node))
        run.ob("R7-TYPER-ONLY", "%s.%s" % (variant, field), not bad, bad[0] if bad else "src/alpha",
               "Expression::%s.%s is given a type before the typer stage (%s): the scoper does not resolve identifiers in it" % (variant, field, bad[:3]))


READ_ONLY_METHODS = {"iter", "get", "last", "first", "contains", "contains_key", "len", "is_empty", "keys", "values"}
STATE_WRITERS = {
    # field: {function: {mutating methods / "=" for assignment}}  -- confirmed by reading variable_references.rs
    "variable_stack": {"Analyzer::push_scope": {"push"}, "Analyzer::pop_scope": {"pop"},
                       "Analyzer::declare_variable": {"last_mut"}, "Analyzer::declare_constant": {"last_mut"}},
    "pruned_variables": {"Analyzer::prune_at_label": {"entry"}, "Analyzer::use_variable": {"remove"}},
    "poisoned_variables": {"Analyzer::use_variable": {"insert"}},
    "unresolved_labels": {"Analyzer::prepare_to_prune_at_goto": {"entry"}, "Analyzer::prune_at_label": {"remove"}},
    # the "we are inside the initialiser of constant X" context that turns every used name into a containee of X
    # (containment feeds cycle detection and the depth sort of C11): set and cleared around the initialiser only
    "in_constexpr_of_constant": {"<alpha::common::Declaration as Analyzable>::analyze": {"="}},
}


def r8_state_writers(run, F):
    """Who may write the scoper's state (T5): the scope stack and the goto-pruning tables are only changed by the functions
    that implement scoping and pruning.  Any other writer (a `retain` on scope exit, a `clear` between functions) changes
    which declarations a later use can see or which skipped declarations are still remembered."""
    found = {}
    where = {}
    for p, b in F.lib.bodies.items():
        if "hir" not in b or not F.rel(b["file"]).endswith("scoper/variable_references.rs"):
            continue
        fn = p.replace(VR, "").split("::{closure")[0]
        for n in walk(b["hir"]):
            fld = meth = None
            if n.get("k") == "MethodCall":
                r = hirq.unwrap_trivial(n["recv"])
                if r.get("k") == "Field" and r.get("name") in STATE_WRITERS and n["name"] not in READ_ONLY_METHODS:
                    fld, meth = r["name"], n["name"]
            elif n.get("k") in ("Assign", "AssignOp"):
                l = hirq.unwrap_trivial(n["lhs"])
                if l.get("k") == "Field" and l.get("name") in STATE_WRITERS:
                    fld, meth = l["name"], "="
            elif n.get("k") == "AddrOf" and n.get("mut"):
                r = hirq.unwrap_trivial(n.get("e", {}))
                if r.get("k") == "Field" and r.get("name") in STATE_WRITERS:
                    fld, meth = r["name"], "&mut"
            if fld:
                found.setdefault(fld, {}).setdefault(fn, set()).add(meth)
                where.setdefault((fld, fn, meth), F.where(b, n))
    # an accessor extracted from the reviewed writers (`fn innermost_scope(&mut self) -> &mut Vec<_>`): a function outside the
    # table whose every caller is a reviewed writer of the field acts on behalf of its callers -- its writes are attributed
    # to them (it hands no new function access to the state)
    g = mirq.callgraph(F.lib)
    callers = {}
    for f_, outs in g.items():
        for o in outs:
            callers.setdefault(o, set()).add(f_)
    for fld, ref in STATE_WRITERS.items():
        got = found.get(fld, {})
        for fn in sorted(set(got) - set(ref)):
            full = [p for p in F.lib.bodies if p.replace(VR, "").split("::{closure")[0] == fn and "{closure" not in p]
            cs = set(c.replace(VR, "").split("::{closure")[0] for f_ in full for c in callers.get(f_, ()))
            if cs and cs <= set(ref) and all(got[fn] <= ref[c] for c in cs):
                for c in cs:
                    got.setdefault(c, set()).update(got[fn])
                    for m in got[fn]:
                        where.setdefault((fld, c, m), where[(fld, fn, m)])
                del got[fn]
    for fld, ref in STATE_WRITERS.items():
        got = found.get(fld, {})
        for fn, ms in sorted(got.items()):
            for m in sorted(ms):
                run.ob("R8-STATE-WRITERS", "%s|%s|%s" % (fld, fn, m), m in ref.get(fn, set()), where[(fld, fn, m)],
                       "`%s` is written by %s (%s); reviewed writers: %s" % (fld, fn, m, {k: sorted(v) for k, v in ref.items()}))
        for fn, ms in ref.items():
            for m in ms:
                run.ob("R8-STATE-WRITERS", "%s|%s|%s present" % (fld, fn, m), m in got.get(fn, set()), "src/alpha/scoper/variable_references.rs",
                       "the reviewed writer %s.%s() in %s is gone" % (fld, m, fn))


def r4d_prune_unconditional(run, F):
    """Whether a declaration was skipped is a question about *which* variables were in scope at every goto, not how many: the set
    recorded at a goto contains variables of nested blocks that are closed again at the label, so equal sizes do not mean equal
    sets.  At a label that has gotos (the entry was found) in a block that has a layer, the variables of the layer are always
    compared with the intersection, one by one.  Decided on the MIR of prune_at_label: with the `None` edges of its discriminant
    switches taken away (no gotos for this label / no open layer), every path from the entry to a return passes through the
    `filter` over the layer's variables; a guard, an early return or a fast path in front of it is reported."""
    pl = F.body(AN + "prune_at_label")
    cfg = mirq.CFG(pl)
    cut = set(i for i, t in cfg.calls() if (mirq.call_target(t) or "").endswith("Iterator::filter"))
    if not cut:
        raise CannotAnalyse("R4-PRUNE-UNCONDITIONAL: prune_at_label selects the skipped variables in a form other than a `filter` over the layer")
    none_edges = set()
    for sw in mirq.discr_switches(cfg):
        if 0 in sw["targets"]:
            none_edges.add((sw["block"], sw["targets"][0]))
        elif 1 in sw["targets"] and sw.get("otherwise") is not None:
            none_edges.add((sw["block"], sw["otherwise"]))
    seen, st = set(), [0]
    while st:
        x = st.pop()
        if x in seen or x in cut:
            continue
        seen.add(x)
        st.extend(y for y in cfg.succ[x] if (x, y) not in none_edges)
    around = sorted(x for x in seen if x in cfg.exits())
    run.ob("R4-PRUNE-UNCONDITIONAL", "prune_at_label", not around and bool(none_edges), F.where(pl),
           "when the label has gotos and the block has a layer, every path through prune_at_label compares the layer's variables with the "
           "intersection (%d `filter` call(s), %d None edge(s) removed); %d return block(s) can be reached around it: a fast path decides "
           "by something other than set membership" % (len(cut), len(none_edges), len(around)))


def check(run):
    F = run.facts("B")
    r1_balance(run, F)
    r2_order(run, F)
    r3_passes(run, F)
    r4_pruning(run, F)
    r4b_identity_by_id(run, F)
    r4c_label_set_consumed(run, F)
    r4d_prune_unconditional(run, F)
    r5_lookup(run, F)
    r6_codes(run, F)
    r7_visit(run, F)
    r8_state_writers(run, F)
    if run.tier == "thorough":
        FA = run.facts("A")
        run.key_prefix = "cfgA:"
        for fn in (r1_balance, r2_order, r3_passes, r4_pruning, r5_lookup, r6_codes, r7_visit, r8_state_writers):
            fn(run, FA)
        run.key_prefix = ""
