"""C04 -- goto only jumps forward and outward."""
from rules import hirq, mirq, balance, visit
from rules.core import walk, norm_path, AnchorMissing

LEVEL = "other"
EXPLANATION = (
    "Static analysis of the label scoper (cfg B). Decided (the mechanism's necessary parts): R1 scope pairing: "
    "interprocedural path-balance over all functions of label_references.rs with push_scope = +1, pop_scope = -1: the "
    "maximum and the minimum over all paths of every Analyzable impl are 0 (every scope that is opened is closed, on every "
    "path, also across the recursion through blocks); R2 reverse scoping: FunctionBody and Block analyse their statements "
    "through into_iter().rev().map(..).collect() between push_scope and pop_scope and restore the order with reverse(); "
    "R3 use_label searches every scope by name and falls through to UndefinedLabel; declare_label checks every scope for "
    "a clash (DuplicateDeclarationLabel), assigns a fresh resolution id and pushes into the innermost scope; R4 the Goto "
    "and Label arms rebuild their node only on the Ok edge and poison on the Err edge; R5 codes 400/420; R6 the generator "
    "maps Goto and Label to basic blocks through find_or_append_labeled_block keyed by the label's resolution id; R7 the "
    "label pass runs before the variable pass. Acceptance for all label/goto arrangements is not decided."
    " ADDED LATER: R8 the label pass visits every statement (T2); R3 also checks on the MIR that the scope search goes on after a miss."
    " ROUNDS 5-6: R3-DECLARE-INNERMOST also: the scope that receives a declared label is obtained through last_mut only (backward slice); R3-RESOLUTION-ID by role."
    " ROUND 7: C06.R7-ERRORS-MERGED is shared (E400/E420 of a later part of an if surface only if the resolver merges the errors of all parts)."
    " ROUND 8: C06.R8-COMBINERS-KEEP-BOTH is shared: E400/E420 planted in functions reach the user only if the join of the constants pass and the functions pass keeps both error lists."
    " ROUND 9: R8-COMBINERS-KEEP-BOTH also covers the 3- and 4-tuple: one `.resolve()?` on nested pairs, so that the errors of a function's parameters do not hide the E400/E420 of its body."
    " ROUND 10: R9-BODY-KEPT-ON-RETURN-ERRORS: of the diagnostics parse_function_body builds itself, only the reviewed UnexpectedSemicolonAfterReturnValue answers with `return Err(..)`; E335 is planted as the poisoned return value of an intact body, so the label scoper still sees the statements."
    " ROUND 12: R8-COMBINERS-KEEP-BOTH 'Vec<T>::resolve every element' (shared): the resolver of a statement list visits every element and keeps every error list, so an E400/E420 after an earlier erroneous statement is still reported.")

LR = "alpha::scoper::label_references::"
AN = LR + "Analyzer::"


def r1_balance(run, F):
    region = set(p for p, b in F.lib.bodies.items() if F.rel(b["file"]) == "src/alpha/scoper/label_references.rs" and "mir" in b)
    PUSH, POP = AN + "push_scope", AN + "pop_scope"
    run.require(PUSH in region and POP in region, "push_scope/pop_scope not found")
    reg = region - {PUSH, POP}
    mx, growx = balance.recursion_growth(F.lib, reg, {PUSH: 1, POP: -1}, {}, "max")
    mn, grown = balance.recursion_growth(F.lib, reg, {PUSH: 1, POP: -1}, {}, "min")
    run.note_analysed("R1 functions", mx.functions)
    run.note_analysed("R1 basic blocks", mx.blocks)
    impls = [p for p in reg if p.endswith("Analyzable>::analyze")]
    run.require(len(impls) >= 4, "label_references Analyzable impls not found")
    for p in sorted(impls) + [LR + "analyze"]:
        a, b = mx.summary.get(p), mn.summary.get(p)
        unb = set(u[0] for u in mx.unbounded) | set(u[0] for u in mn.unbounded)
        ok = a == 0 and b == 0 and p not in unb and p not in growx and p not in grown
        run.ob("R1-SCOPE-BALANCE", p.split(" as ")[0].replace("<alpha::common::", "") if " as " in p else p, ok, F.where(F.lib.bodies[p]),
               "push_scope/pop_scope balance over all paths must be exactly 0 (max %s, min %s): an unbalanced path leaks labels of "
               "one block or function into another" % ("unbounded (grows through recursion)" if p in growx else a, "unbounded" if p in grown else b),
               sample={"fn": p, "max": str(a), "min": str(b)})
    # closures in the region must be balanced too (they are run by std)
    for p in reg:
        if "{closure" in p:
            a, b = mx.summary.get(p), mn.summary.get(p)
            run.ob("R1-SCOPE-BALANCE", "closure " + p.split("::")[-2][-30:] + p[-12:], a == 0 and b == 0 and p not in growx and p not in grown, F.where(F.lib.bodies[p]),
                   "closure balance max %s min %s%s" % (a if p not in growx else "unbounded (grows through recursion)", b, ""))


def r2_reverse(run, F):
    for ty in ("FunctionBody", "Block"):
        b = F.body("<alpha::common::%s as alpha::scoper::label_references::Analyzable>::analyze" % ty)
        chain = []
        for n in walk(b["hir"]):
            if n.get("k") == "MethodCall" and n.get("name") == "collect":
                x = n
                while x.get("k") == "MethodCall":
                    chain.append(x["name"])
                    x = hirq.unwrap_trivial(x["recv"])
                chain.reverse()
        calls = [(c.get("name") if c.get("k") == "MethodCall" else None, c["l"]) for c in hirq.calls(b["hir"])]
        order = [nm for nm, l in sorted([(nm, l) for nm, l in calls if nm in ("push_scope", "collect", "reverse", "pop_scope")], key=lambda x: x[1])]
        ok = chain == ["into_iter", "rev", "map", "collect"] and order == ["push_scope", "collect", "reverse", "pop_scope"]
        run.ob("R2-REVERSE-SCOPING", ty, ok, F.where(b),
               "statements must be scoped last-to-first (so that a label is visible only to earlier statements) and then put back "
               "in order: chain %s, call order %s" % (chain, order), sample={"chain": chain, "order": order})
        # the reversed vector is what is stored
        rev = [c for c in hirq.calls(b["hir"]) if c.get("k") == "MethodCall" and c.get("name") == "reverse"]
        ok2 = bool(rev) and hirq.local_name_of(hirq.unwrap_trivial(rev[0]["recv"])) == "statements"
        run.ob("R2-REVERSE-SCOPING", ty + " stores the re-reversed vector", ok2, F.where(b), "statements.reverse() on the collected vector")


def r3_lookup(run, F):
    ul = F.body(AN + "use_label")
    dl = F.body(AN + "declare_label")
    for b, name in ((ul, "use_label"), (dl, "declare_label")):
        loops = [m for m in hirq.matches(b["hir"], msrc=None) if (m.get("msrc") or "").startswith("ForLoopDesugar")
                 and m["scrut"].get("k") == "Call" and (m["scrut"].get("callee") or "").endswith("into_iter")]
        ok = False
        for m in loops:
            a = hirq.unwrap_trivial(m["scrut"]["a"][0])
            if a.get("k") == "Field" and a.get("name") == "label_stack":
                finds = [c for c in hirq.calls(m) if c.get("k") == "MethodCall" and c.get("name") == "find"]
                for f in finds:
                    cl = f["a"][0]
                    body = hirq.unwrap_trivial(cl["body"]) if cl.get("k") == "Closure" else {}
                    if body.get("k") == "Binary" and body.get("op") == "Eq":
                        fields = sorted(x.get("name") for x in walk(body) if x.get("k") == "Field")
                        if fields == ["name", "name"]:
                            ok = True
        run.ob("R3-SEARCH-ALL-SCOPES", name, ok, F.where(b),
               "%s must search every scope of the label stack for a label of the same name" % name)
        # ... and the loop goes on to the next scope whenever the name was not found in this one (MIR: from the None edge
        # of the switch on find()'s result the loop's next() is reached again; the Some edge may leave the loop)
        cfg = mirq.CFG(b)
        nexts = [u for u, t in cfg.calls() if (mirq.call_target(t) or "").endswith("Iterator>::next")]
        finds = [u for u, t in cfg.calls() if (mirq.call_target(t) or "").endswith("Iterator>::find")]
        cont = None
        detail = "next() calls %s, find() calls %s" % (nexts, finds)
        if len(nexts) >= 1 and len(finds) == 1:
            sw = mirq.enum_switch_after_call(cfg, finds[0])
            if sw is not None:
                targets, otherwise = sw
                none_bb = targets.get(0, otherwise)
                reach = cfg.reachable_from([none_bb])
                header = [u for u in nexts if finds[0] in cfg.reachable_from([u])]
                cont = bool(header) and any(h in reach or h == none_bb for h in header)
                detail = "find() in bb%s, None edge -> bb%s, loop header %s reachable again: %s" % (finds[0], none_bb, header, cont)
        run.ob("R3-SEARCH-ALL-SCOPES", name + " continues", bool(cont), F.where(b),
               "%s must go on to the enclosing scopes when the name is not in the current one (a break/return on the not-found path "
               "limits the search to one scope): %s" % (name, detail))
    cons = [hirq.short(p) for p, _ in hirq.constructs(ul["hir"])]
    tail = hirq.unwrap_trivial(ul["hir"].get("e", {}))
    tc = [hirq.short(p) for p, _ in hirq.constructs(tail)] if tail else []
    run.ob("R3-UNDEFINED-LABEL", "use_label fall-through", "Error::UndefinedLabel" in tc and any(x.endswith("Err") for x in tc), F.where(ul),
           "a label that is in no visible scope must yield Err(UndefinedLabel)")
    # Ok carries the declaration's resolution id
    ok = False
    for p, node in hirq.constructs(ul["hir"]):
        if p.endswith("common::Identifier") and node.get("k") == "Struct":
            fs = {f["name"]: f["e"] for f in node["fields"]}
            e = fs.get("resolution_id")
            # by role: the resolution_id field of the identifier that the search over the label stack found (a binding that
            # derives from `label_stack`), not a fresh or the goto's own id
            if e is not None and hirq.unwrap_trivial(e).get("k") == "Field" and hirq.unwrap_trivial(e).get("name") == "resolution_id":
                from rules import origins as _or
                oo = _or.origins(ul["hir"], hirq.unwrap_trivial(e)["e"], ul.get("params", ()))
                base_ = hirq.unwrap_trivial(hirq.unwrap_trivial(e)["e"])
                pl = [q.get("lid") for q in ul.get("params", [])]
                if ("field", "label_stack") in oo and any(k[0] == "call" and str(k[1]).endswith("::find") for k in oo) and base_.get("lid") not in pl:
                    ok = True
    run.ob("R3-RESOLUTION-ID", "use_label", ok, F.where(ul), "a goto takes the resolution id of the label declaration it found")
    cons = [hirq.short(p) for p, _ in hirq.constructs(dl["hir"])]
    run.ob("R3-DUPLICATE-LABEL", "declare_label", "Error::DuplicateDeclarationLabel" in cons, F.where(dl), "clash must yield DuplicateDeclarationLabel")
    lm = [c for c in hirq.calls(dl["hir"]) if c.get("k") == "MethodCall" and c.get("name") == "last_mut"]
    incs = [n for n in walk(dl["hir"]) if n.get("k") == "AssignOp" and hirq.unwrap_trivial(n["lhs"]).get("name") == "resolution_id"]
    # ... and the scope the label is pushed onto is that innermost one on every path (whatever the label is called):
    # backward slice of the receiver of `scope.push(identifier)`
    from rules import origins
    pushes = [c for c in hirq.calls(dl["hir"]) if c.get("k") == "MethodCall" and c.get("name") == "push"]
    srcs = set()
    for c in pushes:
        o = origins.origins(dl["hir"], c["recv"], dl.get("params", ()))
        srcs |= set(str(k[1]).split("::")[-1] for k in o if k[0] == "call")
    accessors = sorted(x for x in srcs if x.endswith("_mut") or x in ("index_mut", "get", "first", "last", "iter"))
    run.ob("R3-DECLARE-INNERMOST", "declare_label pushes onto last_mut only", len(pushes) >= 1 and accessors == ["last_mut"], F.where(dl),
           "a label belongs to the innermost open scope; the scope that receives it is obtained through %s (a label put on an outer scope survives "
           "the end of its block: jumps into the block are accepted, a sibling block's label clashes)" % accessors)
    run.ob("R3-DECLARE-INNERMOST", "declare_label", len(lm) == 1 and len(incs) == 1, F.where(dl),
           "a label is pushed into the innermost scope (last_mut) with a fresh resolution id")


def r4_arms(run, F):
    b = F.body("<alpha::common::Statement as alpha::scoper::label_references::Analyzable>::analyze")
    m = [x for x in hirq.matches(b["hir"]) if hirq.n_alts(x) >= 8]
    run.require(m, "Statement::analyze match not found")
    for variant, fn in (("Goto", "use_label"), ("Label", "declare_label")):
        arm = hirq.arm_for(m[0], "Statement::" + variant)
        run.require(arm, "%s arm not found" % variant)
        inner = [x for x in hirq.matches(arm[0]["body"]) if hirq.callee(hirq.unwrap_trivial(x["scrut"])) == AN + fn]
        ok = False
        if len(inner) == 1:
            rows = {}
            for a in inner[0]["arms"]:
                rows[hirq.pat_key(a["pat"]).split("::")[-1]] = [hirq.short(p) for p, _ in hirq.constructs(a["body"])]
            ok = rows.get("Ok") == ["Statement::" + variant] and "Statement::Poison" in rows.get("Err", []) and "Poison::Error" in rows.get("Err", []) \
                and ("Statement::" + variant) not in rows.get("Err", [])
        run.ob("R4-POISON-ON-ERROR", variant, ok, F.where(b, arm[0]),
               "Statement::%s is rebuilt only when %s succeeded; otherwise it becomes Statement::Poison(Poison::Error(..))" % (variant, fn))
    # Block and If branches recurse
    for variant in ("If", "Block"):
        arm = hirq.arm_for(m[0], "Statement::" + variant)
        calls = [c for c in hirq.calls(arm[0]["body"]) if c.get("k") == "MethodCall" and c.get("name") == "analyze"] if arm else []
        need = 2 if variant == "If" else 1
        run.ob("R4-RECURSION", variant, len(calls) == need, F.where(b), "%s must analyse its %d nested statement(s)/block" % (variant, need))


def r5_codes(run, F):
    code = F.body("alpha::error::Error::code")
    cm = [x for x in hirq.matches(code["hir"]) if hirq.n_alts(x) > 40][0]
    rows = {hirq.pat_key(a["pat"]): hirq.unwrap_trivial(a["body"]).get("v") for a in cm["arms"]}
    for v, c in (("Error::UndefinedLabel", 400), ("Error::DuplicateDeclarationLabel", 420)):
        run.ob("R5-CODES", v, rows.get(v) == c, F.where(code), "%s must have code %d (found %s)" % (v, c, rows.get(v)))


def r6_generator(run, F):
    s = F.body("<alpha::resolved::Statement as alpha::generator::Generatable>::generate")
    m = [x for x in hirq.matches(s["hir"]) if hirq.n_alts(x) >= 6]
    for variant in ("Goto", "Label"):
        arm = hirq.arm_for(m[0], "Statement::" + variant)
        cs = [hirq.callee(c) for c in hirq.calls(arm[0]["body"])] if arm else []
        run.ob("R6-LABELED-BLOCKS", variant, "alpha::generator::find_or_append_labeled_block" in cs, F.where(s),
               "Statement::%s must go through find_or_append_labeled_block" % variant)
    f = F.body("alpha::generator::find_or_append_labeled_block")
    names = [x.get("name") for x in walk(f["hir"]) if x.get("k") == "Field"]
    run.ob("R6-LABELED-BLOCKS", "keyed by resolution_id", "resolution_id" in names and "local_labeled_blocks" in names, F.where(f),
           "labelled blocks are cached per label resolution id")


def r7_order(run, F):
    b = F.body("alpha::scoper::analyze")
    cs = [hirq.callee(c) for c in hirq.calls(b["hir"])]
    run.ob("R7-PASS-ORDER", "scoper::analyze", cs == [LR + "analyze", "alpha::scoper::variable_references::analyze"], F.where(b),
           "label scoping must precede variable scoping (pruning relies on resolved label ids): %s" % cs)


def r8_visit(run, F):
    """T2: the label pass reaches every statement (a goto or label in an unvisited block is never resolved or checked)."""
    C = F.lib
    rel = visit.type_closure(C, {"alpha::common::Statement"})
    TR = "alpha::scoper::label_references::Analyzable"
    impls = [b for b in C.bodies.values() if b.get("impl_trait") == TR and "{closure" not in b["npath"]]
    run.require(len(impls) >= 4, "label_references Analyzable impls not found (%d)" % len(impls))

    def is_trav(c):
        return c.endswith("label_references::Analyzable>::analyze") or c == TR + "::analyze"
    n = 0
    for b in impls:
        def rep(key, ok, where, detail, sample):
            run.ob("R8-LABEL-VISITS", key, ok, where, detail + ": gotos and labels inside it are never resolved (no E400/E420, forward/outward rule unchecked)", sample)
        n += visit.check_impl(F, C, b, rel, is_trav, rep)
    run.require(n >= 6, "too few visit obligations (%d)" % n)


def r9_body_kept_on_return_errors(run, F):
    """Label errors (E400 / E420) are planted in the statements of a function body by the label scoper, which only looks at bodies
    the parser handed over.  parse_function_body builds two diagnostics of its own about the end of the body: a missing return
    value (E335) is planted as the poisoned return value of an otherwise intact body, so everything in the statements is still
    analysed; only a semicolon after the return value (E302, reviewed) gives the body up.  An E335 that gives the body up too
    hides every illegal goto of that function behind it."""
    from rules import origins
    b = F.body("alpha::parser::parse_function_body")
    given_up = []
    for r in walk(b["hir"]):
        if r.get("k") != "Ret" or not isinstance(r.get("e"), dict):
            continue
        v = hirq.unwrap_trivial(r["e"])
        if not (v.get("k") == "Call" and (hirq.callee(v) or "").endswith("::Err") and v.get("a")):
            continue
        # which error built in this function is handed back (through `.into()` / locals)
        seen = set()
        work = [v["a"][0]]
        defs = origins.definitions(b["hir"], b.get("params", ()))
        while work:
            e = work.pop()
            for x in walk(e):
                if x.get("k") == "Struct" and "error::Error::" in str(x.get("path", "")):
                    given_up.append((str(x["path"]).split("::")[-1], r))
                elif x.get("k") == "Path" and x.get("rk") == "Local" and x.get("lid") not in seen:
                    seen.add(x["lid"])
                    for src, path in defs.get(x["lid"], []):
                        if src is not None:
                            work.append(src)
    names = sorted(set(n for n, _ in given_up))
    extra = [g for g in given_up if g[0] not in ("UnexpectedSemicolonAfterReturnValue",)]
    planted = [hirq.short(p) for p, _ in hirq.constructs(b["hir"])]
    run.ob("R9-BODY-KEPT-ON-RETURN-ERRORS", "parse_function_body", not extra and "Error::MissingReturnValueAfterStatement" in planted, F.where(b, extra[0][1]) if extra else F.where(b),
           "diagnostics that parse_function_body builds itself and answers with `return Err(..)` (the statements parsed so far are dropped, and with them every "
           "E400/E420 the label scoper would have found): %s; reviewed: only UnexpectedSemicolonAfterReturnValue" % names)


def check(run):
    F = run.facts("B")
    # diagnostics planted in the later parts of a statement only surface if the resolver merges the errors of all parts (shared with C06.R7)
    from props import c06 as _c06
    _c06.r7_errors_merged(run, F)
    _c06.r8_combiners_keep_both(run, F)
    r9_body_kept_on_return_errors(run, F)
    r1_balance(run, F)
    r2_reverse(run, F)
    r3_lookup(run, F)
    r4_arms(run, F)
    r5_codes(run, F)
    r6_generator(run, F)
    r7_order(run, F)
    r8_visit(run, F)
    if run.tier == "thorough":
        # the scoper is compiled in both configurations: repeat the configuration-independent rules on cfg A
        FA = run.facts("A")
        run.key_prefix = "cfgA:"
        for fn in (r1_balance, r2_reverse, r3_lookup, r4_arms, r5_codes, r7_order, r8_visit):
            fn(run, FA)
        run.key_prefix = ""
