"""C16 -- the second-generation parser builds a faithful parse tree."""
import re

from rules import hirq, mirq, listshape, origins
from rules.core import walk, norm_path, AnchorMissing

LEVEL = "other"
EXPLANATION = (
    "Static analysis of the delta parser and its XML consumer, cross-checked with the alpha parser (cfg A). Decided: "
    "R1 XML balance: in every print_xml arm the emitted tag pieces (format! literals in source order) form a balanced "
    "element sequence; R2 coverage: every ParseNode variant is printed by an arm or only ever read as context, so no "
    "pushed node can fall through to MALFORMED, and context patterns have exactly MAX_PARSE_NODE_CONTEXT slots; "
    "R3 producer/consumer layout: for every declared node pushed by the parser, the straight-line sequence of pushes "
    "before it matches the context pattern print_xml expects for that node; R4 sibling deviance: every `&` counter "
    "flows into DerefAddressDepth; R5 sibling agreement of the two parsers: token->operator tables per parsing "
    "function, precedence layering (which function takes operands from which), declaration starters, MAX_* depth "
    "constants. Not decided: tree equality with the first generation on all programs."
    " ADDED LATER: R7 both parsers accept the same shapes of comma-separated lists (empty, trailing comma, no comma after the last item, never two items without a comma), decided by reachability between token tests and item-parser calls on the MIR; R5 also: the same largest number of reference steps; R8 literal delimiters are stripped exactly once in the XML dump."
    " ROUNDS 5-6: R9-FLAGS-FLOW: the flag set stored in the tree derives from the flags parameter and from no set constructor; R10-SPAN-END: the last token event before an EndOfSpan is built is a cursor() read (forward dataflow on the MIR)."
    " ROUND 7: R4 also: the four `&` counting loops of both parsers accept the same largest number of ampersands (sibling agreement)."
    " ROUND 9: R11-RESERVATIONS-DO-NOT-NEST (call graph, both generations): nothing reachable from the code that runs under a token reservation takes a reservation itself (its release would reset the outer window to the whole rest of the input)."
    " ROUND 10: R12-CHAIN-CONTINUES: in parse_rest_of_bitwise_expression the operators that start a chain are the operators that continue it."
    " ROUND 11: R13-OLDER-NODE-IS-CURRENT: in the four chain-building loops of the second-generation parser push_older_node refers to the local the loop itself reassigns (or a copy of it taken inside the loop).")

PX = "delta::parser::parse_tree::parse_tree_xml::print_xml"
PN = "delta::parser::parse_node::ParseNode"
PT = "delta::parser::parse_tree::"

FMT_RE = re.compile(r'format!\(\s*"((?:[^"\\]|\\.)*)"', re.S)


def fmt_literal(src):
    m = FMT_RE.match(src)
    if not m:
        return None
    s = m.group(1)
    s = re.sub(r"\\\n\s*", "", s)      # line continuation
    s = s.replace('\\"', '"')
    return s


def node_variant(pat):
    """Variant of the first tuple element of a print_xml arm pattern."""
    p = hirq.strip_ref(pat)
    if p.get("k") != "Tuple":
        return None, None
    first, second = p["pats"][0], p["pats"][1]
    v = (hirq.pat_res(first) or "?").split("::")[-1] if not hirq.is_catchall(first) else "_"
    return v, second


def print_xml_match(F):
    b = F.body(PX)
    ms = [m for m in hirq.matches(b["hir"]) if hirq.n_alts(m) > 30]
    if len(ms) != 1:
        raise AnchorMissing("print_xml's main match not found")
    return b, ms[0]


def r1_balance(run, F):
    b, m = print_xml_match(F)
    n = 0
    for a in m["arms"]:
        v, ctx = node_variant(a["pat"])
        if v in (None, "_"):
            continue
        pieces = []
        for x in walk(a["body"]):
            s = x.get("src")
            if s and s.startswith("format!"):
                lit = fmt_literal(s)
                if lit is not None:
                    pieces.append(lit)
        if not pieces:
            continue
        n += 1
        stack = []
        ok = True
        why = ""
        for p in pieces:
            p = p.strip()
            mo = re.match(r"^<([A-Za-z0-9]+)(\s[^>]*)?(/)?>$", p)
            mc = re.match(r"^</([A-Za-z0-9]+)>$", p)
            if mc:
                if not stack or stack[-1] != mc.group(1):
                    ok = False
                    why = "closing </%s> does not match open element %s" % (mc.group(1), stack[-1] if stack else "(none)")
                    break
                stack.pop()
            elif mo:
                if p.endswith("/>"):
                    continue
                stack.append(mo.group(1))
            elif p.startswith("<"):
                ok = False
                why = "unparseable tag piece %r" % p
                break
        if ok and stack:
            ok = False
            why = "element(s) %s never closed" % stack
        ctxkey = "" if ctx is None or hirq.is_catchall(ctx) else "|ctx:" + ",".join(hirq.pat_key(x) for x in hirq.strip_ref(ctx).get("before", []))
        run.ob("R1-XML-BALANCE", v + ctxkey, ok, F.where(b, a),
               "print_xml arm for %s emits %s: %s" % (v, pieces, why or "balanced"), sample={"variant": v, "pieces": pieces})
        # element name equals variant name (information only)
        first = re.match(r"^<([A-Za-z0-9]+)", pieces[0].strip())
        if first and first.group(1) != v and v not in ("ThenElse",):
            run.info("R1: %s is printed as element <%s>" % (v, first.group(1)))
    run.floor("R1-XML-BALANCE", 50)


def r2_covers(run, F):
    b, m = print_xml_match(F)
    variants = set(F.variants(PN))
    printed = set()
    ctx_only = set()
    malformed_arm = None
    ctxlen_ok = True
    maxctx = F.const_value(PT + "MAX_PARSE_NODE_CONTEXT")
    for a in m["arms"]:
        p = hirq.strip_ref(a["pat"])
        if hirq.is_catchall(p):
            malformed_arm = a
            continue
        v, ctx = node_variant(a["pat"])
        printed.add(v)
        if ctx is not None and not hirq.is_catchall(ctx):
            c = hirq.strip_ref(ctx)
            if c.get("k") == "Slice":
                if len(c.get("before", [])) + len(c.get("after", [])) != maxctx or "slice" in c:
                    ctxlen_ok = False
                for x in c.get("before", []):
                    r = hirq.pat_res(x)
                    if r:
                        ctx_only.add(r.split("::")[-1])
    run.require(malformed_arm is not None, "MALFORMED fall-through arm not found")
    run.ob("R2-CONTEXT-WINDOW", "slots", ctxlen_ok, F.where(b, m), "every context pattern must have exactly MAX_PARSE_NODE_CONTEXT=%d slots" % maxctx)
    markers = {"StartPrivateZone", "EndPrivateZone", "EndlessPrivateZone", "UnpatchedListItem"}
    for v in sorted(variants):
        ok = v in printed or v in ctx_only or v in markers
        run.ob("R2-COVERS", v, ok, F.where(b, m),
               "ParseNode::%s has no print_xml arm and is never read as context: a pushed %s prints as <MALFORMED>" % (v, v))
    # which variants does the parser push as *declared* nodes (result of buffer.push used)? they need an own arm
    pushed_declared = set()
    for body in F.lib.bodies.values():
        if not _in_parser_module(body["npath"]) or "hir" not in body:
            continue
        for c in hirq.calls(body["hir"]):
            if hirq.callee(c) == PT + "ParseBuffer::push":
                for p, _ in hirq.constructs(c["a"][0]):
                    if norm_path(p).startswith(PN + "::"):
                        pushed_declared.add(p.split("::")[-1])
    for v in sorted(pushed_declared):
        run.ob("R2-DECLARED-HAS-ARM", v, v in printed, F.where(b, m),
               "the parser pushes ParseNode::%s as an addressable node but print_xml has no arm for it" % v)
    run.floor("R2-DECLARED-HAS-ARM", 40)
    return printed


# --- R3 producer/consumer layout ------------------------------------------------

WRAP = {
    PT + "ParseBuffer::push_older_node": "Item",
    PT + "ParseBuffer::push_list": "List",
    PT + "ParseBuffer::push_optional_node": "Item|NoMoreItems",
    PT + "ParseBuffer::push_unfinished_impl": "FunctionImpl|NoMoreItems",
}


def stmt_events(node):
    """Ordered push events of a straight-line statement list: list of (kind, node)."""
    ev = []
    for c in hirq.calls(node):
        cn = hirq.callee(c)
        if cn == PT + "ParseBuffer::push_undeclared" or cn == PT + "ParseBuffer::push":
            vs = [p.split("::")[-1] for p, _ in hirq.constructs(c["a"][0]) if norm_path(p).startswith(PN + "::")]
            if not vs:
                # a local holding a node (e.g. structural_type, outer_node, body_node)
                vs = ["<local:%s>" % (hirq.local_name_of(c["a"][0]) or "?")]
            ev.append(("push" if cn.endswith("::push") else "undeclared", vs[0], c))
        elif cn in WRAP:
            ev.append(("wrap", WRAP[cn], c))
        elif cn and (_in_parser_module(cn) or cn == PT + "ParseBuffer::push_end_of_list"
                     or cn == PT + "ParseBuffer::push_list_item"):
            ev.append(("sub", hirq.last(cn), c))
    return ev


def r3_layout(run, F):
    """For each `buffer.push(ParseNode::X {..})` the pushes immediately before it (same block, straight line)
    must equal the non-wildcard suffix of X's context pattern in print_xml."""
    b, m = print_xml_match(F)
    expect = {}
    for a in m["arms"]:
        v, ctx = node_variant(a["pat"])
        if v in (None, "_") or ctx is None or hirq.is_catchall(ctx):
            continue
        c = hirq.strip_ref(ctx)
        if c.get("k") != "Slice":
            continue
        slots = []
        for x in c.get("before", []):
            x = hirq.strip_ref(x)
            if hirq.is_catchall(x):
                slots.append("_")
            else:
                slots.append((hirq.pat_res(x) or "?").split("::")[-1])
        expect.setdefault(v, []).append(slots)
    n = 0
    for body in F.lib.bodies.values():
        if not _in_parser_module(body["npath"]) or "hir" not in body:
            continue
        for blk in walk(body["hir"]):
            if blk.get("k") != "Block":
                continue
            seq = list(blk.get("stmts", [])) + ([blk["e"]] if "e" in blk else [])
            evs = []
            for st in seq:
                # only straight-line statements: a nested block/if/match resets the window
                inner = st.get("init", st) if st.get("k") == "Let" else st
                if any(_is_branch(x) for x in walk(inner)):
                    evs.append(("barrier", None, st))
                    continue
                evs.extend(stmt_events(st))
            for i, (kind, v, c) in enumerate(evs):
                if kind != "push" or v not in expect:
                    continue
                # collect preceding pushes until a barrier/sub-parse
                before = []
                j = i - 1
                while j >= 0 and evs[j][0] in ("undeclared", "wrap"):
                    before.append(evs[j][1])
                    j -= 1
                before.reverse()
                ok = False
                for slots in expect[v]:
                    need = [s for s in slots]
                    # trailing explicit slots must match the trailing pushes
                    k = len(need)
                    while k > 0 and need[0] == "_":
                        need = need[1:]
                        k -= 1
                    tail = before[-len(need):] if need else []
                    if len(tail) == len(need) and all(_slot_ok(s, t) for s, t in zip(need, tail)):
                        ok = True
                n += 1
                run.ob("R3-LAYOUT", "%s|%s" % (body["npath"].split("::")[-1], v), ok, F.where(body, c),
                       "before pushing %s the parser pushes %s; print_xml expects context %s" % (v, before, expect[v]),
                       sample={"node": v, "pushed_before": before, "expected_context": expect[v]})
    run.require(n >= 12, "too few layout instances found (%d)" % n)


def _is_branch(x):
    k = x.get("k")
    if k in ("If", "Loop"):
        return True
    if k == "Match" and not (x.get("msrc") or "").startswith("TryDesugar"):
        return True
    return False


def c16_is_branch(x):
    return x.get("k") in ("If", "Loop") or (x.get("k") == "Match" and not (x.get("msrc") or "").startswith("TryDesugar"))


def _in_parser_module(fn, prefix="delta::parser::"):
    return fn.startswith(prefix + "parse") and "::" not in fn[len(prefix):]


def _slot_ok(slot, pushed):
    if slot == "_":
        return True
    if pushed.startswith("<local:"):
        return True   # a node built earlier and pushed through a local: type-checked, variant not tracked
    return slot in pushed.split("|")


def r4_depth(run, F):
    n = 0
    for body in F.lib.bodies.values():
        if not _in_parser_module(body["npath"]) or "hir" not in body:
            continue
        counters = {}
        for lp in walk(body["hir"]):
            if lp.get("k") != "Loop":
                continue
            amp = False
            for c in hirq.calls(lp):
                if hirq.callee(c) == "delta::parser::tokens::Tokens::consume_optional":
                    if any(hirq.short(p) == "BaseToken::Ampersand" for p, _ in hirq.constructs(c["a"][0])):
                        amp = True
            if not amp:
                continue
            for l, x in hirq.increments(lp):
                counters[l["lid"]] = l.get("res") or hirq.local_name_of(l)
        for lid, name in counters.items():
            n += 1
            flows = False
            for p, node in hirq.constructs(body["hir"]):
                if p.endswith("ParseNode::DerefAddressDepth"):
                    for f in node.get("fields", []):
                        if f["name"] == "depth" and hirq.uses_local(f["e"], lid):
                            flows = True
            run.ob("R4-ADDRESS-DEPTH", body["npath"].split("::")[-1], flows, F.where(body),
                   "`%s` counts the leading `&` but is not stored in DerefAddressDepth {depth}: the address depth of the "
                   "reference is lost (e.g. `|&x|`)" % name, sample={"fn": body["npath"], "counter": name})
    run.require(n >= 3, "expected three `&` counting loops, found %d" % n)
    # the three counting loops are siblings (and have a sibling in the first-generation parser): each starts its counter at 1
    # for the first `&`, adds one per further `&` and rejects when the *counter itself* exceeds MAX_ADDRESS_DEPTH, so the
    # largest accepted number of ampersands is the documented limit at every site
    accepted = {}
    for body in F.lib.bodies.values():
        np = body["npath"]
        if "hir" not in body or not (np.startswith("delta::parser::parse_") or np.startswith("alpha::parser::parse_")) or np.count("::") != 2:
            continue
        inits = {}
        for x in walk(body["hir"]):
            if x.get("k") == "Let" and x["pat"].get("k") == "Bind" and isinstance(x.get("init"), dict) and hirq.unwrap_trivial(x["init"]).get("k") == "Lit":
                inits[x["pat"]["lid"]] = hirq.unwrap_trivial(x["init"]).get("v")
        site = 0
        for x in walk(body["hir"]):
            c_ = hirq.unwrap_trivial(x["cond"]) if x.get("k") == "If" else {}
            if c_.get("k") == "Binary" and c_.get("op") in ("Lt", "Le") and str(hirq.unwrap_trivial(c_["lhs"]).get("res", "")).endswith("MAX_ADDRESS_DEPTH"):
                c_ = dict(c_, op={"Lt": "Gt", "Le": "Ge"}[c_["op"]], lhs=c_["rhs"], rhs=c_["lhs"])      # `MAX < counter` is `counter > MAX`
            if c_.get("k") == "Binary" and c_.get("op") in ("Gt", "Ge") and str(hirq.unwrap_trivial(c_["rhs"]).get("res", "")).endswith("MAX_ADDRESS_DEPTH"):
                l_ = hirq.unwrap_trivial(c_["lhs"])
                k_ = 0
                if l_.get("k") == "Binary" and l_.get("op") == "Add" and isinstance(hirq.unwrap_trivial(l_["rhs"]).get("v"), int):
                    k_ = hirq.unwrap_trivial(l_["rhs"]).get("v")
                    l_ = hirq.unwrap_trivial(l_["lhs"])
                if l_.get("k") != "Path" or l_.get("rk") != "Local" or l_.get("lid") not in inits:
                    continue      # not a counter started from a literal in this function (alpha's check on a parsed reference)
                site += 1
                limit = F.const_value(("delta" if np.startswith("delta") else "alpha") + "::parser::MAX_ADDRESS_DEPTH")
                # the counter is the number of `&` seen so far (it starts at 1 when the first one was taken before the loop, at 0
                # when the loop takes them all); the reference is rejected when counter + k > / >= limit
                largest = limit - k_ - (1 if c_["op"] == "Ge" else 0)
                accepted["%s#%d" % (np.split("::", 1)[0] + "::" + np.split("::")[-1], site)] = largest
    vals = set(accepted.values())
    run.ob("R4-ADDRESS-DEPTH", "largest accepted number of `&` agrees", len(accepted) >= 4 and len(vals) == 1, "src/delta/parser.rs / src/alpha/parser.rs",
           "every `&` counting loop of both parsers accepts the same largest number of ampersands: %s" % accepted, sample=accepted)


def op_tables(F, prefix, tokenenum):
    """(function, token) -> (ops constructed, parse_* callees) for arms that test a token."""
    out = {}
    layering = {}
    for body in F.lib.bodies.values():
        fn = body["npath"]
        if not _in_parser_module(fn, prefix) or "hir" not in body or "{closure" in fn:
            continue
        short = fn.split("::")[-1]
        layering[short] = sorted(set(hirq.last(hirq.callee(c)) for c in hirq.calls(body["hir"])
                                     if _in_parser_module(hirq.callee(c) or "", prefix)))
        for mm in hirq.matches(body["hir"]):
            for a in mm["arms"]:
                toks = set()
                for alt in hirq.pat_alts(a["pat"]):
                    for x in walk(alt):
                        r = x.get("ctor_of") or x.get("res")
                        if r and norm_path(r).rsplit("::", 1)[0].endswith(tokenenum):
                            toks.add(r.split("::")[-1])
                if not toks:
                    continue
                ops = sorted(set(hirq.short(p) for p, _ in hirq.constructs(a["body"])
                                 if hirq.short(p).split("::")[0] in ("BinaryOp", "ComparisonOp", "UnaryOp")))
                for t in toks:
                    if ops:
                        out[(short, t)] = ops
        # `if let Some(Token::X) = peek(..) { .. op .. }` and `if tokens.consume_optional(BaseToken::X) { .. op .. }`
        for n in walk(body["hir"]):
            if n.get("k") != "If":
                continue
            cond = hirq.unwrap_trivial(n["cond"])
            toks = set()
            if cond.get("k") == "LetExpr":
                for x in walk(cond["pat"]):
                    r = x.get("ctor_of") or x.get("res")
                    if r and norm_path(r).rsplit("::", 1)[0].endswith(tokenenum):
                        toks.add(r.split("::")[-1])
            elif cond.get("k") == "MethodCall" and cond.get("name") == "consume_optional":
                for p_, _ in hirq.constructs(cond):
                    if norm_path(p_).rsplit("::", 1)[0].endswith(tokenenum):
                        toks.add(p_.split("::")[-1])
            if not toks:
                continue
            direct = [x for x in n["then"].get("stmts", [])] + ([n["then"]["e"]] if "e" in n["then"] else [])
            ops = set()
            for st in direct:
                if any(c16_is_branch(y) for y in walk(st) if y is not st):
                    continue
                for p_, _ in hirq.constructs(st):
                    sp = hirq.short(p_)
                    if sp.split("::")[0] in ("BinaryOp", "ComparisonOp", "UnaryOp"):
                        ops.add(sp)
            for t in toks:
                if ops and (short, t) not in out:
                    out[(short, t)] = sorted(ops)
    return out, layering


def r5_agree(run, F):
    da, la = op_tables(F, "alpha::parser::", "lexer::Token")
    dd, ld = op_tables(F, "delta::parser::", "lexer::BaseToken")
    for key in sorted(set(da) | set(dd)):
        fn, tok = key
        if fn not in ("parse_comparison", "parse_addition", "parse_multiplication", "parse_rest_of_bitwise_expression",
                      "parse_rest_of_bitshift_operation", "parse_unary_expression", "parse_primary_expression"):
            continue
        a, d = da.get(key), dd.get(key)
        run.ob("R5-OPERATOR-TABLE", "%s|%s" % (fn, tok), a == d, "src/alpha/parser.rs / src/delta/parser.rs",
               "in %s token %s means %s for the first generation and %s for the second" % (fn, tok, a, d),
               sample={"fn": fn, "token": tok, "alpha": a, "delta": d})
    run.floor("R5-OPERATOR-TABLE", 18)
    # precedence layering: operand sources per level must agree
    levels = ["parse_expression", "parse_addition", "parse_multiplication", "parse_singular_expression",
              "parse_unary_expression", "parse_rest_of_bitwise_expression", "parse_rest_of_bitshift_operation", "parse_comparison"]
    ren = {"parse_wellformed_type": "parse_type"}
    for lv in levels:
        a = sorted(set(ren.get(x, x) for x in la.get(lv, [])))
        d = sorted(set(ren.get(x, x) for x in ld.get(lv, [])))
        run.ob("R5-PRECEDENCE-LAYERING", lv, a == d and a, "src/alpha/parser.rs / src/delta/parser.rs",
               "%s takes its operands from %s in the first generation and from %s in the second" % (lv, a, d),
               sample={"level": lv, "alpha": a, "delta": d})
    # declaration starters
    sa = _bool_table(F, "alpha::parser::can_start_declaration")
    sd = _bool_table(F, "delta::parser::starts_declaration")
    run.ob("R5-DECLARATION-STARTERS", "table", sa == sd and len(sa) >= 11, "src/alpha/parser.rs / src/delta/parser.rs",
           "declaration starters differ: alpha-only %s, delta-only %s" % (sorted(sa - sd), sorted(sd - sa)))
    for c in ("MAX_ADDRESS_DEPTH", "MAX_REFERENCE_DEPTH"):
        va, vd = F.const_value("alpha::parser::" + c), F.const_value("delta::parser::" + c)
        run.ob("R5-DEPTH-LIMITS", c, va == vd, "src/alpha/parser.rs / src/delta/parser.rs", "%s: alpha %s, delta %s" % (c, va, vd))
    # ... and the same number of reference steps is the largest accepted one
    ar = F.body("alpha::parser::parse_rest_of_reference")
    conds = []
    for n in walk(ar["hir"]):
        c_ = hirq.unwrap_trivial(n["cond"]) if n.get("k") == "If" else {}
        if c_.get("k") == "Binary" and c_.get("op") in ("Gt", "Ge") and "MAX_REFERENCE_DEPTH" in str(hirq.unwrap_trivial(c_["rhs"]).get("res", "")):
            l_ = hirq.unwrap_trivial(c_["lhs"])
            if l_.get("k") == "MethodCall" and l_.get("name") == "len":
                conds.append(c_["op"])      # <number of steps so far>.len() > / >= MAX_REFERENCE_DEPTH
    a_max = {"Gt": 0, "Ge": -1}.get(conds[0]) if len(conds) == 1 else None
    dr = F.body("delta::parser::parse_deref_steps_list")
    d_max = None
    for m in hirq.matches(dr["hir"], msrc=None):
        if (m.get("msrc") or "").startswith("ForLoopDesugar") and m["scrut"].get("a"):
            rng = hirq.unwrap_trivial(m["scrut"]["a"][0])
            txt = rng.get("src") or ""
            if rng.get("k") == "Struct" and str(rng.get("path", "")).endswith("ops::Range") and txt.replace(" ", "") == "0..MAX_REFERENCE_DEPTH":
                d_max = -1     # MAX iterations: the MAX-th step is consumed and the loop falls into the error
            elif txt.replace(" ", "") == "0..=MAX_REFERENCE_DEPTH":
                d_max = 0      # MAX + 1 iterations: the last one may find no further step and return
    run.ob("R5-DEPTH-LIMITS", "largest accepted number of reference steps", a_max is not None and a_max == d_max, "%s / %s" % (F.where(ar), F.where(dr)),
           "relative to MAX_REFERENCE_DEPTH the first generation accepts up to MAX%+d steps (%s), the second up to MAX%+d" % (
               a_max if a_max is not None else 99, conds, d_max if d_max is not None else 99))


def _bool_table(F, fn):
    b = F.body(fn)
    m = hirq.find_match(b, min_arms=3)
    out = set()
    for a in m["arms"]:
        if [x["v"] for x in hirq.lits(a["body"], "bool")] == [True]:
            for alt in hirq.pat_alts(a["pat"]):
                out.add(hirq.pat_key(alt).split("::")[-1])
    return out


LISTS = [
    # construct, (alpha function, close token, item parsers), (delta function, close token, item parsers)
    ("struct members", ("parse_struct_members", "BraceRight", ["parse_member"]), ("parse_struct_members", "BraceRight", ["parse_member"])),
    ("parameters", ("parse_rest_of_function_signature", "ParenRight", ["parse_parameter"]), ("parse_rest_of_function_signature", "ParenRight", ["parse_parameter"])),
    ("call arguments", ("parse_arguments", "ParenRight", ["parse_expression"]), ("parse_rest_of_arguments", "ParenRight", ["parse_expression"])),
    ("array literal", ("parse_rest_of_array", "BracketRight", ["parse_expression"]), ("parse_primary_expression", "BracketRight", ["parse_expression"])),
    ("structure literal", ("parse_body_of_structural", "BraceRight", ["parse_expression", "parse_member_expression"]), ("parse_rest_of_structural", "BraceRight", ["parse_expression"])),
]


def r7_list_shapes(run, F):
    """Both parsers accept the same shapes of comma-separated lists: empty, trailing comma, no comma after the last item,
    and never two items without a comma -- decided by reachability between the token tests/consumes and the item
    parser calls on each function's MIR (rules/listshape.py)."""
    A, D = "alpha::parser::", "delta::parser::"
    for name, (af, ac, ai), (df, dc, di) in LISTS:
        ba, bd = F.body(A + af), F.body(D + df)
        ra, ca = listshape.shape(F, F.lib, ba, "alpha::lexer::Token", "Comma", ac, set(A + x for x in ai))
        rd, cd = listshape.shape(F, F.lib, bd, "delta::lexer::BaseToken", "Comma", dc, set(D + x for x in di))
        run.require(ca["sep_true"] >= 1 and ca["close_ok"] >= 1 and ca["items"] >= 1, "alpha %s: list events not recognised %s" % (af, ca))
        run.require(cd["sep_true"] >= 1 and cd["close_ok"] >= 1 and cd["items"] >= 1, "delta %s: list events not recognised %s" % (df, cd))
        for k in ("empty", "trailing", "bare_last", "juxtaposed"):
            run.ob("R7-LIST-SHAPES", "%s|%s" % (name, k), ra[k] == rd[k], "%s / %s" % (F.where(ba), F.where(bd)),
                   "%s: `%s` is %s by the first generation and %s by the second" % (
                       name, {"empty": "open close", "trailing": "item , close", "bare_last": "item close (no comma after the last item)",
                              "juxtaposed": "item item (no comma between)"}[k],
                       "accepted" if ra[k] else "rejected", "accepted" if rd[k] else "rejected"),
                   sample={"alpha": ra, "delta": rd})
        run.ob("R7-LIST-SHAPES", "%s|separator required" % name, not ra["juxtaposed"] and not rd["juxtaposed"], F.where(bd),
               "two items are never accepted without a comma between them")


def r8_literal_delimiters(run, F):
    """The XML dump shows a literal's source text without its delimiters; a trim that removes *every* leading/trailing
    quote also removes an escaped quote at the end of the content (`"a\\""` dumped as `a\\`)."""
    n = 0
    for p, b in F.lib.bodies.items():
        if "hir" not in b or not F.rel(b["file"]).endswith("delta/parser/parse_tree_xml.rs"):
            continue
        for c in hirq.calls(b["hir"]):
            if c.get("k") == "MethodCall" and c.get("name") in ("trim_matches", "trim_start_matches", "trim_end_matches"):
                a = hirq.unwrap_trivial(c["a"][0]) if c.get("a") else {}
                if a.get("k") == "Lit" and a.get("v") in ('"', "'", 34, 39):
                    n += 1
                    run.ob("R8-LITERAL-DELIMITERS", "%s|%s" % (b["npath"].split("::")[-1], c["name"]), False, F.where(b, c),
                           "literal source trimmed with %s(%r): removes quotes that belong to the content; strip exactly one delimiter on each side" % (c["name"], a.get("v")))
    run.ob("R8-LITERAL-DELIMITERS", "scan", True, "src/delta/parser/parse_tree_xml.rs", "%d greedy quote trims found" % n)


FLAG_INSERTS = {
    # (function, flag inserted) -- the only places where a declaration's flag set changes
    ("parse_declaration", "Public"), ("parse_declaration", "External"), ("parse_struct_declaration", "OpaqueStruct"),
}
FLAG_MUTATORS = ("insert", "remove", "clear", "insert_all", "remove_all", "retain", "toggle")


def r9_flags_flow(run, F):
    """A declaration's flags in the tree are the flags written in the source: the set starts empty in parse_declaration, gains
    Public / External there and OpaqueStruct for a bodiless struct, reaches every declaration parser unchanged as its `flags`
    parameter, and that parameter (nothing else) is what ParseNode::DeclarationFlags stores.  Backward slice on the HIR
    (rules/origins.py): flow-insensitive, so a second source of the stored set on any branch shows up as an extra origin."""
    P = "delta::parser::"
    stored = 0
    inserts = set()
    for p, b in sorted(F.lib.bodies.items()):
        np = b.get("npath", "")
        if "hir" not in b or not np.startswith(P + "parse_") or np.count("::") != 2:
            continue
        fn = np.split("::")[-1]
        for n in walk(b["hir"]):
            if n.get("k") == "Call" and str(hirq.callee(n) or "").endswith("ParseNode::DeclarationFlags"):
                stored += 1
                o = origins.origins(b["hir"], n["a"][0], b.get("params", ()))
                fparam = [q.get("name") for q in b.get("params", []) if "DeclarationFlag" in str(F.lib.ty(q.get("t")))]
                fresh = sorted(c for k, c in (x[:2] for x in o) if k == "call" and (str(c).startswith("enumset::") or "EnumSet" in str(c) or str(c).endswith("Default>::default")))
                run.ob("R9-FLAGS-FLOW", "%s|stored flags" % fn, len(fparam) == 1 and ("param", fparam[0]) in o and not fresh, F.where(b, n),
                       "the flag set stored in the tree by %s must be its `flags` parameter (possibly extended), never a freshly built set; "
                       "it derives from the parameter: %s, from set constructors: %s" % (fn, any(("param", x) in o for x in fparam), fresh))
            if n.get("k") == "MethodCall" and n.get("name") in FLAG_MUTATORS:
                r = hirq.unwrap_trivial(n["recv"])
                if r.get("k") == "Path" and r.get("rk") == "Local" and "EnumSet<alpha::common::DeclarationFlag>" in str(F.lib.ty(r.get("t"))).replace(" ", ""):
                    a = hirq.unwrap_trivial(n["a"][0]) if n.get("a") else {}
                    key = (fn, n["name"] == "insert" and str(a.get("res", "?")).split("::")[-1] or n["name"])
                    inserts.add(key)
                    run.ob("R9-FLAGS-FLOW", "%s|%s %s" % (fn, n["name"], key[1]), key in FLAG_INSERTS, F.where(b, n),
                           "flags.%s(%s) in %s is not one of the reviewed changes of a declaration's flag set %s" % (n["name"], key[1], fn, sorted(FLAG_INSERTS)))
            if n.get("k") == "Call" and (hirq.callee(n) or "").startswith(P + "parse_") and (hirq.callee(n) or "").endswith("_declaration") and fn == "parse_declaration":
                for a in n["a"]:
                    ua = hirq.unwrap_trivial(a)
                    if ua.get("k") == "Path" and ua.get("rk") == "Local" and "EnumSet<alpha::common::DeclarationFlag>" in str(F.lib.ty(ua.get("t"))).replace(" ", ""):
                        o = origins.origins(b["hir"], a, b.get("params", ()))
                        run.ob("R9-FLAGS-FLOW", "dispatch %s" % hirq.callee(n).split("::")[-1], o == {("call", "enumset::EnumSet::new")}, F.where(b, n),
                               "the flags handed to %s start from the empty set (EnumSet::new) only; origins %s" % (hirq.callee(n).split("::")[-1], sorted(map(str, o))))
    for fn, flag in sorted(FLAG_INSERTS - inserts):
        b = F.body(P + fn)
        mentioned = any(x.get("k") == "Path" and str(x.get("res", "")).endswith("DeclarationFlag::" + flag) for x in walk(b["hir"]))
        run.ob("R9-FLAGS-FLOW", "%s|adds %s" % (fn, flag), mentioned, F.where(b), "%s no longer adds DeclarationFlag::%s to the flag set" % (fn, flag))
    run.floor("R9-FLAGS-FLOW", 13, "5 stored flag sets, 3 inserts, 5 dispatches")
    run.require(stored >= 5, "fewer than 5 ParseNode::DeclarationFlags constructions in the declaration parsers (%d)" % stored)


def r10_span_end(run, F):
    """A composite node covers the tokens [start, end): `EndOfSpan { end }` must hold the cursor *after* the last token that
    belongs to the node.  Forward dataflow on the MIR of every function of the second-generation parser that builds an
    EndOfSpan: the last token event on every path into the construction is a `cursor()` read, not a consumption (take,
    consume, the true edge of consume_optional, or a call of another parse_* function).  `end = cursor(); take();` drops
    the last piece of a three-piece string literal from the tree without any parse error."""
    P = "delta::parser::"
    sites = 0
    for p, b in sorted(F.lib.bodies.items()):
        if not p.startswith(P + "parse_") or p.count("::") != 2 or "mir" not in b:
            continue
        cfg = mirq.CFG(b)
        targets = []
        for i in sorted(cfg.reach):
            for st in cfg.blocks[i]["s"]:
                r = st.get("r", {})
                if r.get("k") == "Agg" and str(r.get("adt", "")).endswith("ParseNode") and r.get("variant") == "EndOfSpan":
                    targets.append(i)
        if not targets:
            continue
        # transfer: per block (event of its terminator call), plus edge events for consume_optional's true edge
        block_event = {}
        edge_event = {}
        for u, t in cfg.calls():
            c = mirq.call_target(t) or ""
            short = c.split("::")[-1]
            if c.endswith("Tokens::cursor"):
                block_event[u] = "cursor"
            elif c.endswith(("Tokens::take", "Tokens::consume")):
                block_event[u] = "consumed"
            elif c.startswith(P) and c.count("::") == 2:
                # another function of the parser: it may consume tokens and it may hand back the cursor it read last
                # (a helper that returns the end of the span); what it leaves behind is not known from this body
                block_event[u] = "unknown"
            elif short == "consume_optional":
                sw = mirq.bool_switch_after_call(cfg, u)
                if sw is None:
                    block_event[u] = "consumed"     # conservatively
                else:
                    edge_event[(t.get("to"), sw[0])] = "consumed"
        state = {0: {"none"}}
        work = [0]
        while work:
            x = work.pop()
            out = set(state.get(x, set()))
            if x in block_event:
                out = {block_event[x]}
            for y in cfg.succ[x]:
                o2 = {edge_event[(x, y)]} if (x, y) in edge_event else out
                if not o2 <= state.get(y, set()):
                    state[y] = state.get(y, set()) | o2
                    work.append(y)
        for i in targets:
            sites += 1
            st = state.get(i, set())
            run.ob("R10-SPAN-END", "%s|EndOfSpan" % p.split("::")[-1], "consumed" not in st and "none" not in st, F.where(b),
                   "on every path into the construction of EndOfSpan the last token event must be a cursor() read; found %s "
                   "(`consumed`: a token was taken after the end was read, so the span stops short of it)" % sorted(st))
    run.floor("R10-SPAN-END", 2, "EndOfSpan construction sites (parse_type, parse_primary_expression)")


def r11_reservations_do_not_nest(run, F):
    """`if x == y { ..` is parsed with a *reservation*: the comparison only sees the tokens up to the next `{` or `;`.  When the
    reservation ends, the parser's window is reset to the whole rest of the token stream -- which is right for the outermost
    reservation only.  A reservation taken while another one is active would, on its release, hand the outer one the whole rest of
    the input: `if |x| == n { .. }` reads `n { ..` as a structure literal.  Call-graph rule, both generations: no function
    reachable from the code that runs under a reservation takes a reservation itself."""
    g = mirq.callgraph(F.lib)
    n = 0
    for W in sorted(k for k in F.lib.bodies if k.endswith("Tokens::with_reservation")):
        callers = sorted(k for k, v in g.items() if W in v and k in F.lib.bodies and "hir" in F.lib.bodies[k])
        run.require(callers, "no caller of %s found" % W)
        for f in callers:
            b = F.lib.bodies[f]
            guards = set()
            for x in walk(b["hir"]):
                if x.get("k") == "Let" and isinstance(x.get("init"), dict):
                    init = hirq.unwrap_trivial(x["init"])
                    if init.get("k") == "MethodCall" and (hirq.callee(init) or "") == W and hirq.strip_ref(x["pat"]).get("k") == "Bind":
                        guards.add(hirq.strip_ref(x["pat"])["lid"])
            under = set()
            for c in hirq.calls(b["hir"]):
                if hirq.callee(c) in F.lib.bodies and any(y.get("k") == "Path" and y.get("lid") in guards for a in c.get("a", []) for y in walk(a)):
                    under.add(hirq.callee(c))
            run.require(guards and under, "%s: the code that runs under the reservation was not found" % f)
            reach = mirq.reachable_fns(g, under)
            nested = sorted(x for x in reach if W in g.get(x, ()))
            n += 1
            run.ob("R11-RESERVATIONS-DO-NOT-NEST", f.split("::", 1)[0] + "::" + f.split("::")[-1], not nested, F.where(b),
                   "under the reservation taken in %s the parser can reach %s, which takes a reservation of its own; its release resets the outer window to the "
                   "whole rest of the input (%d functions run under the reservation)" % (f.split("::")[-1], [x.split("::")[-1] for x in nested], len(reach)),
                   sample={"under": sorted(under), "reachable": len(reach)})
    run.ob("R11-RESERVATIONS-DO-NOT-NEST", "scan", n >= 2, "src/delta/parser.rs / src/alpha/parser.rs", "%d reservation sites examined" % n)


def r12_chain_continues(run, F):
    """`a ^ b ^ c` is one chain of one operator.  In the second-generation parse_rest_of_bitwise_expression the operators that may
    *start* a chain (the arms of the match on the taken token) are the operators that may *continue* it: the loop continues on
    `consume_optional(<the taken token>)`, or on a table of (operator, token) pairs that has a row for every starting operator.  A
    table without the `^` row stops after `a ^ b`, and the statement parser rejects the valid module (E300)."""
    b = F.body("delta::parser::parse_rest_of_bitwise_expression")
    starts = {}
    tok_lid = None
    for m in hirq.matches(b["hir"]):
        sc = hirq.unwrap_trivial(m["scrut"])
        rows = {}
        for a in m["arms"]:
            for alt in hirq.pat_alts(a["pat"]):
                k = hirq.pat_key(alt)
                ops = [hirq.short(p_) for p_, _ in hirq.constructs(a["body"]) if hirq.short(p_).startswith("BinaryOp::")]
                if k.startswith("BaseToken::") and len(ops) == 1:
                    rows[k.split("::")[-1]] = ops[0].split("::")[-1]
        if len(rows) >= 2 and sc.get("k") == "Path" and sc.get("rk") == "Local":
            starts = rows
            tok_lid = sc.get("lid")
    run.require(len(starts) >= 2 and tok_lid is not None, "parse_rest_of_bitwise_expression: the table of starting operators was not found")
    generic = [c for c in hirq.calls(b["hir"]) if (hirq.callee(c) or "").endswith("Tokens::consume_optional") and c.get("a")
               and hirq.unwrap_trivial(c["a"][0]).get("lid") == tok_lid]
    if generic:
        run.ob("R12-CHAIN-CONTINUES", "delta bitwise chain", True, F.where(b, generic[0]), "the chain continues on consume_optional(<the token that started it>): every starting operator (%s) continues" % sorted(starts))
        return
    cont = set()
    for m in hirq.matches(b["hir"]):
        for a in m["arms"]:
            for alt in hirq.pat_alts(a["pat"]):
                q = hirq.strip_ref(alt)
                if q.get("k") == "Tuple" and len(q.get("pats", [])) == 2:
                    ks = [hirq.pat_key(x) for x in q["pats"]]
                    op = [k.split("::")[-1] for k in ks if k.startswith("BinaryOp::")]
                    tk = [k.split("::")[-1] for k in ks if k.startswith("BaseToken::")]
                    if op and tk:
                        cont.add((tk[0], op[0]))
    if not cont:
        from rules.core import CannotAnalyse
        raise CannotAnalyse("R12-CHAIN-CONTINUES: the continuation test of parse_rest_of_bitwise_expression is in a form the rule does not read")
    missing = sorted(set(starts.items()) - cont)
    run.ob("R12-CHAIN-CONTINUES", "delta bitwise chain", not missing, F.where(b),
           "operators that start a bitwise chain but do not continue one: %s (a chain of three operands stops after the second and the rest is a syntax error)" % missing)


def r13_older_node_is_current(run, F):
    """Left-associative chains (`a + b + c`, `a | b | c`, `x as u8 as i32`) are built in a loop: each round pushes a reference to
    the expression built *so far* (`push_older_node`) and then the new operator node, which becomes the expression.  The node
    referred to is therefore the loop's accumulator -- a local that the same loop assigns -- never a snapshot taken before the
    loop: with a snapshot every round after the first refers to the innermost operand again and the nodes built in between are
    orphaned (the dump stays balanced; `x as u8 as i32` loses the `u8` cast)."""
    n = 0
    for p, b in sorted(F.lib.bodies.items()):
        if "hir" not in b or not p.startswith("delta::parser::parse_") or "{closure" in p:
            continue
        for lp in [x for x in walk(b["hir"]) if x.get("k") == "Loop"]:
            inner = [y for y in walk(lp) if y.get("k") == "Loop" and y is not lp]
            assigned = set()
            for x in walk(lp):
                if x.get("k") == "Assign":
                    l = hirq.unwrap_trivial(x["lhs"])
                    if l.get("k") == "Path":
                        assigned.add(l.get("lid"))
            for c in hirq.calls(lp):
                if not (hirq.callee(c) or "").endswith("ParseBuffer::push_older_node") or any(c is z for il in inner for z in walk(il)):
                    continue
                a = hirq.unwrap_trivial(c["a"][0]) if c.get("a") else {}
                # (a copy taken inside the loop, `let so_far = expression;`, is the accumulator as well)
                for _ in range(3):
                    lets = [x for x in walk(lp) if x.get("k") == "Let" and hirq.strip_ref(x["pat"]).get("lid") == a.get("lid") and isinstance(x.get("init"), dict)]
                    if a.get("lid") in assigned or len(lets) != 1 or hirq.unwrap_trivial(lets[0]["init"]).get("k") != "Path":
                        break
                    a = hirq.unwrap_trivial(lets[0]["init"])
                n += 1
                run.ob("R13-OLDER-NODE-IS-CURRENT", "%s|site %d" % (p.split("::")[-1], n), a.get("k") == "Path" and a.get("lid") in assigned, F.where(b, c),
                       "the node referred to in a chain-building loop is the local the loop itself reassigns (the expression so far), not `%s` captured outside" % a.get("res"))
    run.floor("R13-OLDER-NODE-IS-CURRENT", 4, "chain-building loops of the second-generation parser (4 counted)")


def check(run):
    F = run.facts("A")
    r9_flags_flow(run, F)
    r10_span_end(run, F)
    r1_balance(run, F)
    r2_covers(run, F)
    r3_layout(run, F)
    r4_depth(run, F)
    r5_agree(run, F)
    r7_list_shapes(run, F)
    r8_literal_delimiters(run, F)
    r11_reservations_do_not_nest(run, F)
    r12_chain_continues(run, F)
    r13_older_node_is_current(run, F)
