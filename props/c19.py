"""C19 -- the token fuzzer emits only valid lexemes."""
import re

from rules import hirq, mirq, lexq
from rules.core import walk, AnchorMissing

LEVEL = "other"
EXPLANATION = (
    "Static cross-check of the token fuzzer against the *extracted* tables of both lexers (cfg A). Decided: "
    "R1 the weight table covers every BaseToken variant without wildcard, EndOfSource and Error have weight 0, every "
    "other weight is positive; the emission match handles every non-zero-weight variant by an explicit arm or the "
    "to_string() fallback; R2 for every variant emitted through to_string(), its strum spelling (read from the derived "
    "Display impl) tokenises under the extracted delta tables into exactly that token, and under the alpha tables into one "
    "valid token; ValueTypeKeyword spellings are type keywords of both lexers and int types are suffixes of both; "
    "R3 separator discipline: every arm whose text starts with an identifier-continuation character calls "
    "add_space_if_necessary before its first push, the fallback arm does so under is_identifier_continuation(first byte), "
    "and add_space_if_necessary tests the last byte with the lexer's own is_identifier_continuation; R4 escapes: the literal "
    "arms only write quote characters, `\\xHH` ({:02X}) and char::escape_default output, whose escape letters are in both "
    "lexers' escape tables for that quote kind; the char-literal arm draws from single_char_dist whose non-zero weights are "
    "printable ASCII plus characters escape_default spells without `\\u`; R5 size: capacity factor * fill percentage >= "
    "1024 * 100. Not decided: the shapes of random identifiers and numbers beyond these tables, RNG behaviour."
    " ADDED LATER: R6 (an expectation argument, not a bound): the capacity divisor of the second-generation token arrays does not exceed a lower bound of the fuzzer's mean token length computed from the weight table, the shortest spellings and the separator probability."
    " ROUND 7: R2-SPELLING also: the Identifier and Builtin arms write the generated identifier verbatim and the generator writes a digit only after the first position."
    " ROUND 8: R4-ESCAPES reads the `\\\\x` template from whichever formatting macro writes it (format!, write!) and requires the `:02X` / `:02x` padding."
    " ROUND 10: R2-SPELLING 'no hand-spelled fragment': the NakedDecimal, BitInteger and SuffixedInteger arms push formatted numbers and type keywords only (no literal `_`, sign or prefix)."
    " ROUND 11: the list of suffix types is found by role (the distribution sampled in the SuffixedInteger arm), written as an explicit list or as all type keywords minus the weight-0 arms.")

FZ = "delta::fuzzer::fill_to_capacity_with_tokens"
BT = "delta::lexer::BaseToken"


def display_table(F, enum):
    b = F.body("<%s as std::fmt::Display>::fmt" % enum)
    m = [x for x in hirq.matches(b["hir"])][0]
    tbl = {}
    for a in m["arms"]:
        s = [n["v"] for n in hirq.lits(a["body"], "str")]
        for alt in hirq.pat_alts(a["pat"]):
            tbl[hirq.pat_key(alt).split("::")[-1]] = s[0] if len(s) == 1 else None
    return tbl


def simulate(T, s):
    """Maximal-munch tokenisation of s under extracted tables; returns list of tokens or None on error."""
    out = []
    i = 0
    bs = [ord(c) for c in s]
    cont = T._cont
    while i < len(bs):
        c = bs[i]
        if c in T.single:
            out.append(T.single[c])
            i += 1
        elif c in T.double:
            tbl = T.double[c]
            nxt = bs[i + 1] if i + 1 < len(bs) else None
            if nxt is not None and nxt in tbl:
                out.append(tbl[nxt])
                i += 2
            else:
                out.append(tbl[None])
                i += 1
        elif lexq.in_class(set(T.ident_start), c):
            j = i + 1
            while j < len(bs) and lexq.in_class(cont, bs[j]):
                j += 1
            word = s[i:j]
            if word in T.keywords:
                out.append(T.keywords[word][0])
            elif j < len(bs) and bs[j] == 33:
                out.append("Builtin")
                j += 1
            else:
                out.append("Identifier")
            i = j
        else:
            return None
    return out


def check(run):
    F = run.facts("A")
    fz = F.body(FZ)
    variants = F.variants(BT)
    # ---- R1 weights
    wm = None
    em = None
    for m in hirq.matches_on_type(F.lib, fz["hir"], "lexer::BaseToken", 5):
        if wm is None:
            wm = m
        else:
            em = m
    run.require(wm is not None and em is not None, "weight/emission matches over BaseToken not found in the fuzzer")
    weights = {}
    for a in wm["arms"]:
        w = [n["v"] for n in hirq.lits(a["body"], "int")]
        for alt in hirq.pat_alts(a["pat"]):
            if hirq.is_catchall(alt):
                run.ob("R1-WEIGHTS", "wildcard", False, F.where(fz, a), "the weight table must list every BaseToken variant")
            else:
                weights[hirq.pat_key(alt).split("::")[-1]] = w[0] if len(w) == 1 else None
    for v in variants:
        w = weights.get(v)
        if v in ("EndOfSource", "Error"):
            run.ob("R1-WEIGHTS", v, w == 0, F.where(fz, wm), "%s must never be sampled (weight %s)" % (v, w))
        else:
            run.ob("R1-WEIGHTS", v, isinstance(w, int) and w > 0, F.where(fz, wm), "weight of %s is %s" % (v, w))
    explicit = {}
    fallback = None
    for a in em["arms"]:
        for alt in hirq.pat_alts(a["pat"]):
            if hirq.is_catchall(alt):
                fallback = a
            else:
                explicit[hirq.pat_key(alt).split("::")[-1]] = a
    run.require(fallback is not None, "fallback arm of the emission match not found")
    # ---- R2 spellings
    disp = display_table(F, BT)
    A = lexq.LexTables(F, "alpha")
    D = lexq.LexTables(F, "delta")
    A._cont = lexq.ident_continuation(F, "alpha")
    D._cont = lexq.ident_continuation(F, "delta")
    for v in variants:
        if v in explicit or weights.get(v) == 0:
            continue
        sp = disp.get(v)
        td = simulate(D, sp) if sp else None
        ta = simulate(A, sp) if sp else None
        ok = td == [v] and ta is not None and len(ta) == 1 and (ta[0] == v or (v == "Return" and ta[0] == "Identifier"))
        run.ob("R2-SPELLING", v, ok, F.where(fz, fallback),
               "BaseToken::%s is emitted as %r, which the delta tables lex as %s and the alpha tables as %s" % (v, sp, td, ta),
               sample={"variant": v, "spelling": sp, "delta": td, "alpha": ta})
    run.floor("R2-SPELLING", 45)
    # ---- R6 token density: the second-generation lexer sizes its token arrays once, as max(source_len / D, 1 << 16), and
    # reports E103 (a lexical error) when they are full.  The fuzzer's output must stay below one token per D bytes.  A lower
    # bound of its mean token length follows from the weight table and the spellings (1 byte for every randomly spelled
    # token, separators not counted); large outputs exceed the capacity as soon as D is larger than the true mean.
    te = F.body("delta::lexer::tokens::Tokens::empty")
    te_params = [q.get("lid") for q in te.get("params", [])]
    divs = [n for n in walk(te["hir"]) if n.get("k") == "Binary" and n.get("op") == "Div" and hirq.unwrap_trivial(n["lhs"]).get("lid") in te_params]
    dvals = [hirq.unwrap_trivial(n["rhs"]).get("v") for n in divs]
    run.require(len(dvals) >= 1 and isinstance(dvals[0], int), "Tokens::empty: `source_len / D` not found")
    Dv = dvals[0]   # the first division sizes the token arrays (the second one the payloads)
    tot = sum(w for v, w in weights.items() if isinstance(w, int))
    # shortest lexeme of each randomly spelled token kind (facts of the lexical grammar, not of the random generator)
    MINLEN = {"Identifier": 1, "NakedDecimal": 1, "BitInteger": 3, "SuffixedInteger": 3, "CharLiteral": 3, "StringLiteral": 2, "Bool": 4,
              "Builtin": 2, "Type": 2, "BraceLeft": 1, "BraceRight": 1}
    mean_lb = sum(w * (len(disp[v]) if (v not in explicit and disp.get(v)) else MINLEN.get(v, 1)) for v, w in weights.items() if isinstance(w, int) and w > 0) / float(tot)
    # expected separator bytes per token: add_whitespace pushes one space with probability p unless the last byte is a newline,
    # and newlines are at least `lo` bytes apart (every token has at least one byte, so at most one token in `lo` follows a newline)
    p_space, lo = 0.0, None
    # by role: the whitespace closure is the let-bound closure that draws random_bool and pushes a space without consulting the
    # lexer's identifier class; the newline position is the local compared with buffer.len() in the loop that pushes a newline
    newline_lids = set()
    for lp in walk(fz["hir"]):
        if lp.get("k") == "Loop" and 10 in lexq.char_lits(lp):
            for x in walk(lp):
                if x.get("k") == "Binary" and x.get("op") in ("Gt", "Ge", "Lt", "Le"):
                    sides = [hirq.unwrap_trivial(x["lhs"]), hirq.unwrap_trivial(x["rhs"])]
                    if any(y.get("k") == "MethodCall" and y.get("name") == "len" for y in sides):
                        newline_lids |= set(y.get("lid") for y in sides if y.get("k") == "Path" and y.get("rk") == "Local")
    for n in walk(fz["hir"]):
        is_ws = n.get("k") == "Let" and isinstance(n.get("init"), dict) and n["init"].get("k") == "Closure" and \
            32 in lexq.char_lits(n["init"]["body"]) and any(c.get("name") == "random_bool" for c in hirq.calls(n["init"]["body"])) and \
            not any(hirq.callee(c) == "delta::lexer::is_identifier_continuation" for c in hirq.calls(n["init"]["body"])) and \
            not any(c.get("name") == "random_range" and 97 in lexq.char_lits(c) for c in hirq.calls(n["init"]["body"]))
        if is_ws and 9 in lexq.char_lits(n["init"]["body"]):
            ps = []
            for c in hirq.calls(n["init"]):
                if c.get("name") == "random_bool" and c.get("a"):
                    mo = re.search(r'Float\("([0-9.]+)"', str(hirq.unwrap_trivial(c["a"][0]).get("v")))
                    if mo:
                        ps.append((c["l"], float(mo.group(1))))
            if ps:
                p_space = sorted(ps)[-1][1]    # the `else if rng.random_bool(p) { push(' ') }` branch is the last one
        if n.get("k") == "Let" and n["pat"].get("lid") in newline_lids and lo is None:
            for x in walk(n.get("init", {})):
                if x.get("k") == "Struct" and str(x.get("path", "")).endswith("ops::Range"):
                    lo = hirq.unwrap_trivial(x["fields"][0]["e"]).get("v")
    sep_lb = p_space * (1.0 - 1.0 / lo) if (lo and lo > 1) else 0.0
    mean_lb += sep_lb
    run.ob("R6-TOKEN-DENSITY", "capacity divisor vs mean token length", Dv <= mean_lb, "%s / %s" % (F.where(te), F.where(fz, wm)),
           "token arrays hold source_len / %d tokens; a lower bound of the fuzzer's mean token length (weights x shortest spellings "
           " is %.2f bytes incl. %.2f expected separator bytes: with a divisor above the mean, outputs beyond a few hundred KB are rejected with E103" % (Dv, mean_lb, sep_lb),
           sample={"divisor": Dv, "mean_token_length_lower_bound": round(mean_lb, 3)})
    fcalls = [hirq.callee(c) for c in hirq.calls(fallback["body"])]
    run.ob("R2-SPELLING", "fallback-uses-to_string", any((c or "").endswith("ToString>::to_string") for c in fcalls),
           F.where(fz, fallback), "the fallback arm must spell the token with its strum Display")
    # explicit brace arms
    for v, chv in (("BraceLeft", 123), ("BraceRight", 125)):
        a = explicit.get(v)
        lits = lexq.char_lits(a["body"]) if a else []
        run.ob("R2-SPELLING", v, lits == [chv] and D.single.get(chv) == v and A.single.get(chv) == v, F.where(fz, a or em),
               "%s must be emitted as %r" % (v, chr(chv)))
    # value type keywords and suffixes
    vdisp = display_table(F, "delta::lexer::ValueTypeKeyword")
    for v in F.variants("delta::lexer::ValueTypeKeyword"):
        if v == "NoKeyword":
            continue
        sp = vdisp.get(v)
        kd, ka = D.keywords.get(sp), A.keywords.get(sp)
        run.ob("R2-TYPE-KEYWORD", v, kd == ("ValueTypeKeyword", v, None) and ka == ("ValueTypeKeyword", v, None), F.where(fz),
               "ValueTypeKeyword::%s is emitted as %r: delta %s alpha %s" % (v, sp, kd, ka))
    # NoKeyword weight 0 in value_type_dist; int_type_dist lists exactly suffix types
    sd, sa = lexq.suffix_table(F, "delta"), lexq.suffix_table(F, "alpha")
    int_list = None
    # by role: the distribution that is sampled in the SuffixedInteger arm; it is either built from an explicit list of types or from
    # all type keywords minus those a match gives weight 0
    sampled = set()
    for c_ in hirq.calls(explicit["SuffixedInteger"]["body"]) if "SuffixedInteger" in explicit else []:
        if c_.get("k") == "MethodCall" and c_.get("name") == "sample":
            r_ = hirq.unwrap_trivial(c_["recv"])
            if r_.get("k") == "Path" and r_.get("rk") == "Local":
                sampled.add(r_.get("lid"))
    scopes = [n["init"] for n in walk(fz["hir"]) if n.get("k") == "Let" and isinstance(n.get("init"), dict) and hirq.strip_ref(n["pat"]).get("lid") in sampled]
    for scope in (scopes or [fz["hir"]]):
        for n in walk(scope):
            if n.get("k") == "Array" and len(n.get("a", [])) >= 8:
                names = [hirq.short(p).split("::")[-1] for x in n["a"] for p, _ in hirq.constructs(x)]
                if "Int8" in names:
                    int_list = names
        if int_list is None and scopes:
            for m_ in hirq.matches_on_type(F.lib, scope, "lexer::ValueTypeKeyword", 2):
                zero = set()
                for a_ in m_["arms"]:
                    if [x["v"] for x in hirq.lits(a_["body"], "int")] == [0]:
                        zero |= {hirq.pat_key(alt).split("::")[-1] for alt in hirq.pat_alts(a_["pat"]) if not hirq.is_catchall(alt)}
                if zero:
                    int_list = [v for v in F.variants("delta::lexer::ValueTypeKeyword") if v not in zero]
    run.require(int_list is not None, "int type list not found in the fuzzer")
    for v in int_list:
        sp = vdisp.get(v)
        run.ob("R2-SUFFIX", v, sd.get(sp) == v and sa.get(sp) == v, F.where(fz),
               "int type %s is appended as suffix %r: delta %s alpha %s" % (v, sp, sd.get(sp), sa.get(sp)))
    vm = None
    for m in hirq.matches_on_type(F.lib, fz["hir"], "lexer::ValueTypeKeyword", 2):
        vm = vm or m
    run.require(vm is not None, "the weight match over ValueTypeKeyword was not found")
    nk = [a for a in vm["arms"] if hirq.pat_key(a["pat"]).endswith("NoKeyword")]
    run.ob("R1-WEIGHTS", "ValueTypeKeyword::NoKeyword", len(nk) == 1 and [n["v"] for n in hirq.lits(nk[0]["body"], "int")] == [0],
           F.where(fz, vm), "NoKeyword has no spelling and must have weight 0")
    # ---- R2 identifier spelling: the Identifier and Builtin arms write the random identifier *verbatim* (any trimming, case
    # change or replacement can turn a valid first character into a digit or nothing), and the generator of that identifier
    # writes a digit only at positions after the first
    ident_lid, ident_closure = None, None
    for n in walk(fz["hir"]):
        if n.get("k") == "Let" and isinstance(n.get("init"), dict) and n["init"].get("k") == "Closure" and \
                any((hirq.callee(c) or "").endswith("from_utf8") for c in hirq.calls(n["init"]["body"])) and \
                any(c.get("name") == "random_range" for c in hirq.calls(n["init"]["body"])):
            ident_lid, ident_closure = n["pat"].get("lid"), n["init"]
    run.require(ident_closure is not None, "the identifier generator closure (random bytes, from_utf8) was not found")
    from rules import origins as _oro
    for v in ("Identifier", "Builtin"):
        a = explicit.get(v)
        run.require(a is not None, "the %s arm of the emission match was not found" % v)
        pushes = [c for c in hirq.calls(a["body"]) if c.get("k") == "MethodCall" and c.get("name") == "push_str"]
        verbatim = False
        for c in pushes:
            arg = hirq.unwrap_trivial(c["a"][0])
            while arg.get("k") == "AddrOf" or (arg.get("k") == "Unary" and arg.get("op") == "Deref"):
                arg = hirq.unwrap_trivial(arg["e"])
            if arg.get("k") == "Path" and arg.get("rk") == "Local":
                src = [n_ for n_ in walk(a["body"]) if n_.get("k") == "Let" and n_["pat"].get("lid") == arg.get("lid")]
                if src and hirq.unwrap_trivial(src[0]["init"]).get("k") == "Call" and hirq.unwrap_trivial(hirq.unwrap_trivial(src[0]["init"])["f"]).get("lid") == ident_lid:
                    verbatim = True
        run.ob("R2-SPELLING", "%s|identifier verbatim" % v, len(pushes) == 1 and verbatim, F.where(fz, a),
               "the %s arm must write the generated identifier as it is (push_str(&identifier)); a transformed spelling (trimmed, "
               "re-cased, replaced) need not start with an identifier-start character" % v)
    digit_pushes = [c for c in hirq.calls(ident_closure["body"]) if c.get("k") == "MethodCall" and c.get("name") == "push"
                    and any(x.get("k") == "Lit" and x.get("v") in (48, 57) for x in walk(c))]
    guarded = True
    for c in digit_pushes:
        ifs_ = [n for n in walk(ident_closure["body"]) if n.get("k") == "If" and any(x is c for x in walk(n["then"]))]
        first_guard = any(any(y.get("k") == "Binary" and y.get("op") == "Gt" and hirq.unwrap_trivial(y["rhs"]).get("v") == 0 for y in walk(n["cond"])) for n in ifs_)
        guarded = guarded and first_guard
    run.ob("R2-SPELLING", "identifier generator|no leading digit", bool(digit_pushes) and guarded, F.where(fz, ident_closure),
           "the identifier generator writes a digit only under `i > 0`: an identifier never starts with a digit")
    # ---- R3 separators
    # the separator closure, by role: the let-bound closure whose body calls the lexer's is_identifier_continuation
    sep_closure, sep_lid, sep_fn = None, None, None
    for n in walk(fz["hir"]):
        if n.get("k") == "Let" and isinstance(n.get("init"), dict) and n["init"].get("k") == "Closure" and \
                any(hirq.callee(c) == "delta::lexer::is_identifier_continuation" for c in hirq.calls(n["init"]["body"])):
            sep_closure, sep_lid = n["init"], n["pat"].get("lid")
    if sep_closure is None:
        # ... or a function item nested in the fuzzer (`fn add_space_if_necessary(buffer: &mut String) {..}`)
        for pth, nb in F.lib.bodies.items():
            if pth.startswith(FZ + "::") and "{closure" not in pth and "hir" in nb and \
                    any(hirq.callee(c) == "delta::lexer::is_identifier_continuation" for c in hirq.calls(nb["hir"])):
                sep_closure, sep_fn = {"body": nb["hir"], "k": "Closure", "l": nb.get("line")}, pth

    def calls_sep(c):
        if c.get("k") != "Call":
            return False
        if sep_fn is not None:
            return hirq.callee(c) == sep_fn
        return sep_lid is not None and hirq.unwrap_trivial(c["f"]).get("lid") == sep_lid
    starts_wordlike = {"Identifier", "Builtin", "ValueTypeKeyword", "NakedDecimal", "BitInteger", "SuffixedInteger", "BoolLiteral"}
    for v, a in explicit.items():
        calls = list(hirq.calls(a["body"]))
        first = calls[0] if calls else None
        first_is_space = first is not None and calls_sep(first)
        if v in starts_wordlike:
            run.ob("R3-SEPARATOR", v, first_is_space, F.where(fz, a),
                   "the %s arm writes text starting with an identifier-continuation character and must call "
                   "add_space_if_necessary(buffer) before its first push" % v)
        else:
            # must start by pushing a non-wordlike character
            ok = first is not None and first.get("k") == "MethodCall" and first.get("name") == "push" and \
                len(lexq.char_lits(first)) == 1 and not lexq.in_class(D._cont, lexq.char_lits(first)[0])
            run.ob("R3-SEPARATOR", v, ok, F.where(fz, a), "the %s arm must start with its opening delimiter" % v)
    # fallback: if is_identifier_continuation(first byte) { add_space_if_necessary }
    ok = False
    for n in walk(fallback["body"]):
        if n.get("k") == "If":
            cc = [hirq.callee(c) for c in hirq.calls(n["cond"])]
            if "delta::lexer::is_identifier_continuation" in cc and any(calls_sep(c) for c in hirq.calls(n["then"])):
                ok = True
    run.ob("R3-SEPARATOR", "fallback", ok, F.where(fz, fallback),
           "keywords and `_` emitted by the fallback arm need add_space_if_necessary when they start with an identifier-continuation byte")
    # add_space_if_necessary closure
    cl = sep_closure
    run.require(cl is not None, "the separator closure (tests the last byte with is_identifier_continuation, pushes a space) was not found")
    cc = [hirq.callee(c) for c in hirq.calls(cl["body"])]
    ok = "delta::lexer::is_identifier_continuation" in cc and lexq.char_lits(cl["body"]) == [32] and \
        any((c or "").endswith("Iterator::last") or (c or "").endswith("last") for c in cc)
    run.ob("R3-SEPARATOR", "add_space_if_necessary", ok, F.where(fz, cl),
           "add_space_if_necessary must test the buffer's last byte with the lexer's is_identifier_continuation and push ' '")
    # keywords cannot be glued to a preceding identifier/number: every keyword spelling starts with an identifier-continuation char
    # ---- number arms write a formatted number and, for a suffixed integer, a type keyword -- nothing spelled out by hand: a literal
    # fragment pushed next to the digits (a `_` "as in 255_u8", a sign, a prefix) is a spelling no table above covers, and `0_u8`
    # is E141 for both lexers (a decimal zero has no digit run that could absorb the separator)
    for v in ("NakedDecimal", "BitInteger", "SuffixedInteger"):
        a = explicit.get(v)
        run.require(a is not None, "fuzzer: arm for %s not found" % v)
        literal_pushes = []
        for c in hirq.calls(a["body"]):
            if c.get("k") == "MethodCall" and c.get("name") in ("push", "push_str", "insert", "insert_str", "extend") and c.get("a"):
                arg = hirq.unwrap_trivial(c["a"][-1])
                while arg.get("k") == "AddrOf":
                    arg = hirq.unwrap_trivial(arg["e"])
                if arg.get("k") == "Lit":
                    literal_pushes.append(c)
        run.ob("R2-SPELLING", "%s|no hand-spelled fragment" % v, not literal_pushes, F.where(fz, literal_pushes[0]) if literal_pushes else F.where(fz, a),
               "the %s arm pushes %d literal fragment(s) next to the formatted number: every character of a number comes out of a reviewed format template "
               "or a type keyword" % (v, len(literal_pushes)))
    # ---- R4 escapes
    ea, ed = A.escape_tables(), D.escape_tables()
    for v, q in (("CharLiteral", 39), ("StringLiteral", 34)):
        a = explicit[v]
        # whichever formatting macro writes it (format!, write!, ..): the template that starts with `\x` pads to exactly two hex digits
        fmts = sorted(set(t for n in walk(a["body"]) if n.get("src") for t in re.findall(r'"((?:[^"\\]|\\.)*)"', n.get("src", "")) if t.startswith("\\\\x")))
        okf = all(re.fullmatch(r'\\\\x\{\w*:02[Xx]\}', t) for t in fmts) and len(fmts) >= 1
        run.ob("R4-ESCAPES", "%s|hex-format" % v, okf and 120 in ea[q] and 120 in ed[q], F.where(fz, a),
               "hex escapes must be written as \\\\x{value:02X}: %s" % fmts)
        esc = [c for c in hirq.calls(a["body"]) if (hirq.callee(c) or "").endswith("escape_default")]
        run.ob("R4-ESCAPES", "%s|escape_default" % v, len(esc) >= 1, F.where(fz, a), "characters must go through char::escape_default")
        need = {116, 114, 110, 39, 34, 92}   # \t \r \n \' \" \\
        if v == "StringLiteral":
            need = need | {117}              # \u{...} for control and non-ASCII characters
        for c in sorted(need):
            run.ob("R4-ESCAPES", "%s|\\%s" % (v, chr(c)), c in ea[q] and c in ed[q], F.where(fz, a),
                   "escape_default can spell \\%s inside a %s, which both lexers must accept (alpha %s, delta %s)" % (
                       chr(c), v, c in ea[q], c in ed[q]))
        # quotes written
        pushes = [lexq.char_lits(c) for c in hirq.calls(a["body"]) if c.get("k") == "MethodCall" and c.get("name") == "push"]
        run.ob("R4-ESCAPES", "%s|delimiters" % v, pushes.count([q]) == 2, F.where(fz, a), "literal must open and close with %r" % chr(q))
    # single_char_dist: explicit list subset, guard is_ascii_graphic, catch-all 0
    sc = None
    for n in walk(fz["hir"]):
        # by role: the distribution whose weight match names the backslash and both quotes (characters that need escaping)
        if n.get("k") == "Let" and isinstance(n.get("init"), dict) and sc is None:
            pats = [lexq.char_lits(a["pat"]) for m in hirq.matches(n["init"]) for a in m["arms"]]
            if any({92, 39, 34} <= set(pl) for pl in pats):
                sc = n["init"]
    run.require(sc is not None, "the weight table of single characters (the one that names backslash and quotes) was not found")
    ms = [m for m in hirq.matches(sc)]
    run.require(ms, "match in single_char_dist not found")
    allowed = {32, 10, 9, 13, 92, 39, 34}
    for a in ms[0]["arms"]:
        w = [n["v"] for n in hirq.lits(a["body"], "int")]
        if "guard" in a:
            gc = [hirq.callee(c) for c in hirq.calls(a["guard"])]
            run.ob("R4-CHAR-DOMAIN", "guarded", any((c or "").endswith("is_ascii_graphic") for c in gc), F.where(fz, a),
                   "guarded arm must be x.is_ascii_graphic()")
        elif hirq.is_catchall(a["pat"]):
            run.ob("R4-CHAR-DOMAIN", "catch-all", w == [0], F.where(fz, a),
                   "all other bytes must have weight 0 in the char-literal distribution (escape_default would spell them \\u{..}, "
                   "which the second generation rejects inside a char literal)")
        else:
            cs = set(lexq.char_lits(a["pat"]))
            run.ob("R4-CHAR-DOMAIN", "explicit", cs <= allowed, F.where(fz, a), "explicit char-literal bytes %s must be within %s" % (sorted(cs), sorted(allowed)))
    # ---- R5 size
    B = run.facts("A")
    df = B.bin.bodies.get("do_fuzzing")
    run.require(df is not None, "do_fuzzing not found in the bin crate")
    factor = None
    for n in walk(df["hir"]):
        if n.get("k") == "Binary" and n.get("op") == "Mul" and hirq.unwrap_trivial(n["lhs"]).get("rk") == "Local" and n["rhs"].get("k") == "Lit":
            from rules import origins as _or
            ok_ = _or.origins(df["hir"], n["lhs"], df.get("params", ()))
            if any((k[0] == "field" and k[1] == "kb") or (k[0] == "patfield" and k[2] == "kb") for k in ok_) or hirq.local_name_of(n["lhs"]) == "kb":
                factor = n["rhs"]["v"] if factor is None else min(factor, n["rhs"]["v"])
    pct = None
    for c in hirq.calls(df["hir"]):
        if hirq.callee(c) == FZ:
            pct = c["a"][0].get("v")
    run.ob("R5-SIZE", "factor*percentage", factor is not None and pct is not None and factor * pct >= 1024 * 100, F.where(df),
           "capacity = kb * %s filled to %s%%: %s >= 102400 required for `at least the requested kilobytes`" % (factor, pct, (factor or 0) * (pct or 0)),
           sample={"factor": factor, "percentage": pct})
    # the loop condition compares 100*len with percentage*capacity (either operand order, either side of the comparison)
    def product(e):
        e = hirq.unwrap_trivial(e)
        if e.get("k") == "Binary" and e.get("op") == "Mul":
            return product(e["lhs"]) + product(e["rhs"])
        return [e]

    fparams = [q.get("name") for q in fz.get("params", [])]
    run.require(len(fparams) == 3, "fill_to_capacity_with_tokens: expected (percentage, buffer, num_errors), found %s" % fparams)
    pct_param = fparams[0]

    def side(e):
        fs = product(e)
        if len(fs) != 2:
            return None
        lits = [f.get("v") for f in fs if f.get("k") == "Lit"]
        names = [hirq.local_name_of(f) for f in fs]
        cs = [(hirq.callee(c) or "") for f in fs for c in hirq.calls(f)]
        if lits == [100] and any(c.endswith("String::len") for c in cs):
            return "len"
        if pct_param in names and any(c.endswith("String::capacity") for c in cs):
            return "cap"
        return None
    ok = False
    for n in walk(fz["hir"]):
        if n.get("k") == "Binary" and n.get("op") in ("Lt", "Le", "Gt", "Ge"):
            l, r = side(n["lhs"]), side(n["rhs"])
            if (n["op"] in ("Lt", "Le") and (l, r) == ("len", "cap")) or (n["op"] in ("Gt", "Ge") and (l, r) == ("cap", "len")):
                ok = True
    run.ob("R5-SIZE", "loop-condition", ok, F.where(fz), "the fill loop must run while 100 * len < percentage * capacity")
    run.assume("String::with_capacity(n).capacity() >= n; rand distributions only return indices with non-zero weight")
