"""C01 -- compiled programs behave as their source prescribes (lowering tables)."""
from rules import hirq, mirq, origins, visit
from rules.core import walk, norm_path, AnchorMissing
from props import c06, c07, c16

LEVEL = "other"
EXPLANATION = (
    "Static analysis of the lowering tables (cfg B). The behaviour of generated IR under lli is a run-time quantity and "
    "is NOT decided; decided are necessary table conditions: R1 the (BinaryOp, signedness) -> LLVMBuild* table of "
    "Expression::generate equals the reference (Add/Sub/Mul plain, SDiv|UDiv, SRem|URem chosen by `is_signed`, And/Or/"
    "Xor/Shl/LShr, GEP for pointer advance) with is_signed read from the node's own value_type, and the unary table "
    "(Neg, Not); R2 the (ComparisonOp, signedness) -> LLVMIntPredicate table with is_signed read from compared_type; "
    "R3 generate_conversion: narrower -> Trunc, else source signed -> SExt, else ZExt, bool -> ZExt, u8<->char8 "
    "identity, and its accepted pairs agree row by row with resolver::is_valid_primitive_conversion (a pair accepted by "
    "the resolver but missing here reaches unreachable!()); R4 ValueType::is_signed is exactly the five iN types; "
    "R5 both parsers agree on token->operator tables and on which function takes operands from which (precedence and "
    "associativity layering) -- shared with C16.R5; R6 the generator's loop lowering peels the final `loop` (shared "
    "with C06.R4) and Goto/Label lower through find_or_append_labeled_block; R7 members are addressed by the index the typer "
    "found by name: backward def-use slices show that analyze_member_access returns the enumerate index under the name "
    "equality test, that the typer, the resolver and the generator's insertvalue/extractvalue/GEP operands all derive "
    "from that offset and never from the position of a member in the source text; R8 the generator passes every child "
    "of every resolved node on to generate() (visitor completeness through helper functions). Address computation, autoderef insertion "
    "and wrap-around arithmetic are value-level and not decided."
    " ADDED LATER: R7 members are addressed by the offset resolved by name (def-use through typer, resolver, generator); R8 the generator passes every child of every resolved node on to generate() (interprocedural T2); the call-convention rule of C03.R8 and the literal materialisation rules of C09.R6 are shared."
    " ROUNDS 5-6: R9 decision table of resolved::Expression::value_type; R10 every extractvalue of generate_word_deref takes the value accumulated by the previous steps (backward slice). Tables are compared in canonical binding names (hirq.full_env), not source names."
    " ROUND 7: R11 the Element and Member arms after the automatic dereference of an immediate parameter both push the leading zero index (sibling agreement; /repo fix b78d5a6); class predicates are folded per variant whatever their form."
    " ROUND 8: R12-IMMEDIATE-FLAG-SCOPE: in the step loop of generate_storage_address the address local is only replaced with the immediate-parameter flag known false (path-sensitive scan; `data[0]` with `data: []&i32`); C09.R7 (string literal bytes) and C09.R10 (what may be spliced into the snprintf template) are shared, because what print!/format! write is part of the run-time behaviour."
    " ROUND 9: R13-ARRAY-LITERAL-BASE: the aggregate that run-time elements of an array literal are inserted into originates from LLVMConstArray, never from undef; R3-CAST-ALWAYS-CONVERTED: every value generate_primitive_cast returns comes from generate_conversion, and the PrimitiveCast arm is exactly that call."
    " ROUND 12: R14-D128-SIGN-TEST: the one signed comparison with zero in format_d128 (it decides whether the `-` of the 128-bit print template is skipped) is evaluated from its predicate constant and operand order at -1, 0 and 1; zero falls with 1.")

GEN_EXPR = "<alpha::resolved::Expression as alpha::generator::Generatable>::generate"
GEN_CMP = "<alpha::resolved::Comparison as alpha::generator::Generatable>::generate"

REF_BINARY = [
    ("Add", None, ["LLVMBuildAdd"]), ("Subtract", None, ["LLVMBuildSub"]), ("Multiply", None, ["LLVMBuildMul"]),
    ("Divide", "is_signed", ["LLVMBuildSDiv"]), ("Divide", None, ["LLVMBuildUDiv"]),
    ("Modulo", "is_signed", ["LLVMBuildSRem"]), ("Modulo", None, ["LLVMBuildURem"]),
    ("BitwiseAnd", None, ["LLVMBuildAnd"]), ("BitwiseOr", None, ["LLVMBuildOr"]), ("BitwiseXor", None, ["LLVMBuildXor"]),
    ("ShiftLeft", None, ["LLVMBuildShl"]), ("ShiftRight", None, ["LLVMBuildLShr"]), ("AdvancePointer", None, ["LLVMBuildGEP"]),
]
REF_CMP = [
    ("Equals", None, "LLVMIntEQ"), ("DoesNotEqual", None, "LLVMIntNE"),
    ("IsGreater", "is_signed", "LLVMIntSGT"), ("IsGreater", None, "LLVMIntUGT"),
    ("IsLess", "is_signed", "LLVMIntSLT"), ("IsLess", None, "LLVMIntULT"),
    ("IsGE", "is_signed", "LLVMIntSGE"), ("IsGE", None, "LLVMIntUGE"),
    ("IsLE", "is_signed", "LLVMIntSLE"), ("IsLE", None, "LLVMIntULE"),
]


def llvm_calls(node):
    return [hirq.callee(c).split("::")[-1] for c in hirq.calls(node) if (hirq.callee(c) or "").split("::")[-1].startswith("LLVMBuild")]


def signed_guard(field):
    """Canonical form (hirq.full_env) of the guard `is_signed` when the local was initialised from <self.field>.is_signed()."""
    return "{self.%s.is_signed()}" % field


def r1_binary(run, F):
    g = F.body(GEN_EXPR)
    m = [x for x in hirq.matches(g["hir"]) if hirq.n_alts(x) > 12][0]
    barm = hirq.arm_for(m, "Expression::Binary")
    run.require(barm, "Expression::Binary arm not found in the generator")
    env = hirq.full_env(g)
    om = hirq.matches_on_type(F.lib, barm[0]["body"], "BinaryOp", 6)
    run.require(om, "the match over the BinaryOp was not found in the Binary arm")
    rows = []
    SG = signed_guard("value_type")
    for a in om[0]["arms"]:
        guard = hirq.summarize_bool(a["guard"], env) if "guard" in a else None
        guard = "is_signed" if guard == SG else guard
        for alt in hirq.pat_alts(a["pat"]):
            if hirq.is_catchall(alt):
                rows.append(("_", guard, llvm_calls(a["body"])))
            else:
                rows.append((hirq.pat_key(alt).split("::")[-1], guard, llvm_calls(a["body"])))
    for i, want in enumerate(REF_BINARY):
        got = rows[i] if i < len(rows) else None
        run.ob("R1-BINARY-OPCODES", "%s%s" % (want[0], " if is_signed" if want[1] else ""), got == want, F.where(g, om[0]),
               "row %d of the opcode table must be %s, found %s (a swapped or unguarded row miscompiles every program using that operator)" % (i, want, got),
               sample={"want": want, "got": got})
    run.ob("R1-BINARY-OPCODES", "row count", len(rows) == len(REF_BINARY), F.where(g, om[0]), "%d rows" % len(rows))
    srcs = sorted(set(hirq.summarize_bool(a["guard"], env) for a in om[0]["arms"] if "guard" in a))
    run.ob("R1-SIGNEDNESS-SOURCE", "Binary", srcs == [SG], F.where(g, barm[0]),
           "the signedness that selects sdiv/srem must be read from the Binary node's own value_type (guards: %s)" % srcs)
    # operand order: LLVMBuildX(builder, left, right, ..)
    for a in om[0]["arms"]:
        for c in hirq.calls(a["body"]):
            cn = (hirq.callee(c) or "").split("::")[-1]
            if cn.startswith("LLVMBuild") and cn != "LLVMBuildGEP":
                from rules import origins as _or
                ol = _or.origins(g["hir"], c["a"][1], g.get("params", ()))
                orr = _or.origins(g["hir"], c["a"][2], g.get("params", ()))
                fl = sorted(k[2] for k in ol if k[0] == "patfield" and k[2] in ("left", "right"))
                fr = sorted(k[2] for k in orr if k[0] == "patfield" and k[2] in ("left", "right"))
                names = [fl, fr]
                ok_ = fl == ["left"] and fr == ["right"]
                run.ob("R1-OPERAND-ORDER", cn, ok_, F.where(g, c), "%s(builder, <left operand>, <right operand>): %s" % (cn, names))
    uarm = hirq.arm_for(m, "Expression::Unary")
    um = hirq.matches_on_type(F.lib, uarm[0]["body"], "UnaryOp", 2) if uarm else []
    urows = [(hirq.pat_key(a["pat"]).split("::")[-1], llvm_calls(a["body"])) for a in um[0]["arms"]] if um else []
    run.ob("R1-UNARY-OPCODES", "table", urows == [("Negative", ["LLVMBuildNeg"]), ("BitwiseComplement", ["LLVMBuildNot"])], F.where(g),
           "unary lowering: %s" % urows)


def r2_comparison(run, F):
    g = F.body(GEN_CMP)
    om = [x for x in hirq.matches(g["hir"]) if hirq.n_alts(x) >= 6]
    run.require(om, "match self.op not found in Comparison::generate")
    rows = []
    env = hirq.full_env(g)
    SG = signed_guard("compared_type")
    for a in om[0]["arms"]:
        guard = hirq.summarize_bool(a["guard"], env) if "guard" in a else None
        guard = "is_signed" if guard == SG else guard
        preds = [hirq.short(p).split("::")[-1] for p, _ in hirq.constructs(a["body"]) if "LLVMIntPredicate" in hirq.short(p)]
        rows.append((hirq.pat_key(a["pat"]).split("::")[-1], guard, preds[0] if len(preds) == 1 else preds))
    for i, want in enumerate(REF_CMP):
        got = rows[i] if i < len(rows) else None
        run.ob("R2-COMPARISON-PREDICATES", "%s%s" % (want[0], " if is_signed" if want[1] else ""), got == want, F.where(g, om[0]),
               "row %d of the predicate table must be %s, found %s" % (i, want, got), sample={"want": want, "got": got})
    run.ob("R2-COMPARISON-PREDICATES", "row count", len(rows) == len(REF_CMP), F.where(g), "%d rows" % len(rows))
    srcs = sorted(set(hirq.summarize_bool(a["guard"], env) for a in om[0]["arms"] if "guard" in a))
    run.ob("R1-SIGNEDNESS-SOURCE", "Comparison", srcs == [SG], F.where(g), "the signedness that selects the predicate must be read from compared_type (guards: %s)" % srcs)
    ic = [c for c in hirq.calls(g["hir"]) if (hirq.callee(c) or "").endswith("LLVMBuildICmp")]
    from rules import origins as _or
    ok = False
    if len(ic) == 1:
        o1 = _or.origins(g["hir"], ic[0]["a"][1], g.get("params", ()))
        o2 = _or.origins(g["hir"], ic[0]["a"][2], g.get("params", ()))
        o3 = _or.origins(g["hir"], ic[0]["a"][3], g.get("params", ()))
        ok = any(k[0] == "call" and "LLVMIntPredicate" in str(k) for k in o1) or any("LLVMInt" in str(k) for k in o1) or ("field", "op") in o1
        ok = ok and ("field", "left") in o2 and ("field", "right") not in o2 and ("field", "right") in o3 and ("field", "left") not in o3
    run.ob("R1-OPERAND-ORDER", "LLVMBuildICmp", ok, F.where(g), "LLVMBuildICmp(builder, pred, left, right)")


def r3_conversion(run, F):
    b = F.body("alpha::generator::generate_conversion")
    m = hirq.find_match(b, min_arms=4)
    rows = []
    genv = hirq.full_env(b)
    gpar = [q.get("name") for q in b.get("params", [])]
    run.require(len(gpar) == 4, "generate_conversion: expected (value, value_type, coerced_type, llvm) parameters, found %s" % gpar)

    def roles(txt, src, dst):
        return txt.replace(src, "<from>").replace(dst, "<to>") if txt else txt
    for a in m["arms"]:
        guard = roles(hirq.summarize_bool(a["guard"], genv), "$2", "$3") if "guard" in a else None
        pan = any(hirq.panic_kind(c) == "unreachable" for c in hirq.calls(a["body"]))
        rows.append((hirq.pat_key(a["pat"]), guard, "unreachable" if pan else "lowered"))
    r = F.body("alpha::resolver::is_valid_primitive_conversion")
    rm = hirq.find_match(r, min_arms=4)
    rrows = []
    renv = hirq.full_env(r)
    for a in rm["arms"]:
        guard = roles(hirq.summarize_bool(a["guard"], renv), "$1", "$2") if "guard" in a else None
        rrows.append((hirq.pat_key(a["pat"]), guard, hirq.summarize_bool(a["body"], renv)))
    ok = len(rows) == len(rrows)
    for (gp, gg, go), (rp, rg, ro) in zip(rows, rrows):
        same = gp == rp and gg == rg and ((ro == "true" and go == "lowered") or (ro == "false" and go == "unreachable"))
        run.ob("R3-CONVERSION-AGREES", "%s%s" % (rp, " if " + rg if rg else ""), same, F.where(b, m),
               "resolver row (%s, %s) -> %s must correspond to generator row (%s, %s) -> %s" % (rp, rg, ro, gp, gg, go))
        ok = ok and same
    run.ob("R3-CONVERSION-AGREES", "row count", len(rows) == len(rrows), F.where(b), "%d generator rows, %d resolver rows" % (len(rows), len(rrows)))
    # integral arm: trunc / sext / zext chain
    iarm = [a for a in m["arms"] if "guard" in a and roles(hirq.summarize_bool(a["guard"], genv), "$2", "$3") == "(<from>.is_integral() && <to>.is_integral())"]
    run.require(len(iarm) == 1, "integral arm not found in generate_conversion")
    chain = []
    n = None
    for x in walk(iarm[0]["body"]):
        if x.get("k") == "If" and "else" in x:
            n = x
            break
    first_cond = n["cond"] if n is not None else None
    while n is not None and n.get("k") == "If":
        cond_txt = "narrowing" if n["cond"] is first_cond else roles(hirq.summarize_bool(n["cond"], genv), "$2", "$3")
        chain.append((cond_txt, llvm_calls(n["then"])))
        e = hirq.unwrap_trivial(n.get("else", {}))
        if e.get("k") == "If":
            n = e
        else:
            chain.append(("else", llvm_calls(e)))
            n = None
    want = [("narrowing", ["LLVMBuildTrunc"]), ("<from>.is_signed()", ["LLVMBuildSExtOrBitCast"]), ("else", ["LLVMBuildZExtOrBitCast"])]
    run.ob("R3-EXTENSION-BY-SOURCE-TYPE", "integral conversions", chain == want, F.where(b, iarm[0]),
           "narrowing truncates; widening sign-extends iff the *source* type is signed, else zero-extends: %s" % chain, sample=chain)
    # the first condition means "the destination is narrower than the source": <size of the coerced type> < <size of the value's type>
    from rules import origins as _or
    it = False
    detail = "first condition not found"
    if first_cond is not None:
        defs = _or.definitions(b["hir"], b.get("params", ()))
        c0 = hirq.unwrap_trivial(first_cond)
        seen = 0
        while c0.get("k") == "Path" and c0.get("rk") == "Local" and seen < 3:
            srcs_ = [src for src, _ in defs.get(c0.get("lid"), []) if src is not None]
            if len(srcs_) != 1:
                break
            c0 = hirq.unwrap_trivial(srcs_[0])
            seen += 1
        if c0.get("k") == "Binary" and c0.get("op") in ("Lt", "Gt"):
            small, big = (c0["lhs"], c0["rhs"]) if c0["op"] == "Lt" else (c0["rhs"], c0["lhs"])
            tr = ("::size_in_bits", "Generatable>::generate")
            os_, ob_ = _or.origins(b["hir"], small, b.get("params", ()), transparent=tr), _or.origins(b["hir"], big, b.get("params", ()), transparent=tr)
            it = ("param", gpar[2]) in os_ and ("param", gpar[1]) not in os_ and ("param", gpar[1]) in ob_ and ("param", gpar[2]) not in ob_ \
                and any(str(k[1]).endswith("size_in_bits") for k in os_ if k[0] == "call") and any(str(k[1]).endswith("size_in_bits") for k in ob_ if k[0] == "call")
            detail = "smaller side derives from %s, larger side from %s" % (sorted(k[1] for k in os_ if k[0] == "param"), sorted(k[1] for k in ob_ if k[0] == "param"))
    run.ob("R3-EXTENSION-BY-SOURCE-TYPE", "is_truncated", it, F.where(b), "truncation is chosen when size_in_bits(coerced type) < size_in_bits(value's type): %s" % detail)
    barm = [a for a in m["arms"] if hirq.pat_key(a["pat"]).startswith("(ValueType::Bool")]
    run.ob("R3-EXTENSION-BY-SOURCE-TYPE", "bool -> int", len(barm) == 1 and llvm_calls(barm[0]["body"]) == ["LLVMBuildZExtOrBitCast"], F.where(b),
           "true converts to 1, not -1: zero extension")
    for a in m["arms"]:
        k = hirq.pat_key(a["pat"])
        if k in ("(ValueType::Uint8,ValueType::Char8)", "(ValueType::Char8,ValueType::Uint8)"):
            body = hirq.unwrap_trivial(a["body"])
            ok2 = body.get("k") == "Call" and hirq.local_name_of(hirq.unwrap_trivial(body["a"][0])) == gpar[0]
            run.ob("R3-EXTENSION-BY-SOURCE-TYPE", k, ok2, F.where(b, a), "u8 <-> char8 is the identity")


def r4_signed(run, F):
    s = c07.class_set(F, "is_signed")
    run.ob("R4-IS-SIGNED", "ValueType::is_signed", s == {"Int8", "Int16", "Int32", "Int64", "Int128"}, F.where(F.body("alpha::value_type::ValueType::is_signed")),
           "signed types: %s" % sorted(s))


def r6_lowering(run, F):
    c06.r4_generator(run, F)
    s = F.body("<alpha::resolved::Statement as alpha::generator::Generatable>::generate")
    m = [x for x in hirq.matches(s["hir"]) if hirq.n_alts(x) >= 6][0]
    for variant, want in (("Goto", ["LLVMBuildBr"]), ("Label", ["LLVMBuildBr"])):
        arm = hirq.arm_for(m, "Statement::" + variant)
        calls = llvm_calls(arm[0]["body"]) if arm else []
        cs = [hirq.callee(c) for c in hirq.calls(arm[0]["body"])] if arm else []
        run.ob("R6-GOTO-LABEL-LOWERING", variant, "alpha::generator::find_or_append_labeled_block" in cs and "LLVMBuildBr" in calls, F.where(s),
               "%s lowers to a branch to the label's basic block" % variant)
    iarm = hirq.arm_for(m, "Statement::If")
    calls = llvm_calls(iarm[0]["body"]) if iarm else []
    run.ob("R6-GOTO-LABEL-LOWERING", "If", "LLVMBuildCondBr" in calls, F.where(s), "if lowers to a conditional branch: %s" % calls)


def r7_member_index(run, F):
    """Members are addressed by the index the typer found by *name*: the index operand of every struct insert/extract/GEP
    derives from the resolved `offset`, never from the position of the member in the source text."""
    RULE = "R7-MEMBER-INDEX"

    def pos_based(o):
        return any(x[0] == "call" and x[1].endswith("::enumerate") for x in o)
    # 1. typer: offset = position of the member with the same name in the declared structure
    ma = F.body("alpha::typer::Typer::analyze_member_access")
    rets = []
    for n in walk(ma["hir"]):
        c_ = hirq.unwrap_trivial(n["cond"]) if n.get("k") == "If" else {}
        # `<member>.name == <accessed identifier>.name` (whatever the two are called)
        if c_.get("k") == "Binary" and c_.get("op") == "Eq" and all(hirq.unwrap_trivial(c_[x]).get("k") == "Field" and hirq.unwrap_trivial(c_[x]).get("name") == "name" for x in ("lhs", "rhs")):
            for r in walk(n["then"]):
                if r.get("k") == "Ret":
                    rets.append(origins.origins(ma["hir"], r.get("e"), ma.get("params", ())))
    ok = len(rets) == 1 and ("tuplepos", 0) in rets[0] and ("field", "members") in rets[0] and \
        any(x[0] == "call" and x[1].endswith("::enumerate") for x in rets[0])
    run.ob(RULE, "typer: offset by name", ok, F.where(ma),
           "analyze_member_access returns the enumerate index of the declared member whose name equals the accessed name",
           sample=[sorted(map(str, r))[:12] for r in rets])
    st = F.body("alpha::typer::analyze_structural")
    got = []
    for cb in [st]:
        for path, n in hirq.constructs(cb["hir"]):
            if hirq.short(path).endswith("MemberExpression") and n.get("k") == "Struct":
                fe = [f for f in n.get("fields", []) if f.get("name") == "offset"]
                if fe:
                    got.append((cb, origins.origins(cb["hir"], fe[0].get("e") or fe[0].get("v"), cb.get("params", ()))))
    ok = len(got) == 1 and ("call", "alpha::typer::Typer::analyze_member_access") in got[0][1] and not pos_based(got[0][1])
    run.ob(RULE, "typer: structural literal", ok, F.where(st),
           "the offset of a member in a structure literal comes from analyze_member_access (lookup by name), not from its position in the literal",
           sample=[sorted(map(str, g[1]))[:12] for g in got])
    gt = F.body("alpha::typer::Typer::get_type_of_reference")
    asg = [n for n in walk(gt["hir"]) if n.get("k") == "Assign" and any(x.get("res") == "offset" for x in walk(n["lhs"]))]
    oks = [origins.origins(gt["hir"], n["rhs"], gt.get("params", ())) for n in asg]
    ok = len(oks) >= 1 and all(("call", "alpha::typer::Typer::analyze_member_access") in o and not pos_based(o) for o in oks)
    run.ob(RULE, "typer: member step", ok, F.where(gt), "the offset of a `.member` step comes from analyze_member_access",
           sample=[sorted(map(str, o))[:12] for o in oks])
    # 2. resolver copies the offset
    for path_, what, need in (("<alpha::common::MemberExpression as alpha::resolver::Resolvable>::resolve", "MemberExpression", ("field", "offset")),
                              ("<alpha::common::ReferenceStep as alpha::resolver::Resolvable>::resolve", "ReferenceStep::Member", ("patfield", "ReferenceStep::Member", "offset"))):
        rb = F.body(path_)
        found = []
        for path, n in hirq.constructs(rb["hir"]):
            if hirq.short(path).endswith(what) and n.get("k") == "Struct" and "resolved" in path:
                fe = [f for f in n.get("fields", []) if f.get("name") == "offset"]
                if fe:
                    found.append(origins.origins(rb["hir"], fe[0].get("e") or fe[0].get("v"), rb.get("params", ())))
        ok = len(found) == 1 and need in found[0] and not pos_based(found[0])
        run.ob(RULE, "resolver: " + what, ok, F.where(rb), "the resolved %s keeps the typer's offset" % what, sample=[sorted(map(str, o))[:12] for o in found])
    # 3. generator: index operands
    sl = F.body("alpha::generator::generate_structure_literal")
    sites = [c for c in hirq.calls(sl["hir"]) if (hirq.callee(c) or "").endswith("LLVMBuildInsertValue")]
    run.require(len(sites) == 1, "generate_structure_literal: expected one LLVMBuildInsertValue (found %d)" % len(sites))
    o = origins.origins(sl["hir"], sites[0]["a"][3], sl.get("params", ()))
    run.ob(RULE, "generator: structure literal", ("field", "offset") in o and not pos_based(o), F.where(sl, sites[0]),
           "the insertvalue index of a structure literal is the member's resolved offset, not its position in the literal "
           "(out-of-order literals would build a constant of the wrong shape, which LLVM's verifier does not look into)", sample=sorted(map(str, o))[:12])
    ov = origins.origins(sl["hir"], sites[0]["a"][2], sl.get("params", ()))
    run.ob(RULE, "generator: structure literal value", ("field", "expression") in ov, F.where(sl, sites[0]), "the inserted value is the member's own expression")
    wd = F.body("alpha::generator::{Reference}::generate_word_deref")
    ex = [c for c in hirq.calls(wd["hir"]) if (hirq.callee(c) or "").endswith("LLVMBuildExtractValue")]
    want = {("patfield", "ReferenceStep::Member", "offset"), ("patfield", "ReferenceStep::Autodeslice", "offset")}
    seen = set()
    for c in ex:
        o = origins.origins(wd["hir"], c["a"][2], wd.get("params", ()))
        hit = want & o
        seen |= hit
        run.ob(RULE, "generator: word member %s" % sorted(h[1] for h in hit), len(hit) == 1 and not pos_based(o), F.where(wd, c),
               "the extractvalue index is the step's own offset", sample=sorted(map(str, o))[:12])
    run.ob(RULE, "generator: word member sites", seen == want, F.where(wd), "both step kinds extract by their offset (%s)" % sorted(seen))
    sa = F.body("alpha::generator::{Reference}::generate_storage_address")
    m = [x for x in hirq.matches(sa["hir"]) if hirq.arm_for(x, "ReferenceStep::Member") and hirq.arm_for(x, "ReferenceStep::Element")]
    run.require(m, "generate_storage_address: match over ReferenceStep not found")
    arm = hirq.arm_for(m[0], "ReferenceStep::Member")[0]
    pushes = [c for c in hirq.calls(arm["body"]) if c.get("k") == "MethodCall" and c.get("name") == "push"]
    consts = [hirq.unwrap_trivial(c["a"][0]) for c in pushes if hirq.callee(hirq.unwrap_trivial(c["a"][0])) == "alpha::generator::Generator::const_i32"]
    oks = [origins.origins(sa["hir"], c["a"][0], sa.get("params", ())) for c in consts]
    ok = len(pushes) == 1 and len(oks) == 1 and ("patfield", "ReferenceStep::Member", "offset") in oks[0]
    run.ob(RULE, "generator: member address", ok, F.where(sa, arm), "the GEP index of a `.member` step is const_i32(offset)", sample=[sorted(map(str, o))[:12] for o in oks])


def r8_generator_visit(run, F):
    """T2 (interprocedural): the generator lowers every statement, expression and reference of the resolved tree; an arm
    that does not pass a child on to generate() (directly or through a helper) silently drops that part of the program."""
    C = F.lib
    rel = visit.type_closure(C, {"alpha::resolved::Expression", "alpha::resolved::Reference", "alpha::resolved::Statement"})
    TR = "alpha::generator::Generatable"

    def base(c):
        return c.endswith("alpha::generator::Generatable>::generate") or c == TR + "::generate"
    cands = [b for p, b in C.bodies.items() if p.startswith("alpha::generator::") and "{closure" not in p and not b.get("impl_trait")]
    T = visit.traverser_closure(C, base, cands, rel)
    run.info("generator helper traversals: %s" % sorted(T))
    impls = [b for b in C.bodies.values() if b.get("impl_trait") == TR and "{closure" not in b["npath"]]
    run.require(len(impls) >= 8 and len(T) >= 10, "generator: Generatable impls / helper traversals not found (%d, %d)" % (len(impls), len(T)))
    exceptions = {"Declaration::Constant.value": "constant initialisers are lowered by generator::declare (checked below), before any function body"}
    n = 0
    for b in impls:
        def rep(key, ok, where, detail, sample):
            run.ob("R8-GENERATOR-VISITS", key, ok, where, detail + ": that part of the program is never lowered to IR", sample)
        n += visit.check_impl(F, C, b, rel, lambda c: base(c) or c in T, rep, exceptions=exceptions)
    run.require(n >= 30, "too few visit obligations (%d)" % n)
    d = F.body("alpha::generator::declare")
    m = hirq.find_match(d, min_arms=3)
    carm = hirq.arm_for(m, "Declaration::Constant")
    ok = False
    if carm:
        binds = {nm: lid for nm, lid, _ in hirq.pat_bindings(carm[0]["pat"])}
        ok = "value" in binds and any(base(hirq.callee(c) or "") and hirq.uses_local(c.get("recv", {}), binds["value"]) for c in hirq.calls(carm[0]["body"]))
    run.ob("R8-GENERATOR-VISITS", "declare lowers the constant initialiser", ok, F.where(d), "generator::declare must generate the value of a constant")


RESOLVED_TYPE_FIELD = {
    # variant -> field (or fixed type / delegate) that IS the type of the expression's value; confirmed against resolver.rs,
    # which fills these fields: the *result* type, never the operand's
    "Binary": "value_type", "Unary": "value_type", "SignedIntegerLiteral": "value_type", "BitIntegerLiteral": "value_type",
    "Structural": "structural_type", "Deref": "deref_type", "Autocoerce": "coerced_type", "BitCast": "coerced_type",
    "PrimitiveCast": "coerced_type", "FunctionCall": "return_type",
    "LengthOfArray": "ValueType::Usize", "SizeOf": "ValueType::Usize",
}


def r9_resolved_value_type(run, F):
    """The type the generator's formatting code asks a resolved expression for (print!/format! choose the printf specifier and
    the widening from it) is the type of the *value*: for a cast the target type, not the operand's."""
    b = F.body("<alpha::resolved::Expression as alpha::resolved::Typed>::value_type")
    m = hirq.find_match(b, min_arms=10)
    for a in m["arms"]:
        v = hirq.pat_key(a["pat"]).split("::")[-1]
        want = RESOLVED_TYPE_FIELD.get(v)
        if want is None:
            continue
        body = hirq.unwrap_trivial(a["body"])
        if want.startswith("ValueType::"):
            got = [hirq.short(p) for p, _ in hirq.constructs(body)]
            ok = got == [want]
            desc = str(got)
        else:
            binds = {nm: lid for nm, lid, _ in hirq.pat_bindings(a["pat"])}
            used = [x.get("res") for x in walk(body) if x.get("k") == "Path" and x.get("rk") == "Local"]
            ok = used == [want] and want in binds and body.get("k") == "MethodCall" and body.get("name") == "clone"
            desc = "returns %s" % used
        run.ob("R9-RESOLVED-VALUE-TYPE", v, ok, F.where(b, a),
               "resolved::Expression::%s::value_type() must be its `%s` (%s)" % (v, want, desc))
    run.floor("R9-RESOLVED-VALUE-TYPE", 12)


def r10_step_chaining(run, F):
    """A reference `p.a.b` on a by-value word parameter is lowered step by step: each extractvalue takes the *result of the
    previous step* as its aggregate.  In generate_word_deref every LLVMBuildExtractValue's aggregate operand must derive from
    the loop-carried value (an origin that is itself an LLVMBuildExtractValue result), not only from the parameter `from`
    (then every step would restart at the outermost word); and the function returns that accumulated value."""
    from rules import origins
    b = F.body("alpha::generator::{Reference}::generate_word_deref") if F.has_body("alpha::generator::{Reference}::generate_word_deref") else None
    if b is None:
        cands = [x for p, x in F.lib.bodies.items() if p.endswith("::generate_word_deref")]
        run.require(len(cands) == 1, "generate_word_deref not found")
        b = cands[0]
    n = 0
    seeds = [q.get("name") for q in b.get("params", []) if "LLVMValue" in str(F.lib.ty(q.get("t")))]
    run.require(len(seeds) == 1, "generate_word_deref: expected one LLVMValueRef parameter, found %s" % seeds)
    for c in hirq.calls(b["hir"]):
        if (hirq.callee(c) or "").endswith("LLVMBuildExtractValue"):
            n += 1
            o = origins.origins(b["hir"], c["a"][1], b.get("params", ()))
            carried = any(k[0] == "call" and str(k[1]).endswith("LLVMBuildExtractValue") for k in o)
            run.ob("R10-STEP-CHAINING", "extractvalue #%d aggregate" % n, carried and any(("param", v) in o for v in seeds), F.where(b, c),
                   "the aggregate operand must be the value accumulated by the previous steps (seeded with the LLVMValueRef parameter %s); origins: %s" % (
                       seeds, sorted(map(str, o))))
    run.floor("R10-STEP-CHAINING", 2, "extractvalue sites in generate_word_deref (Autodeslice, Member)")
    rets = [c for c in hirq.calls(b["hir"]) if (hirq.callee(c) or "").endswith("::Some") and c.get("a")]
    ok = False
    for c in rets:
        o = origins.origins(b["hir"], c["a"][0], b.get("params", ()))
        if any(k[0] == "call" and str(k[1]).endswith("LLVMBuildExtractValue") for k in o):
            ok = True
    run.ob("R10-STEP-CHAINING", "result is the accumulated value", ok, F.where(b), "generate_word_deref returns Some(accumulated value)")


def r11_immediate_parameter_index(run, F):
    """A by-value parameter is its own storage: when a reference starts at a parameter and its first (automatic) dereference is
    followed by an access, the GEP needs a leading zero index that a load would otherwise have provided.  In the
    Autoderef/Autoview arm of generate_storage_address, the arms of `match steps.peek()` for the two kinds of access
    (Element, Member) are siblings: each pushes `const_i32(0)` onto the indices under a test of the immediate-parameter flag
    (the bool local that is set where the base is found among the parameters).  The Member arm had it, the Element arm did
    not: `x[0]` with `x: &[2]i32` returned the whole array."""
    cands = [x for p, x in F.lib.bodies.items() if p.endswith("::generate_storage_address")]
    run.require(len(cands) == 1, "generate_storage_address not found")
    b = cands[0]
    flag_lids = set()
    for n in walk(b["hir"]):
        if n.get("k") == "Assign" and hirq.unwrap_trivial(n["rhs"]).get("v") is True:
            l = hirq.unwrap_trivial(n["lhs"])
            if l.get("k") == "Path" and l.get("rk") == "Local" and str(F.lib.ty(l.get("t"))) == "bool":
                flag_lids.add(l.get("lid"))
    peeks = [m for m in hirq.matches(b["hir"]) if any(c.get("k") == "MethodCall" and c.get("name") == "peek" for c in hirq.calls(m["scrut"]))]
    run.require(len(peeks) == 1 and flag_lids, "generate_storage_address: `match steps.peek()` or the immediate-parameter flag was not found")
    for kind in ("Element", "Member"):
        arms = [a for a in peeks[0]["arms"] if any(str(x.get("ctor_of") or x.get("res") or "").endswith("ReferenceStep::" + kind) for alt in hirq.pat_alts(a["pat"]) for x in walk(alt))]
        ok = False
        for a in arms:
            for n in walk(a["body"]):
                if n.get("k") == "If" and any(x.get("k") == "Path" and x.get("lid") in flag_lids for x in walk(n["cond"])):
                    pushes = [c for c in hirq.calls(n["then"]) if c.get("k") == "MethodCall" and c.get("name") == "push"]
                    if any(any(hirq.unwrap_trivial(y).get("v") == 0 for x in hirq.calls(c) if (hirq.callee(x) or "").endswith("const_i32") for y in x.get("a", [])) for c in pushes):
                        ok = True
        run.ob("R11-IMMEDIATE-PARAMETER-INDEX", kind, ok and len(arms) == 1, F.where(b, arms[0]) if arms else F.where(b),
               "after the automatic dereference of an immediate parameter, a following %s access needs the leading zero index "
               "(push const_i32(0) under the immediate-parameter flag), as its sibling has" % kind)


def r12_immediate_flag_scope(run, F):
    """The immediate-parameter flag says "the address at hand still *is* the parameter's value, an automatic dereference needs no
    load".  That is true until the address is replaced (by the data pointer extracted from a slice parameter, by a loaded
    pointer): from then on every automatic dereference must load.  In each arm of the step loop of generate_storage_address, an
    assignment to the address local is therefore only reached with the flag known false -- after `flag = false`, or after
    `if flag { ..; continue }`.  (`data[0]` with `data: []&i32` skipped the load of the element pointer.)"""
    cands = [x for p, x in F.lib.bodies.items() if p.endswith("::generate_storage_address")]
    run.require(len(cands) == 1, "generate_storage_address not found")
    b = cands[0]
    flag_lids = set()
    for n in walk(b["hir"]):
        if n.get("k") == "Assign" and hirq.unwrap_trivial(n["rhs"]).get("v") is True:
            l = hirq.unwrap_trivial(n["lhs"])
            if l.get("k") == "Path" and l.get("rk") == "Local" and str(F.lib.ty(l.get("t"))) == "bool":
                flag_lids.add(l.get("lid"))
    # the address local: the one the function hands back in Ok(..) at its end
    body = hirq.unwrap_trivial(b["hir"])
    tail = hirq.unwrap_trivial(body.get("e") or {})
    addr = None
    if tail.get("k") == "Call" and (hirq.callee(tail) or "").endswith("Ok") and tail.get("a"):
        a0 = hirq.unwrap_trivial(tail["a"][0])
        if a0.get("k") == "Path" and a0.get("rk") == "Local":
            addr = a0.get("lid")
    ms = [m for m in hirq.matches(b["hir"]) if sum(1 for a in m["arms"] for alt in hirq.pat_alts(a["pat"]) if "ReferenceStep::" in hirq.pat_key(alt)) >= 5
          and not any(c.get("k") == "MethodCall" and c.get("name") == "peek" for c in hirq.calls(m["scrut"]))]
    run.require(len(flag_lids) == 1 and addr is not None and len(ms) == 1, "generate_storage_address: flag %s, address local %s, step match %d" % (flag_lids, addr, len(ms)))
    flag = list(flag_lids)[0]

    def is_flag(e):
        e = hirq.unwrap_trivial(e)
        return e.get("k") == "Path" and e.get("lid") == flag

    def diverges(blk):
        blk = hirq.unwrap_trivial(blk)
        if blk.get("k") != "Block":
            return blk.get("k") in ("Continue", "Break", "Ret")
        last = blk["stmts"][-1] if blk.get("stmts") else None
        e = blk.get("e")
        x = hirq.unwrap_trivial(e) if e is not None else (hirq.unwrap_trivial(last.get("e", {})) if last and last.get("k") in ("Semi", "Expr") else {})
        return x.get("k") in ("Continue", "Break", "Ret")

    # Path-sensitive scan of one arm.  A state is (flag known false, address replaced); `exits` collects the states in which an
    # iteration of the step loop ends (the end of the arm, or a `continue`).  The invariant: no iteration ends with the address
    # replaced while the flag may still be set.
    def scan(n, states, exits):
        """states: set of (known_false, replaced) reaching n; returns the set of states leaving n normally"""
        n = hirq.unwrap_trivial(n)
        k = n.get("k")
        if not states:
            return states
        if k == "Block":
            st = states
            for s_ in n.get("stmts", []):
                if s_.get("k") == "Let":
                    if isinstance(s_.get("init"), dict):
                        st = scan(s_["init"], st, exits)
                else:
                    st = scan(s_.get("e", s_), st, exits)
            if n.get("e") is not None:
                st = scan(n["e"], st, exits)
            return st
        if k == "Assign":
            l = hirq.unwrap_trivial(n["lhs"])
            if l.get("k") == "Path" and l.get("lid") == flag:
                v = hirq.unwrap_trivial(n["rhs"]).get("v")
                return {((v is False), r) for _, r in states}
            st = scan(n["rhs"], states, exits)
            if l.get("k") == "Path" and l.get("lid") == addr:
                return {(f, True) for f, _ in st}
            return st
        if k == "If":
            if is_flag(n["cond"]):
                t = scan(n["then"], {(False, r) for _, r in states}, exits)
                e_in = {(True, r) for _, r in states}
                e = scan(n["else"], e_in, exits) if n.get("else") is not None else e_in
                return t | e
            st = scan(n["cond"], states, exits)
            t = scan(n["then"], st, exits)
            e = scan(n["else"], st, exits) if n.get("else") is not None else st
            return t | e
        if k == "Match":
            st = scan(n["scrut"], states, exits)
            out = set()
            for a_ in n["arms"]:
                out |= scan(a_["body"], st, exits)
            return out
        if k == "Continue":
            exits |= states
            return set()
        if k in ("Ret", "Break"):
            if isinstance(n.get("e"), dict):
                scan(n["e"], states, exits)
            return set()
        if k in ("Loop", "Closure"):
            return {(False, r) for _, r in states} | states      # not modelled: the flag is unknown afterwards
        st = states
        for v in n.values():
            if isinstance(v, dict) and "k" in v:
                st = scan(v, st, exits)
            elif isinstance(v, list):
                for x in v:
                    if isinstance(x, dict) and "k" in x:
                        st = scan(x, st, exits)
                    elif isinstance(x, dict):
                        for y in x.values():
                            if isinstance(y, dict) and "k" in y:
                                st = scan(y, st, exits)
        return st
    narms = 0
    for a in ms[0]["arms"]:
        assigns = [x for x in walk(a["body"]) if x.get("k") == "Assign" and hirq.unwrap_trivial(x["lhs"]).get("lid") == addr]
        if not assigns:
            continue
        narms += 1
        exits = set()
        exits |= scan(a["body"], {(False, False)}, exits)
        bad = [e for e in exits if e[1] and not e[0]]
        label = "|".join(sorted(set(hirq.pat_key(alt).split("::")[-1] for alt in hirq.pat_alts(a["pat"]))))
        run.ob("R12-IMMEDIATE-FLAG-SCOPE", label, not bad, F.where(b, assigns[0]),
               "an iteration of the step loop can end in the %s arm with the address replaced while the immediate-parameter flag may still be set: a later "
               "automatic dereference would skip its load (`data[0]` with `data: []&i32`; `data[1].leaf.value` with `leaf: &Leaf`)" % label)
    run.ob("R12-IMMEDIATE-FLAG-SCOPE", "scan", narms >= 2, F.where(b), "%d arms of the step loop replace the address (Autoderef/Autoview, Autodeslice 0)" % narms)


def r13_array_literal_base(run, F):
    """An array literal `[a, 7, b, 9]` is built from the constant array of its constant elements (placeholders at the run-time
    positions), into which the run-time elements are inserted.  The aggregate operand of every insertvalue in the ArrayLiteral arm
    therefore originates from LLVMConstArray (or from the previous insertvalue) and never from an `undef` of the array type:
    starting from undef as soon as one element is not constant loses every constant element of a mixed literal."""
    cands = [b for p, b in F.lib.bodies.items() if p.endswith("Expression as alpha::generator::Generatable>::generate") and "resolved::Expression" in p and "{closure" not in p]
    run.require(len(cands) == 1, "Expression::generate not found (%d)" % len(cands))
    b = cands[0]
    ms = hirq.matches_on_type(F.lib, b["hir"], "resolved::Expression", min_alts=10)
    run.require(len(ms) >= 1, "Expression::generate: match on the expression not found")
    arms = hirq.arm_for(ms[0], "Expression::ArrayLiteral")
    run.require(len(arms) == 1, "Expression::generate: ArrayLiteral arm not found")
    ins = [c for c in hirq.calls(arms[0]["body"]) if (hirq.callee(c) or "").endswith("LLVMBuildInsertValue")]
    for i, c in enumerate(ins):
        o = origins.origins(b["hir"], c["a"][1], b.get("params", ()))
        calls_ = sorted(str(k[1]).split("::")[-1] for k in o if k[0] == "call" and "llvm_sys" in str(k[1]))
        ok = "LLVMConstArray" in calls_ and "LLVMGetUndef" not in calls_
        run.ob("R13-ARRAY-LITERAL-BASE", "insertvalue #%d" % i, ok, F.where(b, c),
               "the array that run-time elements are inserted into is the LLVMConstArray of the constant elements, never undef (a mixed literal would lose "
               "its constant elements); LLVM origins of the aggregate: %s" % calls_)
    run.ob("R13-ARRAY-LITERAL-BASE", "scan", len(ins) >= 1, F.where(b, arms[0]), "%d insertvalue site(s) in the ArrayLiteral arm" % len(ins))


def r3b_cast_always_converted(run, F):
    """`x as T` has the LLVM type of T: the value of a primitive cast is whatever generate_conversion returns for the pair of types,
    on every path.  A shortcut that hands back the operand unconverted for "same width" pairs is wrong where the storage width
    and the LLVM type differ (bool is one byte of storage and `i1` as a value: `true as u8` would stay an i1, and the textual IR of
    a constant aggregate that holds it is rejected by llvm-as while the in-process verifier does not look inside constants)."""
    from rules import visit
    cands = [b for p, b in F.lib.bodies.items() if p.endswith("::generate_primitive_cast")]
    run.require(len(cands) == 1, "generate_primitive_cast not found")
    b = cands[0]
    leaves = visit.result_leaves(b["hir"])
    if not any((hirq.callee(c) or "").endswith("::generate_conversion") for c in hirq.calls(b["hir"])):
        from rules.core import CannotAnalyse
        raise CannotAnalyse("R3-CAST-ALWAYS-CONVERTED: generate_primitive_cast no longer calls generate_conversion; the rule reads that form only")
    bad = []
    for l in leaves:
        x = hirq.unwrap_trivial(l)
        if x.get("k") == "Call" and (hirq.callee(x) or "").endswith("::generate_conversion"):
            continue
        if x.get("k") == "Call" and (hirq.callee(x) or "").endswith("FromResidual::from_residual"):
            continue      # `?`: an error is propagated
        if x.get("k") == "Call" and (hirq.callee(x) or "").endswith("::Ok") and x.get("a"):
            prod = origins.producers(b["hir"], x["a"][0], b.get("params", ()))
            if prod and all(k[0] == "call" and str(k[1]).endswith("::generate_conversion") for k in prod):
                continue  # Ok(converted) with converted = generate_conversion(..)?
        bad.append(l)
    run.ob("R3-CAST-ALWAYS-CONVERTED", "generate_primitive_cast", bool(leaves) and not bad, F.where(b, bad[0]) if bad else F.where(b),
           "every value generate_primitive_cast returns comes from generate_conversion (%d result expression(s), %d do not)" % (len(leaves), len(bad)))
    gen = [bb for p, bb in F.lib.bodies.items() if p.endswith("Expression as alpha::generator::Generatable>::generate") and "resolved::Expression" in p and "{closure" not in p]
    run.require(len(gen) == 1, "Expression::generate not found")
    ms = hirq.matches_on_type(F.lib, gen[0]["hir"], "resolved::Expression", min_alts=10)
    arms = hirq.arm_for(ms[0], "Expression::PrimitiveCast") if ms else []
    ok = len(arms) == 1 and [hirq.unwrap_trivial(l).get("k") == "Call" and (hirq.callee(hirq.unwrap_trivial(l)) or "").endswith("::generate_primitive_cast")
                             for l in visit.result_leaves(arms[0]["body"])] == [True]
    run.ob("R3-CAST-ALWAYS-CONVERTED", "Expression::PrimitiveCast arm", ok, F.where(gen[0], arms[0] if arms else None),
           "the PrimitiveCast arm of the generator is exactly the call of generate_primitive_cast")


def r14_d128_sign_test(run, F):
    from rules.core import CannotAnalyse
    """`format_d128` prints a 128-bit integer as `-` + |value| by *skipping* the minus sign of its snprintf template when the value is
    not negative: the one signed comparison of the value with the constant zero decides both the absolute value (harmless for 0) and
    whether the `-` is printed.  Zero therefore has to fall on the same side of that comparison as 1 and on the other side than -1;
    a strict predicate (`> 0`) prints an i128 that is exactly 0 as `-0`.  Decided by evaluating the predicate constant and the operand
    order of every signed LLVMBuildICmp of the function at -1, 0 and 1 (any equivalent spelling passes: `>= 0`, `0 <= v`, `< 0` with
    the selects swapped)."""
    from rules import origins as _or
    b = F.body("alpha::generator::format_d128")
    defs = _or.definitions(b["hir"], b.get("params", ()))

    def resolve(e, depth=4):
        e = hirq.unwrap_trivial(e)
        while depth and e.get("k") == "Path" and e.get("rk") == "Local" and len(defs.get(e.get("lid"), [])) == 1 and defs[e["lid"]][0][1] == () and defs[e["lid"]][0][0] is not None:
            e = hirq.unwrap_trivial(defs[e["lid"]][0][0])
            depth -= 1
        return e

    def is_zero(e):
        e = resolve(e)
        if e.get("k") == "Call" and (hirq.callee(e) or "").endswith("LLVMConstInt") and len(e.get("a", [])) >= 2:
            lits = [n.get("v") for n in walk(e["a"][1]) if n.get("k") == "Lit"]
            return len(lits) == 1 and str(lits[0]).rstrip("u64_ ").strip() in ("0",)
        return False
    PRED = {"LLVMIntSGE": lambda a, c: a >= c, "LLVMIntSGT": lambda a, c: a > c, "LLVMIntSLE": lambda a, c: a <= c, "LLVMIntSLT": lambda a, c: a < c}
    n = 0
    for c in hirq.calls(b["hir"]):
        if not (hirq.callee(c) or "").endswith("LLVMBuildICmp") or len(c.get("a", [])) < 4:
            continue
        pe = resolve(c["a"][1])
        name = str(pe.get("res") or pe.get("path") or "").split("::")[-1] if pe.get("k") == "Path" else None
        if name is None:
            raise CannotAnalyse("R14-D128-SIGN-TEST: the predicate of an LLVMBuildICmp in format_d128 is not a constant")
        if name not in PRED:
            continue
        lz, rz = is_zero(c["a"][2]), is_zero(c["a"][3])
        if lz == rz:
            raise CannotAnalyse("R14-D128-SIGN-TEST: a signed comparison in format_d128 is not against the constant zero")
        n += 1
        at = {v: (PRED[name](v, 0) if rz else PRED[name](0, v)) for v in (-1, 0, 1)}
        run.ob("R14-D128-SIGN-TEST", "zero is not negative", at[0] == at[1] and at[-1] != at[1], F.where(b, c),
               "the sign test of format_d128 (%s with zero on the %s) puts 0 with 1 and apart from -1: it answers %s for -1, %s for 0, %s for 1"
               % (name, "right" if rz else "left", at[-1], at[0], at[1]))
    run.floor("R14-D128-SIGN-TEST", 1, "signed comparison with zero in format_d128")


def check(run):
    F = run.facts("B")
    r3b_cast_always_converted(run, F)
    r13_array_literal_base(run, F)
    r11_immediate_parameter_index(run, F)
    r12_immediate_flag_scope(run, F)
    r10_step_chaining(run, F)
    r1_binary(run, F)
    r2_comparison(run, F)
    r14_d128_sign_test(run, F)
    r3_conversion(run, F)
    r4_signed(run, F)
    c16.r5_agree(run, F)
    r6_lowering(run, F)
    r7_member_index(run, F)
    r8_generator_visit(run, F)
    r9_resolved_value_type(run, F)
    # integer literals are materialised with the sign/zero extension their type prescribes (shared with C09.R6)
    from props import c09, c03
    c09.r6_generator(run, F)
    # what print!/format! write is what the literal holds: the bytes of a string literal reach the output unchanged, and user bytes
    # are spliced into the snprintf template only where a `%` cannot occur (shared with C09.R7 / R10)
    c09.r7_string_bytes(run, F)
    c09.r10_format_splice(run, F)
    c03.r8_call_convention(run, F)
