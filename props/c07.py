"""C07 -- no implicit conversions: ill-typed programs are rejected."""
import json
import os

from rules import hirq, mirq, visit, origins
from rules.core import walk, norm_path, AnchorMissing, VERIF

LEVEL = "other"
EXPLANATION = (
    "Static analysis of the type-checking tables and their wiring (cfg B). Decided: R1 the seven VALID_TYPES_FOR_* "
    "tables equal the sets derived from the class predicates extracted from value_type.rs (is_integral, is_signed, "
    "is_bitfield) and the property's wording: arithmetic = integers + char8, bitwise = shift = unsigned integers, "
    "negation = signed, complement = bool + unsigned, ordering = integers + char8 + bool (no pointers), equality = "
    "ordering + pointers, pointer arithmetic = pointers; the three valid_types() maps cover every operator without "
    "wildcard and send each operator to its table; R2 wiring: the resolved Binary/Unary/BitCast/PrimitiveCast nodes "
    "and resolved::Comparison take their type from the `?` of resolve_binary_op_type / resolve_unary_op_type / "
    "analyze_bit_cast_and_get_coerced_type / analyze_primitive_cast_and_get_value_type / resolve_compared_type, and "
    "inside those match_type_of_operands (both operand types equal, else MismatchedOperandTypes) precedes "
    "analyze_operand_type except for pointer advance; R3 cast legality tables is_valid_primitive_conversion / "
    "is_valid_bit_cast equal the reference rows; R4 call checking: use_function has both arity comparisons, compares "
    "each argument type with its parameter type by `!=` and reports ArgumentTypeMismatch / ArgumentMissingAddress; both "
    "call sites route through it; R5 symbol unification: do_update_symbol's accepting exits are equality/"
    "concretisation, can_be_declared_as (authoritative previous), concretisation-or-can_coerce_into (authoritative "
    "new), everything else is ConflictingTypes; the coercion relations can_coerce_into / can_coerce_address_into / "
    "can_be_declared_as equal the reviewed reference tables; R6 E5xx code table; R7 visitor completeness of the "
    "function-call analyzer (every Expression child is analysed, so no call escapes use_function). Type inference over all programs is "
    "not decided."
    " ADDED LATER: R7/R9 the call analyzer and the typer (interprocedurally, through helper functions) visit every expression (T2); R8 each member expression of a structure literal is unified with the member's type; R10 the value of an assignment is unified with the base and with the last member step for every shape of the left-hand side; R5-UNIFICATION-LEAVES: is_like / can_be_concretization_of compare leaf types with ==, the alias-aware equality is used by the coercion relations only."
    " ROUNDS 5-6: R5-EQUALS-STRUCTURAL: ValueType::equals compares every field of every composite variant (binding names free); relation tables are stored with canonical binding names."
    " ROUND 9: R4-ARGUMENT-TYPES 'ends the check': on the MIR of use_function the iterator's next() is unreachable from the block that builds ArgumentTypeMismatch / ArgumentMissingAddress (a result carried round the loop would be overwritten).")

RES = "alpha::resolver::"
VT = "alpha::value_type::ValueType::"
INTS = ["Int8", "Int16", "Int32", "Int64", "Int128", "Uint8", "Uint16", "Uint32", "Uint64", "Uint128", "Usize"]


def class_set(F, fn, _depth=0):
    """The set of ValueType variants for which the class predicate `fn` (a pure `fn(&self) -> bool`) is true, whatever its
    form: a match over self with boolean arms (literals, or-patterns, matches!), or a boolean combination of other class
    predicates (`self.is_integral() && !self.is_bitfield()`); folded per variant.  Composite variants are decided by the
    pattern alone (their fields do not matter to these predicates)."""
    from rules.core import CannotAnalyse
    if _depth > 6:
        raise CannotAnalyse("class_set: predicates of ValueType call each other too deeply (%s)" % fn)
    b = F.body(VT + fn)
    variants = [v["name"] for v in F.lib.adts["alpha::value_type::ValueType"]["variants"]]

    def ev(n, v):
        n = hirq.unwrap_trivial(n)
        k = n.get("k")
        if k == "Lit" and isinstance(n.get("v"), bool):
            return n["v"]
        if k == "Block" and not n.get("stmts") and n.get("e") is not None:
            return ev(n["e"], v)
        if k == "Unary" and n.get("op") == "Not":
            return not ev(n["e"], v)
        if k == "Binary" and n.get("op") in ("And", "Or"):
            l = ev(n["lhs"], v)
            return (l and ev(n["rhs"], v)) if n["op"] == "And" else (l or ev(n["rhs"], v))
        if k == "MethodCall" and hirq.local_name_of(hirq.unwrap_trivial(n["recv"])) == "self" and (hirq.callee(n) or "").startswith(VT) and not n.get("a"):
            return v in class_set(F, (hirq.callee(n) or "").split("::")[-1], _depth + 1)
        if k == "Match":
            sc = hirq.unwrap_trivial(n["scrut"])
            while sc.get("k") in ("AddrOf",) or (sc.get("k") == "Unary" and sc.get("op") == "Deref"):
                sc = hirq.unwrap_trivial(sc["e"])
            if hirq.local_name_of(sc) == "self":
                for a in n["arms"]:
                    for alt in hirq.pat_alts(a["pat"]):
                        if hirq.is_catchall(alt) or hirq.pat_key(alt).split("::")[-1] == v:
                            if "guard" in a:
                                raise CannotAnalyse("class_set: guarded arm in %s" % fn)
                            return ev(a["body"], v)
                raise CannotAnalyse("class_set: no arm of %s covers %s" % (fn, v))
        raise CannotAnalyse("class_set: %s is not a boolean combination of variant tests (%s)" % (fn, k))
    return set(v for v in variants if ev(b["hir"], v))


def const_table(F, name):
    b = F.body(RES + name)
    out = []
    for p, node in hirq.constructs(b["hir"]):
        s = hirq.short(p)
        if s == "OperandValueType::Pointer":
            out.append("Pointer")
        elif s.startswith("ValueType::"):
            out.append(s.split("::")[-1])
    return b, out


def r1_tables(run, F):
    integral = class_set(F, "is_integral")
    signed = class_set(F, "is_signed")
    bitfield = class_set(F, "is_bitfield")
    run.ob("R1-CLASSES", "is_integral", integral == set(INTS), F.where(F.body(VT + "is_integral")), "integral types: %s" % sorted(integral))
    run.ob("R1-CLASSES", "is_signed", signed == {"Int8", "Int16", "Int32", "Int64", "Int128"}, F.where(F.body(VT + "is_signed")), "signed: %s" % sorted(signed))
    run.ob("R1-CLASSES", "is_bitfield", bitfield == {"Uint8", "Uint16", "Uint32", "Uint64", "Uint128"}, F.where(F.body(VT + "is_bitfield")), "bitfield: %s" % sorted(bitfield))
    ordering = integral | {"Char8", "Bool"}
    ref = {
        "VALID_TYPES_FOR_ARITHMETIC": integral | {"Char8"},
        "VALID_TYPES_FOR_BITWISE": bitfield,
        "VALID_TYPES_FOR_BITSHIFT": bitfield,
        "VALID_TYPES_FOR_NEGATIVE": signed,
        "VALID_TYPES_FOR_COMPLEMENT": bitfield | {"Bool"},
        "VALID_TYPES_FOR_IS_GREATER": ordering,
        "VALID_TYPES_FOR_EQUALITY": ordering | {"Pointer"},
        "VALID_TYPES_FOR_POINTER": {"Pointer"},
    }
    for name, want in ref.items():
        b, got = const_table(F, name)
        run.ob("R1-TYPE-TABLE", name, set(got) == want and len(got) == len(set(got)), F.where(b),
               "%s: extra %s, missing %s" % (name, sorted(set(got) - want), sorted(want - set(got))),
               sample={"table": name, "rows": got})
    maps = {
        "BinaryOp": {"Add": "ARITHMETIC", "Subtract": "ARITHMETIC", "Multiply": "ARITHMETIC", "Divide": "ARITHMETIC", "Modulo": "ARITHMETIC",
                     "BitwiseAnd": "BITWISE", "BitwiseOr": "BITWISE", "BitwiseXor": "BITWISE", "ShiftLeft": "BITSHIFT", "ShiftRight": "BITSHIFT",
                     "AdvancePointer": "POINTER"},
        "ComparisonOp": {"Equals": "EQUALITY", "DoesNotEqual": "EQUALITY", "IsGreater": "IS_GREATER", "IsLess": "IS_GREATER", "IsGE": "IS_GREATER", "IsLE": "IS_GREATER"},
        "UnaryOp": {"Negative": "NEGATIVE", "BitwiseComplement": "COMPLEMENT"},
    }
    for enum, want in maps.items():
        fn = [p for p in F.lib.bodies if p.endswith("valid_types") and F.rel(F.lib.bodies[p]["file"]) == "src/alpha/resolver.rs"
              and (F.lib.bodies[p].get("impl_self") or "").endswith(enum)]
        run.require(len(fn) == 1, "valid_types for %s not found" % enum)
        b = F.lib.bodies[fn[0]]
        m = hirq.find_match(b, min_arms=2)
        variants = set(F.variants("alpha::common::" + enum))
        seen = {}
        for a in m["arms"]:
            body = hirq.unwrap_trivial(a["body"])
            for alt in hirq.pat_alts(a["pat"]):
                if hirq.is_catchall(alt):
                    run.ob("R1-OPERATOR-MAP", enum + " wildcard", False, F.where(b, a), "valid_types must list every operator")
                else:
                    seen[hirq.pat_key(alt).split("::")[-1]] = (body.get("res") or "").split("VALID_TYPES_FOR_")[-1]
        for v in sorted(variants | set(want)):
            run.ob("R1-OPERATOR-MAP", "%s::%s" % (enum, v), seen.get(v) == want.get(v), F.where(b),
                   "%s::%s must use VALID_TYPES_FOR_%s (found %s)" % (enum, v, want.get(v), seen.get(v)))


def try_chain(arm_body, fn):
    """value flowing: let a = fn(..); ...; let b = a?; -> lids of b"""
    first = set()
    for n in walk(arm_body):
        if n.get("k") == "Let" and n.get("init", {}).get("k") == "Call" and hirq.callee(n["init"]) == fn:
            for _, lid, _ in hirq.pat_bindings(n["pat"]):
                first.add(lid)
    second = set()
    direct = set()
    for n in walk(arm_body):
        if n.get("k") == "Let" and "init" in n:
            init = n["init"]
            if init.get("k") == "Match" and (init.get("msrc") or "").startswith("TryDesugar"):
                sc = init["scrut"]
                arg = sc["a"][0] if sc.get("k") == "Call" and sc.get("a") else {}
                if any(hirq.uses_local(arg, l) for l in first):
                    for _, lid, _ in hirq.pat_bindings(n["pat"]):
                        second.add(lid)
                if arg.get("k") == "Call" and hirq.callee(arg) == fn:
                    for _, lid, _ in hirq.pat_bindings(n["pat"]):
                        direct.add(lid)
    return second | direct


def r2_wiring(run, F):
    e = F.body("<alpha::common::Expression as alpha::resolver::Resolvable>::resolve")
    m = [x for x in hirq.matches(e["hir"]) if hirq.n_alts(x) > 15][0]
    spec = [("Binary", RES + "resolve_binary_op_type", "Binary", "value_type"),
            ("Unary", RES + "resolve_unary_op_type", "Unary", "value_type"),
            ("BitCast", RES + "analyze_bit_cast_and_get_coerced_type", "BitCast", "coerced_type"),
            ("TypeCast", RES + "analyze_primitive_cast_and_get_value_type", "PrimitiveCast", None)]
    for variant, fn, outv, field in spec:
        arms = hirq.arm_for(m, "Expression::" + variant)
        run.require(arms, "Expression::%s arm not found in resolver" % variant)
        ok = False
        for arm in arms:
            lids = try_chain(arm["body"], fn)
            built = [(p, node) for p, node in hirq.constructs(arm["body"]) if p == "alpha::resolved::Expression::" + outv]
            if not lids or not built:
                continue
            if field is None:
                ok = True   # PrimitiveCast: value decides between no-op and cast; presence of the `?` chain is the obligation
            for p, node in built:
                for f in node.get("fields", []):
                    if f["name"] == field and any(hirq.uses_local(f["e"], l) for l in lids):
                        ok = True
        run.ob("R2-TYPE-FROM-CHECK", variant, ok, F.where(e, arms[0]),
               "resolved::Expression::%s must take its type from the `?` of %s (an unchecked node would reach the generator)" % (outv, fn.split("::")[-1]))
    c = F.body("<alpha::common::Comparison as alpha::resolver::Resolvable>::resolve")
    lids = try_chain(c["hir"], RES + "resolve_compared_type")
    ok = False
    for p, node in hirq.constructs(c["hir"]):
        if p == "alpha::resolved::Comparison":
            for f in node.get("fields", []):
                if f["name"] == "compared_type" and any(hirq.uses_local(f["e"], l) for l in lids):
                    ok = True
    run.ob("R2-TYPE-FROM-CHECK", "Comparison", ok, F.where(c), "resolved::Comparison.compared_type must come from the `?` of resolve_compared_type")
    # inside the checkers
    rb = F.body(RES + "resolve_binary_op_type")
    ifs = [n for n in walk(rb["hir"]) if n.get("k") == "If" and "else" in n]
    ok = False
    for n in ifs:
        cond = hirq.unwrap_trivial(n["cond"])
        adv = [hirq.short(p) for p, _ in hirq.constructs(cond)]
        tc = [hirq.callee(x) for x in hirq.calls(n["then"])]
        ec = [hirq.callee(x) for x in hirq.calls(n["else"])]
        if cond.get("k") == "Binary" and cond.get("op") == "Eq" and adv == ["BinaryOp::AdvancePointer"] and \
                RES + "get_type_of_operand" in tc and RES + "match_type_of_operands" in ec and RES + "match_type_of_operands" not in tc:
            ok = True
    tail = [hirq.callee(x) for x in hirq.calls(rb["hir"].get("e", {}))]
    run.ob("R2-OPERANDS-MATCH-FIRST", "resolve_binary_op_type", ok and RES + "analyze_operand_type" in tail, F.where(rb),
           "both operand types must be equal (match_type_of_operands) for every binary operator except pointer advance, then checked against the table")
    rc = F.body(RES + "resolve_compared_type")
    cs = [c for c in (hirq.callee(x) for x in hirq.calls(rc["hir"])) if c and c.startswith(RES) and "{" not in c]
    run.ob("R2-OPERANDS-MATCH-FIRST", "resolve_compared_type", cs == [RES + "match_type_of_operands", RES + "analyze_operand_type"], F.where(rc),
           "comparisons require equal operand types, then a table check: %s" % [c.split("::")[-1] for c in cs if c])
    mo = F.body(RES + "match_type_of_operands")
    last = [x for x in hirq.matches(mo["hir"])][-1]
    rows = []
    for a in last["arms"]:
        g = None
        if "guard" in a:
            # `(x, y) if x == y`: an equality between two bindings of this arm's own pattern, by binding not by name
            gd = hirq.unwrap_trivial(a["guard"])
            own = set(lid for _, lid, _ in hirq.pat_bindings(a["pat"]))
            sides = [hirq.unwrap_trivial(gd.get(x, {})) for x in ("lhs", "rhs")] if gd.get("k") == "Binary" else []
            g = "(rvt == vt)" if gd.get("k") == "Binary" and gd.get("op") == "Eq" and len(sides) == 2 and \
                all(x.get("k") == "Path" and x.get("lid") in own for x in sides) and sides[0].get("lid") != sides[1].get("lid") else hirq.summarize_bool(gd)
        cons = [hirq.short(p) for p, _ in hirq.constructs(a["body"])]
        rows.append((g, "Ok" if any(c.endswith("::Ok") or c == "v1::Ok" for c in cons) else ("Mismatch" if "Error::MismatchedOperandTypes" in cons else "?")))
    run.ob("R2-OPERAND-EQUALITY", "match_type_of_operands", rows == [("(rvt == vt)", "Ok"), (None, "Mismatch")], F.where(mo, last),
           "operand types must be compared with == and anything else is MismatchedOperandTypes: %s" % rows)
    ao = F.body(RES + "analyze_operand_type")
    ifs = [n for n in walk(ao["hir"]) if n.get("k") == "If" and "else" in n and hirq.local_name_of(hirq.unwrap_trivial(n["cond"])) == "is_valid"]
    ok = False
    if len(ifs) == 1:
        ec = [hirq.short(p) for p, _ in hirq.constructs(ifs[0]["else"])]
        tc = [hirq.short(p) for p, _ in hirq.constructs(ifs[0]["then"])]
        ok = "Error::InvalidOperandType" in ec and "Error::InvalidOperandType" not in tc
    run.ob("R2-TABLE-CHECK", "analyze_operand_type", ok, F.where(ao), "a type outside the operator's table is InvalidOperandType")


def load_ref(name):
    with open(os.path.join(VERIF, "props", "reviewed", name)) as fh:
        return json.load(fh)


def r3_r5_relations(run, F):
    ref = load_ref("c07_relations.json")
    for key, spec in ref.items():
        fn = spec["fn"]
        b = F.body(fn)
        m = hirq.find_match(b, min_arms=2)
        got = [[list(k), g, o] for k, g, o in hirq.nested_table(m, (), hirq.canon_params(b))]
        want = spec["rows"]
        gotset = set(json.dumps(r) for r in got)
        wantset = set(json.dumps(r) for r in want)
        for r in sorted(wantset - gotset):
            run.ob(spec["rule"], "%s|missing %s" % (key, r), False, F.where(b), "%s no longer has the row %s (%s)" % (key, r, spec["provenance"]))
        for r in sorted(gotset - wantset):
            run.ob(spec["rule"], "%s|extra %s" % (key, r), False, F.where(b), "%s has a row outside the reviewed relation: %s (%s)" % (key, r, spec["provenance"]))
        run.ob(spec["rule"], key, gotset == wantset and got == want, F.where(b),
               "%s must equal the reviewed relation (%d rows, order-sensitive because arms are tried in order)" % (key, len(want)),
               sample={"rows": got[:6]})


def r5c_equals_structural(run, F):
    """`equals` decides whether the element types of a documented coercion ([N]T -> []T, -> &[]T, -> (T..)) are the same type.
    It must compare *every* part of a composite type: for each variant handled by a nested `match other`, the same-variant arm
    binds every field of the variant on both sides and its result reads every one of those bindings; any other inner arm is
    `false`; arms without a nested match are `self == other` (derived equality).  Names of the bindings are free."""
    b = F.body("alpha::value_type::ValueType::equals")
    vt = F.lib.adts["alpha::value_type::ValueType"]
    fields_of = {v["name"]: [f["name"] for f in v.get("fields", [])] for v in vt["variants"]}
    m = hirq.find_match(b, min_arms=5)
    n = 0
    for a in m["arms"]:
        body = hirq.unwrap_trivial(a["body"])
        for alt in hirq.pat_alts(a["pat"]):
            if hirq.is_catchall(alt):
                continue
            v = hirq.pat_key(alt).split("::")[-1]
            n += 1
            if body.get("k") != "Match":
                ok = body.get("k") == "Binary" and body.get("op") == "Eq" and {hirq.local_name_of(body["lhs"]), hirq.local_name_of(body["rhs"])} == {"self", "other"}
                run.ob("R5-EQUALS-STRUCTURAL", v, ok, F.where(b, a), "%s: without a field-by-field comparison the arm must be `self == other`" % v)
                continue
            outer, orest = hirq.field_pats(alt)
            same = [ia for ia in body["arms"] for ialt in hirq.pat_alts(ia["pat"]) if hirq.pat_key(ialt).split("::")[-1] == v]
            if len(same) != 1 or outer is None:
                run.ob("R5-EQUALS-STRUCTURAL", v, False, F.where(b, a), "%s: no single same-variant arm in the nested match" % v)
                continue
            inner, irest = hirq.field_pats(same[0]["pat"])
            want = set(fields_of.get(v, []))
            ob = {f: hirq.pat_bindings(p) for f, p in (outer or {}).items()}
            ib = {f: hirq.pat_bindings(p) for f, p in (inner or {}).items()}
            bound_o = set(f for f, bs in ob.items() if bs)
            bound_i = set(f for f, bs in ib.items() if bs)
            used = all(hirq.uses_local(same[0]["body"], lid) for f in want for _, lid, _ in ob.get(f, []) + ib.get(f, []))
            others_false = all(hirq.unwrap_trivial(ia["body"]).get("v") is False for ia in body["arms"] if ia is not same[0])
            run.ob("R5-EQUALS-STRUCTURAL", v, bound_o == want and bound_i == want and used and others_false, F.where(b, a),
                   "%s: fields %s; bound on the left %s, on the right %s; every binding read by the result: %s; other arms false: %s "
                   "(a part that is not compared makes two different types interchangeable in the array-to-slice/view coercions)" % (
                       v, sorted(want), sorted(bound_o), sorted(bound_i), used, others_false))
    run.floor("R5-EQUALS-STRUCTURAL", 10, "variants handled by equals")


def r5b_unification_leaves(run, F):
    """Unification compares leaf types for identity: is_like and can_be_concretization_of (used by do_update_symbol for every
    declaration, assignment and argument) may only recurse into themselves and use `==`.  The alias-aware `equals`
    (char8 ~ u8, used by the documented array-to-view coercions) must not leak into them."""
    allowed = {
        "alpha::value_type::ValueType::is_like": {"alpha::value_type::ValueType::is_like", "alpha::value_type::ValueType::can_be_concretization_of"},
        "alpha::value_type::ValueType::can_be_concretization_of": {"alpha::value_type::ValueType::can_be_concretization_of", "alpha::value_type::ValueType::is_like"},
    }
    for fn, ok_callees in allowed.items():
        b = F.body(fn)
        local = sorted(set(c for c in (hirq.callee(x) or "" for x in hirq.calls(b["hir"])) if c.startswith(("alpha::", "<alpha::")) and "PartialEq" not in c))
        extra = [c for c in local if c not in ok_callees]
        eqs = [n for n in walk(b["hir"]) if n.get("k") == "Binary" and n.get("op") == "Eq"]
        run.ob("R5-UNIFICATION-LEAVES", fn.split("::")[-1], not extra and len(eqs) >= 3, F.where(b),
               "%s compares leaves with `==` and recurses only into %s; other relations used: %s" % (fn.split("::")[-1], sorted(x.split("::")[-1] for x in ok_callees), extra))
    eq = F.body("alpha::value_type::ValueType::equals")
    uses_alias = any((hirq.callee(c) or "").endswith("is_alias_of") for c in hirq.calls(eq["hir"]))
    callers = sorted(set(b["npath"] for b in F.lib.bodies.values() if "hir" in b and any(hirq.callee(c) == "alpha::value_type::ValueType::equals" for c in hirq.calls(b["hir"]))))
    ok = all(c.split("::")[-1] in ("equals", "can_coerce_into", "can_coerce_address_into", "can_autoderef_into", "can_subautoderef_into") for c in callers)
    run.ob("R5-UNIFICATION-LEAVES", "who uses equals", ok and uses_alias, F.where(eq),
           "the alias-aware equality is only used by the coercion relations: callers %s" % [c.split("::")[-1] for c in callers])


def r4_calls(run, F):
    b = F.body("alpha::analyzer::function_calls::Analyzer::use_function")
    cmps = []
    for n in walk(b["hir"]):
        if n.get("k") == "If":
            c = hirq.unwrap_trivial(n["cond"])
            if c.get("k") == "Binary" and c.get("op") in ("Lt", "Gt", "Le", "Ge", "Ne", "Eq"):
                # by role: `arguments` is the parameter of this function that holds the call's arguments (a Vec/slice of
                # Expression), `parameters` is the `parameters` field of the declared function
                def role(x):
                    x = hirq.unwrap_trivial(x)
                    if x.get("k") == "MethodCall" and x.get("name") == "len":
                        r = hirq.unwrap_trivial(x["recv"])
                        while r.get("k") in ("AddrOf",) or (r.get("k") == "Unary" and r.get("op") == "Deref"):
                            r = hirq.unwrap_trivial(r["e"])
                        if r.get("k") == "Field" and r.get("name") == "parameters":
                            return "parameters.len()"
                        if r.get("k") == "Path" and r.get("lid") in arg_params:
                            return "arguments.len()"
                        if r.get("k") == "Path" and r.get("rk") == "Local":
                            from rules import origins as _or
                            oo = _or.origins(b["hir"], r, b.get("params", ()))
                            if any((k[0] == "field" and k[1] == "parameters") or (k[0] == "patfield" and k[2] == "parameters") for k in oo):
                                return "parameters.len()"
                    return "?"
                arg_params = [q.get("lid") for q in b.get("params", []) if "Expression" in str(F.lib.ty(q.get("t")))]
                cons = [hirq.short(p) for p, _ in hirq.constructs(n["then"]) if hirq.short(p).startswith("Error::")]
                l_, r_ = role(c["lhs"]), role(c["rhs"])
                if "?" not in (l_, r_):
                    op_ = {"Lt": "<", "Gt": ">", "Le": "<=", "Ge": ">=", "Ne": "!=", "Eq": "=="}[c["op"]]
                    if l_ == "parameters.len()":      # normalise to arguments on the left
                        l_, r_ = r_, l_
                        op_ = {"<": ">", ">": "<", "<=": ">=", ">=": "<="}.get(op_, op_)
                    cmps.append(("(%s %s %s)" % (l_, op_, r_), cons[:1]))
    ok = sorted(cmps) == sorted([("(arguments.len() < parameters.len())", ["Error::TooFewArguments"]),
                                 ("(arguments.len() > parameters.len())", ["Error::TooManyArguments"])])
    run.ob("R4-ARITY", "use_function", ok, F.where(b),
           "both arity comparisons must exist: arguments.len() < parameters.len() -> TooFewArguments, > -> TooManyArguments: %s" % cmps, sample=cmps)
    # per-argument comparison
    mm = [m for m in hirq.matches(b["hir"]) if hirq.unwrap_trivial(m["scrut"]).get("k") == "Tup"]
    ok = False
    for m in mm:
        for a in m["arms"]:
            if "guard" in a:
                gd = hirq.unwrap_trivial(a["guard"])
                own = set(lid for _, lid, _ in hirq.pat_bindings(a["pat"]))
                sides = [hirq.unwrap_trivial(gd.get(x, {})) for x in ("lhs", "rhs")] if gd.get("k") == "Binary" else []
                differs = gd.get("k") == "Binary" and gd.get("op") == "Ne" and len(sides) == 2 and \
                    all(x.get("k") == "Path" and x.get("lid") in own for x in sides) and sides[0].get("lid") != sides[1].get("lid")
                cons = [hirq.short(p) for p, _ in hirq.constructs(a["body"])]
                if differs and "Error::ArgumentTypeMismatch" in cons and "Error::ArgumentMissingAddress" in cons:
                    ok = True
    run.ob("R4-ARGUMENT-TYPES", "use_function", ok, F.where(b),
           "every argument type is compared with its parameter type by `!=`; a difference is ArgumentTypeMismatch (or the missing-address hint)")
    zips = [c for c in hirq.calls(b["hir"]) if c.get("k") == "MethodCall" and c.get("name") == "zip"]
    run.ob("R4-ARGUMENT-TYPES", "all arguments", len(zips) == 1, F.where(b), "parameters.iter().zip(arguments.iter())")
    # a diagnosed mismatch ends the check: once ArgumentTypeMismatch / ArgumentMissingAddress has been built for one pair, no further
    # pair is examined (a result carried round the loop would be overwritten by the next matching pair: only a mismatch in the last
    # argument would survive).  MIR: from the block that builds the error, the iterator's next() is unreachable.
    cfg = mirq.CFG(b)
    nexts = {i for i, t in cfg.calls() if (mirq.call_target(t) or "").endswith("Iterator>::next") or (mirq.call_target(t) or "").endswith("Iterator::next")}
    built = []
    for i in sorted(cfg.reach):
        for st in cfg.blocks[i]["s"]:
            r = st["r"]
            if r.get("k") == "Agg" and str(r.get("adt", "")).endswith("error::Error") and r.get("variant") in ("ArgumentTypeMismatch", "ArgumentMissingAddress"):
                built.append((i, r.get("variant")))
    for i, v in built:
        again = nexts & cfg.reachable_from(cfg.succ[i])
        run.ob("R4-ARGUMENT-TYPES", "%s ends the check" % v, not again, F.where(b),
               "after %s has been built for one argument the remaining pairs are still examined: the diagnosis can be overwritten" % v)
    if nexts:
        run.ob("R4-ARGUMENT-TYPES", "mismatch errors built in the loop", len(built) >= 2, F.where(b), "%d error constructions found on the MIR" % len(built))
    # both call forms route through use_function
    for fn, variant in (("<alpha::common::Statement as alpha::analyzer::function_calls::Analyzable>::analyze", "Statement::MethodCall"),
                        ("<alpha::common::Expression as alpha::analyzer::function_calls::Analyzable>::analyze", "Expression::FunctionCall")):
        body = F.body(fn)
        m = [x for x in hirq.matches(body["hir"]) if hirq.n_alts(x) >= 8][0]
        arms = hirq.arm_for(m, variant)
        found = any("alpha::analyzer::function_calls::Analyzer::use_function" in [hirq.callee(c) for c in hirq.calls(a["body"])] for a in arms)
        run.ob("R4-CALLS-CHECKED", variant, found, F.where(body), "%s must be checked by use_function" % variant)


def r5_unification(run, F):
    b = F.body("alpha::typer::do_update_symbol")
    # canonical names: $1 = the symbol on record, $2 = the identifier of the new occurrence, $3 = its type;
    # OLD = the (unpoisoned) type on record, NEW = the new type
    uenv = hirq.full_env(b)
    chain = []
    n = None
    for x in walk(b["hir"]):
        if x.get("k") == "If" and "else" in x:
            n = x
            break
    while n is not None and n.get("k") == "If":
        cond = hirq.summarize_bool(n["cond"], uenv).replace("{match($1.value_type)}", "OLD").replace("$3", "NEW")
        cons = [hirq.short(p) for p, _ in hirq.constructs(n["then"])]
        chain.append((cond, "Ok" if any(c.endswith("Ok") for c in cons) else "?"))
        e = hirq.unwrap_trivial(n.get("else", {}))
        if e.get("k") == "If":
            n = e
        else:
            cons = [hirq.short(p) for p, _ in hirq.constructs(e)]
            chain.append(("else", "ConflictingTypes" if "Error::ConflictingTypes" in cons else "?"))
            n = None
    want = [("((OLD == NEW) || OLD.can_be_concretization_of(NEW))", "Ok"),
            ("($1.identifier.is_authoritative && NEW.can_be_declared_as(OLD))", "Ok"),
            ("($2.is_authoritative && (NEW.can_be_concretization_of(OLD) || NEW.can_coerce_into(OLD)))", "Ok"),
            ("else", "ConflictingTypes")]
    run.ob("R5-UNIFICATION", "do_update_symbol", chain == want, F.where(b),
           "the only accepting exits are equality/concretisation, declared-as, and coercion of an authoritative definition; "
           "anything else is ConflictingTypes: %s" % chain, sample=chain)
    ps = F.body("alpha::typer::Typer::put_symbol")
    cs = [hirq.callee(c) for c in hirq.calls(ps["hir"])]
    run.ob("R5-UNIFICATION", "put_symbol", "alpha::typer::do_update_symbol" in cs, F.where(ps), "put_symbol must unify with an existing symbol through do_update_symbol")


def r6_codes(run, F):
    code = F.body("alpha::error::Error::code")
    cm = [x for x in hirq.matches(code["hir"]) if hirq.n_alts(x) > 40][0]
    rows = {hirq.pat_key(a["pat"]).split("::")[-1]: hirq.unwrap_trivial(a["body"]).get("v") for a in cm["arms"]}
    ref = load_ref("c07_codes.json")
    for v, c in ref.items():
        run.ob("R6-CODES", v, rows.get(v) == c, F.where(code), "Error::%s must have code %d (found %s)" % (v, c, rows.get(v)))


def r7_visit(run, F):
    """T2: the function-call analyzer reaches every Expression (a call in an unvisited child is never checked for arity/types)."""
    C = F.lib
    rel = visit.type_closure(C, {"alpha::common::Expression"})
    impls = [b for b in C.bodies.values() if b.get("impl_trait") == "alpha::analyzer::function_calls::Analyzable" and "{closure" not in b["npath"]]
    run.require(len(impls) >= 8, "function_calls Analyzable impls not found (%d)" % len(impls))
    exceptions = {"Declaration::Constant.value": "function calls are rejected in constant expressions by the constness analyzer"}

    def is_trav(c):
        return c.endswith("function_calls::Analyzable>::analyze") or c == "alpha::analyzer::function_calls::Analyzable::analyze"
    n = 0
    for b in impls:
        def rep(key, ok, where, detail, sample):
            run.ob("R7-CALL-ANALYZER-VISITS", key, ok, where, detail + ": calls inside it are never checked against the callee's signature (E510-E513)", sample)
        n += visit.check_impl(F, C, b, rel, is_trav, rep, exceptions=exceptions)
    run.require(n >= 30, "too few visit obligations (%d)" % n)


def r8_structural(run, F):
    """Each member expression of a structure literal is unified with the declared type of that member (put_symbol, as
    for an assignment to the member) and a conflict poisons the member."""
    st = F.body("alpha::typer::analyze_structural")
    ps = [c for c in hirq.calls(st["hir"]) if hirq.callee(c) == "alpha::typer::Typer::put_symbol"]
    ok = False
    det = "no call of Typer::put_symbol in analyze_structural"
    for c in ps:
        o0 = origins.origins(st["hir"], c["a"][0], st.get("params", ()))
        o1 = origins.origins(st["hir"], c["a"][1], st.get("params", ()))
        has_name = ("field", "name") in o0
        has_type = any(x[0] == "call" and x[1].endswith("as alpha::typer::Typed>::value_type") for x in o1) and \
            any(x[0] == "call" and x[1].endswith("as alpha::typer::Analyzable>::analyze") for x in o1) and ("field", "expression") in o1
        det = "put_symbol(member name: %s, type of the analysed member expression: %s)" % (has_name, has_type)
        ok = ok or (has_name and has_type)
    run.ob("R8-STRUCTURAL-MEMBERS", "unified with the member type", ok, F.where(st, ps[0] if ps else None),
           "a structure literal must unify each member expression with the member's declared type "
           "(otherwise `S { x: 5u64 }` with `x: i32` is accepted and builds an ill-typed insertvalue): " + det)
    used = False
    for path, n in hirq.constructs(st["hir"]):
        if hirq.short(path).endswith("MemberExpression") and n.get("k") == "Struct":
            for f in n.get("fields", []):
                if f.get("name") == "name":
                    o = origins.origins(st["hir"], f["e"], st.get("params", ()))
                    used = ("call", "alpha::typer::Typer::put_symbol") in o and ("call", "alpha::error::Poison::Error") in o
    run.ob("R8-STRUCTURAL-MEMBERS", "conflict poisons the member", used, F.where(st),
           "the result of put_symbol must decide the member's name/poison (a discarded Err would accept the literal)")


def r9_typer_visit(run, F):
    """T2 (interprocedural): the typer reaches every expression and reference; helper functions count as traversals when
    a parameter of theirs is passed on to a traversal (least fixpoint, visit.traverser_closure)."""
    C = F.lib
    rel = visit.type_closure(C, {"alpha::common::Expression", "alpha::common::Reference"})
    TR = "alpha::typer::Analyzable"

    def base(c):
        return c.endswith("alpha::typer::Analyzable>::analyze") or c == TR + "::analyze"
    cands = [b for p, b in C.bodies.items() if p.startswith("alpha::typer::") and "{closure" not in p and not b.get("impl_trait")]
    T = visit.traverser_closure(C, base, cands, rel)
    run.info("typer helper traversals: %s" % sorted(T))
    run.require(len(T) >= 8, "typer: helper traversals not found (%d)" % len(T))
    impls = [b for b in C.bodies.values() if b.get("impl_trait") == TR and "{closure" not in b["npath"]]
    run.require(len(impls) >= 8, "typer Analyzable impls not found (%d)" % len(impls))
    exceptions = {
        "Expression::Deref.reference": ("a Deref that already carries its type was analysed by an earlier typer pass (the typer runs to a fixpoint)", {"deref_type": "Some"}),
        "Expression::Autocoerce.expression": "Autocoerce nodes are only built by the typer itself, around an expression it has just analysed",
    }
    n = 0
    for b in impls:
        def rep(key, ok, where, detail, sample):
            run.ob("R9-TYPER-VISITS", key, ok, where, detail + ": expressions inside it are never typed or checked", sample)
        n += visit.check_impl(F, C, b, rel, lambda c: base(c) or c in T, rep, exceptions=exceptions)
    run.require(n >= 30, "too few visit obligations (%d)" % n)
    # the Autocoerce exception rests on: only typer.rs builds Autocoerce
    bad = []
    for b in C.bodies.values():
        relf = F.rel(b["file"]) if "hir" in b else ""
        if not (relf in ("src/alpha/parser.rs", "src/alpha/expander.rs", "src/alpha/lexer.rs") or relf.startswith("src/alpha/scoper")):
            continue  # stages that run before the typer
        for p, node in hirq.constructs(b["hir"]):
            if p == "alpha::common::Expression::Autocoerce":
                bad.append(F.where(b, node))
    run.ob("R9-TYPER-VISITS", "no Autocoerce before the typer", not bad, "src/alpha", "Expression::Autocoerce constructed by a stage that runs before the typer: %s" % bad[:3])


RESTRICTING_ADAPTORS = ("take_while", "skip_while", "take", "skip", "filter", "step_by", "nth", "last", "next", "next_back", "map_while", "filter_map")


def r10_assignment(run, F):
    """The value of an assignment is unified with the assignee for every shape of the left-hand side: with the base
    through the type rebuilt from the steps, and with the *last* member step whatever follows or precedes it."""
    b = F.body("alpha::typer::{Reference}::analyze_assignment")
    ps = [c for c in hirq.calls(b["hir"]) if hirq.callee(c) == "alpha::typer::Typer::put_symbol"]
    run.require(len(ps) == 2, "analyze_assignment: expected two put_symbol calls (base, member), found %d" % len(ps))
    ps.sort(key=lambda c: c["l"])
    o_base_t = origins.origins(b["hir"], ps[0]["a"][1], b.get("params", ()))
    run.ob("R10-ASSIGNMENT-CHECKED", "base", ("call", "alpha::typer::build_type_of_reference") in o_base_t, F.where(b, ps[0]),
           "the base symbol is unified with the type rebuilt from the value type and the steps (build_type_of_reference)")
    o_mem = origins.origins(b["hir"], ps[1]["a"][0], b.get("params", ()))
    calls = sorted(x[1].split("::")[-1] for x in o_mem if x[0] == "call" and ("iter::Iterator::" in x[1] or "slice::" in x[1]))
    restricting = [c for c in calls if c in RESTRICTING_ADAPTORS]
    ok = ("call", "alpha::common::ReferenceStep::get_member") in o_mem and ("field", "steps") in o_mem and \
        "rev" in calls and not restricting
    run.ob("R10-ASSIGNMENT-CHECKED", "member search", ok, F.where(b, ps[1]),
           "the member whose type is checked is the last Member step among ALL steps (iter().rev().find_map(get_member)); an adaptor that "
           "cuts the search short leaves `s.m[i] = v` unchecked: adaptors %s, restricting %s" % (calls, restricting), sample={"adaptors": calls})
    o_mt = origins.origins(b["hir"], ps[1]["a"][1], b.get("params", ()))
    run.ob("R10-ASSIGNMENT-CHECKED", "member type", ("call", "alpha::typer::build_type_of_reference") in o_mt, F.where(b, ps[1]),
           "the member is unified with the type rebuilt from the value type and the steps after the member")
    # the outcome of both unifications decides the reference (Err -> poisoned base)
    used = False
    for path, n in hirq.constructs(b["hir"]):
        if hirq.short(path).endswith("common::Reference") or hirq.short(path) == "Reference":
            if n.get("k") == "Struct":
                for f in n.get("fields", []):
                    if f.get("name") == "base":
                        o = origins.origins(b["hir"], f["e"], b.get("params", ()))
                        if ("call", "alpha::typer::Typer::put_symbol") in o:
                            used = True
    run.ob("R10-ASSIGNMENT-CHECKED", "conflict poisons the reference", used, F.where(b), "the result of put_symbol decides the base of the returned reference")


def check(run):
    F = run.facts("B")
    r1_tables(run, F)
    r2_wiring(run, F)
    r3_r5_relations(run, F)
    r5b_unification_leaves(run, F)
    r5c_equals_structural(run, F)
    r4_calls(run, F)
    r5_unification(run, F)
    r6_codes(run, F)
    r7_visit(run, F)
    r8_structural(run, F)
    r9_typer_visit(run, F)
    r10_assignment(run, F)
    if run.tier == "thorough":
        FA = run.facts("A")
        run.key_prefix = "cfgA:"
        for fn in (r1_tables, r2_wiring, r3_r5_relations, r4_calls, r5_unification, r6_codes, r7_visit, r8_structural, r9_typer_visit, r10_assignment):
            fn(run, FA)
        run.key_prefix = ""
