"""C17 -- the extracted header is exactly the public interface."""
from rules import hirq, mirq, balance, typestate
from rules.core import walk, norm_path, AnchorMissing

LEVEL = "other"
EXPLANATION = (
    "Static analysis of header extraction (cfg A). Decided: R1 ParseNode::convert_for_head is a total table over all "
    "ParseNode variants without wildcard; every variant carrying a NodeId rebuilds it through `adjust`, FunctionImpl "
    "becomes NoMoreItems, DeclarationFlags removes exactly Public, everything else is returned unchanged; "
    "R2 private-zone typestate over the MIR of parse_declaration and the five declaration parsers: with the product "
    "state (declaration is pub?, zone open?) every node-pushing call of a non-pub declaration happens inside a zone, "
    "every head-node push of a pub declaration outside, and a pub function's body (parse_function_body .. FunctionBody) "
    "inside a zone that is closed again on the success path; R3 build_header_nodes skips exactly the three zone "
    "markers, adds `end + 1 - i` to the skip count, converts every other node with the current skip count, and "
    "is_declaration is exactly the four declaration variants. Not decided: that no NodeId of a public node ever "
    "refers into a private zone for every input (index values)."
    " ADDED LATER: R3-DECLARATIONS also: build_header tests every converted node (no hand-written index that jumps)."
    " ROUND 8: R4-NODE-IDS-FRESH: every node id a ParseBuffer method hands out is created by that call or passed in by the caller, never read from the buffer's own state (the header builder rebases ids by subtraction)."
    " ROUND 9: R5-HEADER-ALWAYS-CONVERTED: on the MIR every return of build_header is dominated by the call of build_header_nodes."
    " ROUND 10: R3-DECLARATIONS 'declarations stay in scan order': only push is applied to the list that becomes the header's declarations."
    " ROUND 11: R3-SKIP-COUNT 'the index jumps to the end that was counted': in the StartPrivateZone arm the local assigned to the index has one definition.")

PT = "delta::parser::parse_tree::"
PN = "delta::parser::parse_node::ParseNode"
PUSH = PT + "ParseBuffer::push"
DECL_FNS = ["delta::parser::parse_import_declaration", "delta::parser::parse_constant_declaration",
            "delta::parser::parse_function_declaration", "delta::parser::parse_struct_declaration",
            "delta::parser::parse_word_declaration"]


def r1_convert(run, F):
    adt = F.adt(PN)
    b = F.body(PN + "::convert_for_head")
    m = None
    for mm in hirq.matches(b["hir"]):
        if hirq.local_name_of(mm["scrut"]) == "self" and hirq.n_alts(mm) > 30:
            m = mm
    run.require(m is not None, "match self not found in convert_for_head")
    nodeid_variants = {}
    for v in adt["variants"]:
        fs = [f["name"] for f in v["fields"] if "NodeId" in f["ty"]]
        if fs:
            nodeid_variants[v["name"]] = fs
    run.require(len(nodeid_variants) >= 8, "expected >= 8 ParseNode variants with NodeId fields, found %s" % sorted(nodeid_variants))
    covered = set()
    zone = {"StartPrivateZone", "EndPrivateZone", "EndlessPrivateZone"}
    for a in m["arms"]:
        alts = hirq.pat_alts(a["pat"])
        for alt in alts:
            if hirq.is_catchall(alt):
                run.ob("R1-COVERS", "wildcard-arm", False, F.where(b, a),
                       "convert_for_head must list every ParseNode variant explicitly (a wildcard hides new NodeId-carrying variants)")
                continue
            v = (hirq.pat_res(alt) or "?").split("::")[-1]
            covered.add(v)
            body = hirq.unwrap_trivial(a["body"])
            if v in zone:
                continue
            if v in nodeid_variants and v != "FunctionImpl":
                ok = False
                detail = "must rebuild %s with every NodeId passed through adjust()" % v
                if body.get("k") == "Struct" and norm_path(body["path"]).endswith("ParseNode::" + v):
                    ok = True
                    fields = {f["name"]: f["e"] for f in body["fields"]}
                    for fn in nodeid_variants[v]:
                        e = fields.get(fn)
                        if e is None or e.get("k") != "Call" or hirq.local_name_of(e["f"]) != "adjust" or \
                                hirq.local_name_of(e["a"][0]) != fn:
                            ok = False
                run.ob("R1-ADJUST", v, ok, F.where(b, a), detail, sample={"variant": v, "nodeid_fields": nodeid_variants[v]})
            elif v == "FunctionImpl":
                cons = [hirq.short(p) for p, _ in hirq.constructs(a["body"])]
                run.ob("R1-BODY-DROPPED", v, cons == ["ParseNode::NoMoreItems"] and body.get("k") == "Path", F.where(b, a),
                       "FunctionImpl { body } must become NoMoreItems in the header (function bodies removed)")
            elif v == "DeclarationFlags":
                cs = [hirq.callee(c) or "" for c in hirq.calls(a["body"])]
                flags = [hirq.short(p) for p, _ in hirq.constructs(a["body"]) if "DeclarationFlag::" in hirq.short(p)]
                ok = any(c.endswith("EnumSet::difference") for c in cs) and flags == ["DeclarationFlag::Public"]
                run.ob("R1-FLAGS", v, ok, F.where(b, a),
                       "DeclarationFlags must clear exactly the Public flag (enum_set.difference(Public)): calls %s flags %s" % (cs, flags))
            else:
                ok = body.get("k") == "Path" and hirq.local_name_of(body) == "self"
                run.ob("R1-UNCHANGED", v, ok, F.where(b, a), "%s carries no NodeId and must be copied unchanged (`=> self`)" % v)
    allv = set(v["name"] for v in adt["variants"])
    for v in sorted(allv - covered):
        run.ob("R1-COVERS", v, False, F.where(b), "ParseNode::%s has no arm in convert_for_head" % v)
    run.ob("R1-COVERS", "all-variants", covered >= allv, F.where(b), "%d of %d variants covered" % (len(covered & allv), len(allv)))
    run.floor("R1-ADJUST", 6)
    run.floor("R1-UNCHANGED", 45)
    # adjust closure subtracts num_skipped_nodes
    cls = [n["init"] for n in walk(b["hir"]) if n.get("k") == "Let" and isinstance(n.get("init"), dict) and n["init"].get("k") == "Closure"]
    run.require(len(cls) == 1, "convert_for_head: the id-adjusting closure was not found (%d closures bound by let)" % len(cls))
    cl = cls[0]
    subs = [n for n in walk(cl["body"]) if n.get("k") == "Binary" and n.get("op") == "Sub"]
    # by role: the subtrahend is the function's (non-self) parameter, the minuend derives from the closure's own parameter
    from rules import origins as _or
    skipped_param = [q.get("lid") for q in b.get("params", []) if q.get("name") != "self"]
    ok = len(subs) == 1 and len(skipped_param) == 1 and hirq.unwrap_trivial(subs[0]["rhs"]).get("lid") == skipped_param[0] \
        and ("closureparam",) in _or.origins(b["hir"], subs[0]["lhs"], b.get("params", ()))
    run.ob("R1-ADJUST", "closure: i - num_skipped_nodes", ok, F.where(b, cl), "adjust must subtract the number of skipped nodes")
    # is_declaration
    isd = F.body(PN + "::is_declaration")
    mm = [x for x in hirq.matches(isd["hir"], msrc=None)]
    run.require(mm, "matches! not found in is_declaration")
    vs = set()
    for a in mm[0]["arms"]:
        if [x["v"] for x in hirq.lits(a["body"], "bool")] == [True]:
            for alt in hirq.pat_alts(a["pat"]):
                vs.add((hirq.pat_res(alt) or "?").split("::")[-1])
    want = {"ConstantDeclaration", "FunctionDeclaration", "StructureDeclaration", "ImportDeclaration"}
    run.ob("R3-IS-DECLARATION", "table", vs == want, F.where(isd), "is_declaration must be exactly %s, found %s" % (sorted(want), sorted(vs)))


def const_arg_contains(t, idx, text):
    a = t.get("args", [])
    if len(a) <= idx:
        return False
    c = a[idx]
    return isinstance(c, dict) and isinstance(c.get("c"), str) and text in c["c"]


def r2_zones(run, F):
    g = mirq.callgraph(F.lib)
    R = set(r for r in mirq.reachable_fns(g, ["delta::parser::parse"]) if r in F.lib.bodies)
    res = balance.solve(F.lib, R - {PUSH}, {PUSH: 1}, {}, "max")
    may_push = set(fn for fn, s in res.summary.items() if s and s > 0) | {PUSH}
    SETPRIV, SETPUB = PT + "ParseBuffer::set_private", PT + "ParseBuffer::set_public"
    CO = "delta::parser::tokens::Tokens::consume_optional"

    def transfer(t, st):
        c = mirq.call_target(t)
        if c == SETPRIV:
            return set((p, 1) for p, z in st)
        if c == SETPUB:
            return set((p, 0) for p, z in st)
        return st

    DU = {}

    def bfilter(t):
        c = mirq.call_target(t)
        du = DU["du"]
        if c == CO and mirq.arg_variant(du, t, 1) == "Pub":
            return (lambda s: s[0] == "pub", lambda s: s[0] == "priv")
        if (c or "").endswith("EnumSet::contains") and mirq.arg_variant(du, t, 1) == "Public":
            return (lambda s: s[0] == "pub", lambda s: s[0] == "priv")
        return None

    pd = F.body("delta::parser::parse_declaration")
    cfg = mirq.CFG(pd)
    DU["du"] = mirq.DefUse(cfg)
    entry_states = {}
    n_filters = [0]
    for u, t in cfg.calls():
        if bfilter(t):
            n_filters[0] += 1
    run.require(n_filters[0] >= 1, "consume_optional(Pub) not found in parse_declaration")

    def observe_pd(u, t, st):
        c = mirq.call_target(t)
        if c in DECL_FNS:
            entry_states[c] = set(st)
            run.ob("R2-ZONE-AT-DISPATCH", hirq.last(c), st <= {("pub", 0), ("priv", 1)} and len(st) == 2, F.where(pd, t),
                   "when %s is called a pub declaration must be outside and a private one inside a private zone; states: %s" % (hirq.last(c), sorted(st)),
                   sample={"callee": c, "states(pub?,zone_open)": sorted(st)})
    init = {("pub", 0), ("pub", 1), ("priv", 0), ("priv", 1)}
    typestate.run(cfg, init, transfer, bfilter, observe_pd)
    run.require(len(entry_states) == 5, "not all five declaration parsers are dispatched from parse_declaration: %s" % sorted(entry_states))

    for fn in DECL_FNS:
        b = F.body(fn)
        cfg = mirq.CFG(b)
        DU["du"] = mirq.DefUse(cfg)
        body_call = [u for u, t in cfg.calls() if mirq.call_target(t) == "delta::parser::parse_function_body"]
        fin = [u for u, t in cfg.calls() if mirq.call_target(t) == PT + "ParseBuffer::finish_impl"]
        body_region = set()
        if body_call:
            body_region = cfg.reachable_from(body_call, cut=set(fin)) | set(body_call)

        def observe(u, t, st, fn=fn, b=b, body_region=body_region, cfg=cfg):
            c = mirq.call_target(t)
            if c in (SETPRIV, SETPUB) or c not in may_push:
                return
            if u in body_region:
                ok = all(z == 1 for p, z in st)
                run.ob("R2-BODY-PRIVATE", "%s|%s" % (hirq.last(fn), hirq.last(c)), ok, F.where(b, t),
                       "function body nodes (%s) must be pushed inside a private zone for pub and private functions alike; states %s" % (hirq.last(c), sorted(st)),
                       sample={"fn": fn, "callee": c, "states": sorted(st)})
            else:
                ok = st <= {("pub", 0), ("priv", 1)}
                run.ob("R2-HEAD-ZONE", "%s|%s@%s" % (hirq.last(fn), hirq.last(c), _ordinal(cfg, u, c)), ok, F.where(b, t),
                       "head nodes of a pub declaration must be outside, of a private one inside a private zone; states %s" % sorted(st),
                       sample={"fn": fn, "callee": c, "states": sorted(st)})
        st = typestate.run(cfg, entry_states[fn], transfer, bfilter, observe)
        # at Ok-return of a pub function the zone must be closed again (set_public after the body)
        if fn.endswith("parse_function_declaration"):
            for u in fin:
                s = st.get(u, set())
                run.ob("R2-ZONE-CLOSED-AFTER-BODY", hirq.last(fn), s <= {("pub", 0), ("priv", 1)} and s, F.where(b, cfg.term(u)),
                       "after a pub function's body the private zone must be closed (set_public) before finish_impl; states %s" % sorted(s))
            run.ob("R2-BODY-PRIVATE", "parse_function_declaration|has-body-bracket", bool(body_call) and bool(fin), F.where(b),
                   "parse_function_body .. finish_impl bracket must exist")
    run.floor("R2-HEAD-ZONE", 20)
    run.floor("R2-BODY-PRIVATE", 4)


def _ordinal(cfg, u, c):
    k = 0
    for v, t in cfg.calls():
        if mirq.call_target(t) == c:
            k += 1
            if v == u:
                return k
    return 0


def r3_build(run, F):
    b = F.body(PT + "ParseTree::build_header_nodes")
    m = None
    for mm in hirq.matches(b["hir"]):
        keys = [hirq.pat_key(a["pat"]) for a in mm["arms"]]
        if "ParseNode::StartPrivateZone" in keys:
            m = mm
    run.require(m is not None, "zone match not found in build_header_nodes")
    special = set()
    skip_lid = None
    for a in m["arms"]:
        for alt in hirq.pat_alts(a["pat"]):
            if hirq.is_catchall(alt):
                # general arm: push(node.convert_for_head(num_skipped_nodes))
                cs = list(hirq.calls(a["body"]))
                conv = [c for c in cs if hirq.callee(c) == PN + "::convert_for_head"]
                a0 = hirq.unwrap_trivial(conv[0]["a"][0]) if len(conv) == 1 and conv[0].get("a") else {}
                ok = len(conv) == 1 and a0.get("k") == "Path" and a0.get("rk") == "Local"
                if ok:
                    skip_lid = a0.get("lid")
                # the converted node is handed to the local `push` closure (a call through a local)
                pushes = [c for c in cs if c.get("k") == "Call" and hirq.unwrap_trivial(c["f"]).get("rk") == "Local" and any(x is conv[0] for x in walk(c))] if ok else []
                ok = ok and len(pushes) == 1
                run.ob("R3-CONVERT-ALL", "general-arm", ok, F.where(b, a),
                       "every non-marker node must be pushed as node.convert_for_head(num_skipped_nodes)")
            else:
                special.add(hirq.pat_key(alt).split("::")[-1])
    run.ob("R3-SKIP-ONLY-MARKERS", "arms", special == {"StartPrivateZone", "EndPrivateZone", "EndlessPrivateZone"}, F.where(b, m),
           "only the three zone markers may be skipped; special arms: %s" % sorted(special))
    # skip count: <counter> += <zone end> + 1 - <index>, by role: the counter is the local handed to convert_for_head, the index is
    # the local that indexes self.nodes in the scrutinee, the zone end derives from StartPrivateZone.end
    from rules import origins as _or
    sc = hirq.unwrap_trivial(m["scrut"])
    idx_lids = set(x.get("lid") for x in walk(sc) if x.get("k") == "Path" and x.get("rk") == "Local" and x.get("res") != "self")
    ok = False
    for n in walk(b["hir"]):
        if n.get("k") == "AssignOp" and hirq.unwrap_trivial(n["lhs"]).get("lid") == skip_lid and skip_lid is not None and n.get("op") in ("AddAssign", "Add"):
            r = hirq.unwrap_trivial(n["rhs"])
            if r.get("k") == "Path" and r.get("rk") == "Local":      # `let zone_len = end + 1 - i; counter += zone_len;`
                lets_ = [x for x in walk(b["hir"]) if x.get("k") == "Let" and hirq.strip_ref(x["pat"]).get("lid") == r.get("lid") and isinstance(x.get("init"), dict)]
                if len(lets_) == 1:
                    r = hirq.unwrap_trivial(lets_[0]["init"])
            if r.get("k") == "Binary" and r["op"] == "Sub" and hirq.unwrap_trivial(r["rhs"]).get("lid") in idx_lids:
                l = hirq.unwrap_trivial(r["lhs"])
                if l.get("k") == "Binary" and l["op"] == "Add" and hirq.unwrap_trivial(l["rhs"]).get("v") == 1:
                    oe = _or.origins(b["hir"], l["lhs"], b.get("params", ()))
                    if any(k[0] == "patfield" and k[2] == "end" for k in oe):
                        ok = True
    run.ob("R3-SKIP-COUNT", "num_skipped_nodes += end + 1 - i", ok, F.where(b),
           "the skipped range is i..=end, so the count must grow by end + 1 - i")
    # .. and the index jumps to exactly the `end` that was counted: in the StartPrivateZone arm the value assigned to the index has one
    # definition (it is not moved on after the count was taken; hopping over a second, adjacent zone without counting it leaves every later
    # reference rebased by too little)
    zarms = [a for a in m["arms"] if any(hirq.pat_key(alt).endswith("StartPrivateZone") for alt in hirq.pat_alts(a["pat"]))]
    jumps = []
    for a in zarms:
        for n in walk(a["body"]):
            if n.get("k") == "Assign" and hirq.unwrap_trivial(n["lhs"]).get("lid") in idx_lids:
                r = hirq.unwrap_trivial(n["rhs"])
                if r.get("k") == "Path" and r.get("rk") == "Local":
                    defs = [x for x in walk(a["body"]) if (x.get("k") == "Let" and hirq.strip_ref(x["pat"]).get("lid") == r.get("lid")) or
                            (x.get("k") in ("Assign", "AssignOp") and hirq.unwrap_trivial(x["lhs"]).get("lid") == r.get("lid"))]
                    jumps.append((n, len(defs)))
    run.ob("R3-SKIP-COUNT", "the index jumps to the end that was counted", len(jumps) == 1 and jumps[0][1] == 1, F.where(b, jumps[0][0]) if jumps else F.where(b),
           "in the StartPrivateZone arm the local assigned to the index is defined once (%s definition(s)): the jump and the skip count use the same zone end" % [j[1] for j in jumps])
    # build_header: declarations recomputed with is_declaration on the *new* nodes
    bh = F.body(PT + "ParseTree::build_header")
    cs = [hirq.callee(c) for c in hirq.calls(bh["hir"])]
    run.ob("R3-DECLARATIONS", "build_header", PN + "::is_declaration" in cs and PT + "ParseTree::build_header_nodes" in cs, F.where(bh),
           "build_header must rebuild the declaration index with is_declaration over the converted nodes")
    # ... over EVERY converted node: the scan is a plain `for (i, node) in nodes.iter().enumerate()`; a hand-written index
    # that jumps ahead skips declarations that are shorter than the jump (an import has three nodes)
    from rules import origins
    isd = [c for c in hirq.calls(bh["hir"]) if hirq.callee(c) == PN + "::is_declaration"]
    ok_scan = False
    det = "is_declaration call not found"
    if len(isd) == 1:
        o = origins.origins(bh["hir"], isd[0].get("recv") or isd[0]["a"][0], bh.get("params", ()))
        if ("closureparam",) in o:
            # iterator-adaptor form: `nodes.iter().enumerate().filter(|(_, node)| node.is_declaration())...`; the tested node is
            # the item of the iterator the closure is handed to
            for m in walk(bh["hir"]):
                if m.get("k") in ("MethodCall", "Call") and any(a.get("k") == "Closure" and any(x is isd[0] for x in walk(a)) for a in m.get("a", [])):
                    src = m.get("recv") or next((a for a in m.get("a", []) if a.get("k") != "Closure"), None)
                    if src is not None:
                        o = o | origins.origins(bh["hir"], src, bh.get("params", ()))
        calls = sorted(x[1].split("::")[-1] for x in o if x[0] == "call")
        steps = [n for n in walk(bh["hir"]) if n.get("k") == "AssignOp"]
        ok_scan = "enumerate" in calls and "iter" in calls and "index" not in calls and not steps
        det = "tested node comes from %s; hand-written index updates: %d" % (calls, len(steps))
    run.ob("R3-DECLARATIONS", "build_header scans every node", ok_scan, F.where(bh), det)
    # the list of declarations is in node order because it is filled by one forward scan; nothing reorders or filters it afterwards
    # (NodeId is three little-endian bytes: a derived ordering is not the numeric one beyond 255 nodes)
    decl_lids = set()
    for pth, node in hirq.constructs(bh["hir"]):
        if node.get("k") == "Struct" and pth.endswith("ParseTree"):
            for f in node.get("fields", []):
                if f["name"] == "declarations":
                    for y in walk(f["e"]):
                        if y.get("k") == "Path" and y.get("rk") == "Local":
                            decl_lids.add(y.get("lid"))
    meths = sorted(set(c.get("name") for c in hirq.calls(bh["hir"]) if c.get("k") == "MethodCall" and
                       any(y.get("k") == "Path" and y.get("lid") in decl_lids for y in walk(c["recv"]))))
    REORDER = ("sort", "sort_unstable", "sort_by", "sort_by_key", "sort_unstable_by", "sort_unstable_by_key", "sort_by_cached_key", "dedup", "dedup_by",
               "dedup_by_key", "reverse", "retain", "retain_mut", "swap", "swap_remove", "remove", "insert", "rotate_left", "rotate_right", "drain",
               "truncate", "pop", "clear", "split_off", "rev", "select_nth_unstable")
    # (the list may be filled by `push` in the scan loop or collected from an order-preserving iterator chain over the nodes)
    chain = []
    for x in walk(bh["hir"]):
        if x.get("k") == "Let" and isinstance(x.get("init"), dict) and hirq.strip_ref(x["pat"]).get("lid") in decl_lids:
            chain += [c.get("name") for c in hirq.calls(x["init"]) if c.get("k") == "MethodCall"]
    other = sorted(set(m_ for m_ in meths + chain if m_ in REORDER))
    run.ob("R3-DECLARATIONS", "declarations stay in scan order", bool(decl_lids) and not other, F.where(bh),
           "methods applied to the header's list of declarations: %s (built by %s); these reorder or drop entries: %s" % (meths, sorted(set(chain)), other))
    asserts = [c for c in hirq.calls(bh["hir"]) if hirq.panic_kind(c) == "assert"]
    run.ob("R3-NO-ERRORS-PRECONDITION", "build_header", len(asserts) >= 1, F.where(bh),
           "build_header asserts errors.is_empty(): an open zone only exists after a parse error")


def r4_node_ids_fresh(run, F):
    """build_header_nodes moves a public declaration by subtracting the number of skipped nodes from every node id stored in it.
    That is only right if every id stored in a declaration's nodes names a node of the same declaration.  The parser gets its
    ids from ParseBuffer: each method that hands out a NodeId (or a value that contains one) returns an id created by that very
    call or handed in by the caller -- never one remembered in the buffer from an earlier declaration (a shared "empty list"
    terminator made later public lists point back across private zones)."""
    from rules import origins, visit
    n = 0
    for p, b in sorted(F.lib.bodies.items()):
        if "hir" not in b or "{closure" in p or "::ParseBuffer::" not in p or not p.startswith("delta::parser::parse_tree::"):
            continue
        leaves = [l for l in visit.result_leaves(b["hir"]) if l.get("t") is not None and ("NodeId" in F.lib.types[l["t"]] or "UnfinishedImpl" in F.lib.types[l["t"]] or "ActiveList" in F.lib.types[l["t"]])]
        if not leaves:
            continue
        n += 1
        o = set()
        for l in leaves:
            o |= origins.origins(b["hir"], l, b.get("params", ()))
        remembered = sorted(k[1] for k in o if k[0] == "field")
        run.ob("R4-NODE-IDS-FRESH", p.split("::")[-1], not remembered, F.where(b),
               "%s hands out a node id read from the buffer's own state (%s): ids must be created by the call or passed in, or the header "
               "builder's rebasing (`id - num_skipped_nodes`) moves them to the wrong node" % (p.split("::")[-1], remembered))
    run.ob("R4-NODE-IDS-FRESH", "scan", n >= 3, "src/delta/parser/parse_tree.rs", "%d id-returning methods of ParseBuffer examined" % n)


def r5_header_always_converted(run, F):
    """The header of a module is built by one routine that drops private zones *and* clears `pub` on what it keeps.  build_header
    has no way round it: on the MIR every return of build_header is dominated by the call of build_header_nodes (a shortcut for
    "modules without private zones" would hand back the declarations with their `pub` flags)."""
    b = F.body(PT + "ParseTree::build_header")
    cfg = mirq.CFG(b)
    calls_ = [i for i, t in cfg.calls() if (mirq.call_target(t) or "") == PT + "ParseTree::build_header_nodes"]
    run.require(calls_, "build_header does not call build_header_nodes (the rule reads that form only)")
    exits = cfg.exits()
    bad = [e for e in exits if not any(cfg.dominates(c, e) for c in calls_)]
    run.ob("R5-HEADER-ALWAYS-CONVERTED", "build_header", bool(exits) and not bad, F.where(b),
           "every return of build_header is dominated by build_header_nodes (%d return block(s), %d reachable without the conversion)" % (len(exits), len(bad)))


def check(run):
    F = run.facts("A")
    r1_convert(run, F)
    r2_zones(run, F)
    r3_build(run, F)
    r4_node_ids_fresh(run, F)
    r5_header_always_converted(run, F)
