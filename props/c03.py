"""C03 -- every successful compilation yields valid LLVM IR (structural clauses)."""
from rules import hirq, mirq
from rules.core import walk, norm_path, AnchorMissing

LEVEL = "other"
EXPLANATION = (
    "Static analysis of the generator's module/function lifecycle (cfg B). Decided: R1 per-module reset (T7): "
    "Generator::add_module clears every Generator field that maps to LLVM handles (all HashMap fields), and "
    "function generation clears every local_* map after the body; R2 linkage/calling-convention table of "
    "generator::declare: External linkage iff flags contain Public, Main or Forward, Private otherwise; C calling "
    "convention iff External, Fast otherwise; R3 ordering in function generation: entry block appended and builder "
    "positioned before the body is generated, verify_function afterwards, and FunctionBody::generate ends every path "
    "with LLVMBuildRet/LLVMBuildRetVoid; R4 IR is only generated from resolved trees: generator.declare is called on "
    "the Ok edge of resolver::resolve only, and Compiler::compile verifies the module after generating every "
    "declaration; R5 every LLVM global/function/struct created by declare is registered under the declaration's "
    "resolution_id before use; R6 a function keeps its symbol name although constants are globals in the same LLVM namespace "
    "(the name is freed before LLVMAddFunction); R8 call instructions carry the calling convention of the callee; R7 (shared with C01) struct insert/extract/GEP indices derive from the member offset the typer "
    "resolved by name, never from source position (constant aggregates of the wrong shape pass the in-process verifier "
    "and are only rejected by llvm-as). Validity of every emitted instruction is decided by LLVM at run time: not decided."
    " ROUNDS 5-6: R9 a builtin that expands directly to a literal gives it the type the typer announced (line!: usize; file!: announced as slice, expanded to an array -- known finding)."
    " ROUND 7: R2 linkage and calling convention are tables over the sixteen flag sets, folded from the arguments of LLVMSetLinkage / LLVMSetFunctionCallConv (rules/flagfn.py), whatever the form of the code that chooses them."
    " ROUND 8: R10-LINK-RESULT-CHECKED 'default diagnostic handler' (shared with C02): while the status of LLVMLinkModules2 is discarded (known finding) the default handler, which ends the process on a link error, must stay in place."
    " ROUND 9: R11-BRANCH-TARGETS-FRESH: no LLVMBuildBr / LLVMBuildCondBr targets a block obtained from LLVMGetInsertBlock (it may be the entry block, which must not have predecessors); C01.R3-CAST-ALWAYS-CONVERTED is shared (an unconverted cast operand is a constant of the wrong type inside an aggregate, which only llvm-as notices); R2-LINKAGE-TABLE 'local functions reach the linked program': known finding (LLVMLinkModules2 drops unreferenced local symbols)."
    " ROUND 10: R12-LINKAGE-SET-AT-CREATION: every LLVMSetLinkage / LLVMSetVisibility / LLVMSetFunctionCallConv acts on a value produced by LLVMAddFunction / LLVMAddGlobal in the same function (no pass over a finished module changes what declare decided)."
    " ROUND 12: R13-BOTH-MODULES-VERIFIED: Generator::verify applies LLVMVerifyModule with the abort action to the current module and to the combined (linked) module; modules share one context, so a later module can invalidate the linked IR while every per-module file stays valid.")

GEN = "alpha::generator::Generator"


def self_field_calls(body, method):
    """self.<field>.<method>() calls: list of (field, node)"""
    out = []
    for c in hirq.calls(body["hir"]):
        if c.get("k") == "MethodCall" and c.get("name") == method:
            r = hirq.unwrap_trivial(c["recv"])
            if r.get("k") == "Field":
                base = hirq.unwrap_trivial(r["e"])
                if base.get("k") == "Path" and base.get("rk") == "Local":
                    out.append((r["name"], base.get("res"), c))
    return out


def r1_reset(run, F):
    adt = F.adt(GEN)
    maps = [f["name"] for f in adt["variants"][0]["fields"] if f["ty"].startswith("std::collections::HashMap<")]
    run.require(len(maps) >= 6, "Generator HashMap fields not found: %s" % maps)
    am = F.body(GEN + "::add_module")
    cleared = set(f for f, base, c in self_field_calls(am, "clear") if base == "self")
    for f in maps:
        run.ob("R1-MODULE-RESET", "Generator.%s" % f, f in cleared, F.where(am),
               "Generator::add_module must clear `%s` (handles of the previous LLVM module are meaningless in the new one)" % f,
               sample={"field": f, "cleared": sorted(cleared)})
    # function-local maps cleared after the body
    dg = F.body("<alpha::resolved::Declaration as alpha::generator::Generatable>::generate")
    locals_ = [f for f in maps if f.startswith("local_")]
    body_call = [c for c in hirq.calls(dg["hir"]) if c.get("k") == "MethodCall" and c.get("name") == "generate"
                 and hirq.local_name_of(hirq.unwrap_trivial(c["recv"])) == "body"]
    run.require(len(body_call) == 1, "body.generate(llvm) not found in Declaration::generate")
    after = set(f for f, base, c in self_field_calls(dg, "clear") if base == "llvm" and c["l"] > body_call[0]["l"])
    for f in locals_:
        run.ob("R1-FUNCTION-RESET", "Generator.%s" % f, f in after, F.where(dg, body_call[0]),
               "`%s` must be cleared after a function body has been generated" % f)
    run.floor("R1-FUNCTION-RESET", 3)


def flags_in(node):
    return sorted(set(hirq.short(p).split("::")[-1] for p, _ in hirq.constructs(node) if "DeclarationFlag::" in hirq.short(p)))


def r2_linkage(run, F, linked_program=True):
    """Linkage and calling convention of a function as *tables over its flags*, whatever the form of the code that chooses
    them (rules/flagfn.py folds the arguments of LLVMSetLinkage / LLVMSetFunctionCallConv over all sixteen assignments of
    Public, Main, Forward, External): External linkage iff Public or Main or Forward, Private otherwise; the C calling
    convention iff External, Fast otherwise."""
    from rules import flagfn
    d = F.body("alpha::generator::declare")
    m = hirq.find_match(d, min_arms=3)
    farm = hirq.arm_for(m, "Declaration::Function")
    run.require(farm, "Function arm not found in generator::declare")
    arm = farm[0]
    helpers = {p: b for p, b in F.lib.bodies.items() if p.startswith("alpha::generator::") and "hir" in b and p.count("::") == 2}
    FLAGS = ["Public", "Main", "Forward", "External"]
    sl = [c for c in hirq.calls(arm["body"]) if (hirq.callee(c) or "").endswith("LLVMSetLinkage")]
    sc = [c for c in hirq.calls(arm["body"]) if (hirq.callee(c) or "").endswith("LLVMSetFunctionCallConv")]
    run.require(len(sc) == 1, "declare: the LLVMSetFunctionCallConv call of the Function arm was not found (%d)" % len(sc))
    # the linkage of *the function being declared*: the LLVMSetLinkage call on the value that also gets the calling convention
    fn_lid = hirq.unwrap_trivial(sc[0]["a"][0]).get("lid")
    sl = [c for c in sl if hirq.unwrap_trivial(c["a"][0]).get("lid") == fn_lid]
    run.require(len(sl) == 1, "declare: the LLVMSetLinkage call on the declared function was not found (%d)" % len(sl))
    lt = flagfn.table(d, sl[0]["a"][1], FLAGS, defs_scope=arm["body"], helper_bodies=helpers)
    ct = flagfn.table(d, sc[0]["a"][1], FLAGS, defs_scope=arm["body"], helper_bodies=helpers)
    bad = sorted("/".join(sorted(k)) or "-" for k, v in lt.items()
                 if v != ("LLVMLinkage::LLVMExternalLinkage" if (k & {"Public", "Main", "Forward"}) else "LLVMLinkage::LLVMPrivateLinkage"))
    run.ob("R2-LINKAGE-TABLE", "function linkage", not bad, F.where(d, sl[0]),
           "functions must get External linkage iff Public|Main|Forward and Private otherwise; wrong for the flag sets %s (e.g. %s)" % (
               bad[:6], {("/".join(sorted(k)) or "-"): v for k, v in lt.items() if ("/".join(sorted(k)) or "-") in bad[:2]}),
           sample={"wrong": bad})
    # "the linked program defines each function the source defines": LLVMLinkModules2 links symbols with local linkage (private,
    # internal) lazily, i.e. only when something already linked refers to them
    local = sorted("/".join(sorted(k)) or "-" for k, v in lt.items() if str(v).endswith(("LLVMPrivateLinkage", "LLVMInternalLinkage", "LLVMLinkerPrivateLinkage")))
    links = [p for p, bb in F.lib.bodies.items() if "hir" in bb and any((hirq.callee(c) or "").endswith("LLVMLinkModules2") for c in hirq.calls(bb["hir"]))]
    if linked_program:
      run.ob("R2-LINKAGE-TABLE", "local functions reach the linked program", not (local and links), F.where(d, sl[0]),
           "functions without pub/main/forward get a local linkage (flag sets %s) and the program is linked with LLVMLinkModules2 (%s), which drops local "
           "symbols nothing refers to: an unused private function is defined in its module's IR and absent from the linked program" % (
               local[:4], [x.split("::")[-1] for x in links]))
    badc = sorted("/".join(sorted(k)) or "-" for k, v in ct.items()
                  if v != ("LLVMCallConv::LLVMCCallConv" if "External" in k else "LLVMCallConv::LLVMFastCallConv"))
    run.ob("R2-LINKAGE-TABLE", "calling convention", not badc, F.where(d, sc[0]),
           "extern functions use the C calling convention, all others fastcc; wrong for the flag sets %s" % badc[:6])
    # the chosen values are applied to the function
    cs = [hirq.callee(c) or "" for c in hirq.calls(d["hir"])]
    run.ob("R2-LINKAGE-TABLE", "applied", any(c.endswith("LLVMSetLinkage") for c in cs) and any(c.endswith("LLVMSetFunctionCallConv") for c in cs),
           F.where(d), "LLVMSetLinkage / LLVMSetFunctionCallConv must be called")
    # constants private
    m = hirq.find_match(d, min_arms=3)
    carm = hirq.arm_for(m, "Declaration::Constant")
    run.require(carm, "Constant arm not found in declare")
    cons = [hirq.short(p).split("::")[-1] for p, _ in hirq.constructs(carm[0]["body"]) if "LLVMLinkage" in hirq.short(p)]
    run.ob("R2-LINKAGE-TABLE", "constants private", cons == ["LLVMPrivateLinkage"], F.where(d, carm[0]), "constants are module-private globals: %s" % cons)


def r3_order(run, F):
    dg = F.body("<alpha::resolved::Declaration as alpha::generator::Generatable>::generate")
    m = hirq.find_match(dg, min_arms=3)
    farm = hirq.arm_for(m, "Declaration::Function")
    run.require(farm, "Function arm not found")
    seq = []
    for c in hirq.calls(farm[0]["body"]):
        cn = hirq.callee(c) or ""
        for name in ("LLVMAppendBasicBlockInContext", "LLVMPositionBuilderAtEnd", "verify_function"):
            if cn.endswith(name):
                seq.append((name, c["l"]))
        if c.get("k") == "MethodCall" and c.get("name") == "generate" and hirq.local_name_of(hirq.unwrap_trivial(c["recv"])) == "body":
            seq.append(("body.generate", c["l"]))
    names = [s[0] for s in sorted(seq, key=lambda x: x[1])]
    ok = names == ["LLVMAppendBasicBlockInContext", "LLVMPositionBuilderAtEnd", "body.generate", "verify_function"]
    run.ob("R3-FUNCTION-ORDER", "Declaration::Function", ok, F.where(dg, farm[0]),
           "entry block, position builder, generate body, verify function -- in that order: %s" % names, sample=names)
    # MIR: verify_function and the map clears are dominated by the Ok edge of body.generate (`?`)
    cfg = mirq.CFG(dg)
    gen = [i for i, t in cfg.calls() if (mirq.call_target(t) or "").endswith("FunctionBody as alpha::generator::Generatable>::generate")
           or "Result<alpha::resolved::FunctionBody" in (mirq.call_target(t) or "")]
    ver = [i for i, t in cfg.calls() if (mirq.call_target(t) or "").endswith("Generator::verify_function")]
    run.ob("R3-FUNCTION-ORDER", "verify dominated by body", bool(ver) and all(any(cfg.dominates(g, v) for g in gen) for v in ver) if gen else bool(ver),
           F.where(dg), "verify_function must come after body generation on every path")
    fb = F.body("<alpha::resolved::FunctionBody as alpha::generator::Generatable>::generate")
    ifs = [n for n in walk(fb["hir"]) if n.get("k") == "If" and "else" in n]
    ok = False
    for n in ifs:
        t = [hirq.callee(c) or "" for c in hirq.calls(n["then"])]
        e = [hirq.callee(c) or "" for c in hirq.calls(n["else"])]
        if any(x.endswith("LLVMBuildRet") for x in t) and any(x.endswith("LLVMBuildRetVoid") for x in e):
            ok = True
    run.ob("R3-TERMINATED", "FunctionBody::generate", ok, F.where(fb),
           "a function body ends with `ret <value>` when it has a return value and `ret void` otherwise")
    # the ret follows the statements
    stm = [c["l"] for c in hirq.calls(fb["hir"]) if c.get("k") == "MethodCall" and c.get("name") == "generate"
           and hirq.local_name_of(hirq.unwrap_trivial(c["recv"])) == "statement"]
    rets = [c["l"] for c in hirq.calls(fb["hir"]) if (hirq.callee(c) or "").endswith(("LLVMBuildRet", "LLVMBuildRetVoid"))]
    run.ob("R3-TERMINATED", "ret after statements", stm and rets and max(stm) < min(rets), F.where(fb), "statements first, then the return")


def r4_only_resolved(run, F):
    cl = None
    for p, b in F.lib.bodies.items():
        if p.startswith("alpha::Compiler::analyze_and_resolve_sorted::{closure") and "mir" in b:
            cfg = mirq.CFG(b)
            if any((mirq.call_target(t) or "") == GEN + "::declare" for i, t in cfg.calls()):
                cl = b
    run.require(cl is not None, "closure calling generator.declare not found in analyze_and_resolve_sorted")
    cfg = mirq.CFG(cl)
    res = [i for i, t in cfg.calls() if mirq.call_target(t) == "alpha::resolver::resolve"]
    dec = [i for i, t in cfg.calls() if mirq.call_target(t) == GEN + "::declare"]
    run.require(res and dec, "resolve/declare calls not found")
    # `if let Ok(declaration) = &resolved`: discriminant switch on the resolve result (through a reference)
    ok_edge = None
    for sw in mirq.discr_switches(cfg):
        if cfg.dominates(res[0], sw["block"]) and any(cfg.dominates(sw["block"], d) for d in dec):
            tg = sw["targets"].get(0)
            if tg is not None:
                ok_edge = tg
    good = ok_edge is not None and all(cfg.dominates(ok_edge, d) for d in dec)
    run.ob("R4-IR-ONLY-FROM-RESOLVED", "generator.declare", good, F.where(cl, cfg.term(dec[0])),
           "generator.declare must only run on the Ok edge of resolver::resolve (no IR from unresolved declarations)")
    order = ["alpha::typer::Typer::analyze", "alpha::analyzer::Analyzer::analyze", "alpha::linter::Linter::lint", "alpha::resolver::resolve", GEN + "::declare"]
    pos = []
    for name in order:
        bl = [i for i, t in cfg.calls() if mirq.call_target(t) == name]
        pos.append(bl[0] if bl else None)
    ok = all(p is not None for p in pos) and all(cfg.dominates(pos[i], pos[i + 1]) for i in range(len(pos) - 1))
    run.ob("R4-STAGE-ORDER", "per-declaration pipeline", ok, F.where(cl), "typer.analyze < analyzer.analyze < linter.lint < resolver::resolve < generator.declare")
    cp = F.body("alpha::Compiler::compile")
    cfg = mirq.CFG(cp)
    gens = [i for i, t in cfg.calls() if mirq.call_target(t) == GEN + "::generate"]
    vers = [i for i, t in cfg.calls() if mirq.call_target(t) == GEN + "::verify"]
    ok = bool(gens) and len(vers) == 1 and not cfg.reachable_from(cfg.succ[vers[0]]) & set(gens)
    run.ob("R4-VERIFY-AFTER-GENERATE", "Compiler::compile", ok, F.where(cp), "the module is verified once, after every declaration was generated")


def r5_registration(run, F):
    d = F.body("alpha::generator::declare")
    ins = self_field_calls(d, "insert")
    fields = sorted(set(f for f, base, c in ins if base == "llvm"))
    run.ob("R5-REGISTRATION", "declare", fields == ["constants", "global_functions", "global_variables"], F.where(d),
           "declare must register constants, globals and functions under their resolution_id: %s" % fields)
    for f, base, c in ins:
        key = c["a"][0]
        names = [x.get("name") for x in walk(key) if x.get("k") == "Field"]
        run.ob("R5-REGISTRATION", "key of %s" % f, "resolution_id" in names, F.where(d, c), "registered under name.resolution_id")


def r6_symbol_namespace(run, F):
    """LLVM has one namespace for globals and functions; Penne has separate ones for constants and functions. A function
    must end up under its own name (LLVMAddFunction silently renames on a clash: `helper.1`)."""
    from rules import origins
    d = F.body("alpha::generator::declare")
    site = {}
    for c in hirq.calls(d["hir"]):
        cn = (hirq.callee(c) or "").split("::")[-1]
        if cn in ("LLVMAddGlobal", "LLVMAddFunction", "LLVMGetNamedGlobal", "LLVMSetValueName", "LLVMSetValueName2"):
            site.setdefault(cn, []).append(c)
    run.require(len(site.get("LLVMAddGlobal", [])) == 1 and len(site.get("LLVMAddFunction", [])) == 1,
                "generator::declare: expected one LLVMAddGlobal and one LLVMAddFunction")
    g, f = site["LLVMAddGlobal"][0], site["LLVMAddFunction"][0]
    og = origins.origins(d["hir"], g["a"][2], d.get("params", ()))
    of = origins.origins(d["hir"], f["a"][1], d.get("params", ()))

    def decorated(o):
        # a distinguishing decoration is text added to the source name on every path (format!/push_str/concat); a conditional
        # fallback to another literal is not one
        return any(x[0] == "call" and ("format" in x[1] or "push_str" in x[1] or "concat" in x[1]) for x in o)
    disjoint = decorated(og) != decorated(of)
    frees = False
    for q in site.get("LLVMGetNamedGlobal", []):
        oq = origins.origins(d["hir"], q["a"][1], d.get("params", ()))
        same_name = ("patfield", "Declaration::Function", "name") in oq and ("patfield", "Declaration::FunctionHead", "name") in oq
        renames = [r for r in site.get("LLVMSetValueName", []) + site.get("LLVMSetValueName2", [])
                   if ("call", "llvm_sys::core::LLVMGetNamedGlobal") in origins.origins(d["hir"], r["a"][0], d.get("params", ()))]
        if same_name and renames and q["l"] < f["l"] and all(r["l"] < f["l"] for r in renames):
            frees = True
    # alternatively the scoper could reject a function and a constant of the same name
    AN = "alpha::scoper::variable_references::Analyzer::"
    df = F.body(AN + "declare_function")
    cross = any(x.get("k") == "Field" and x.get("name") in ("containers", "variable_stack") for x in walk(df["hir"]))
    # the libc intrinsics behind print!/format!/abort! are declared lazily under their C names; a source function of that name
    # already owns the symbol, LLVMAddFunction then hands out `write.1`, which nothing defines
    for getter in ("get_write_intrinsic", "get_snprintf_intrinsic", "get_trap_like_intrinsic"):
        gb = [b for p, b in F.lib.bodies.items() if p.startswith("alpha::generator::Generator::" + getter)]
        adds = [c for b in gb if "hir" in b for c in hirq.calls(b["hir"]) if (hirq.callee(c) or "").endswith("LLVMAddFunction")]
        looks = [c for b in gb if "hir" in b for c in hirq.calls(b["hir"]) if (hirq.callee(c) or "").endswith(("LLVMGetNamedFunction", "LLVMGetNamedGlobal"))]
        if not gb:
            continue
        run.ob("R6-SYMBOL-NAMESPACE", "intrinsic vs function|%s" % getter, bool(adds) and bool(looks), F.where(gb[0]),
               "%s adds a function under a fixed C name without looking for an existing symbol of that name (LLVMGetNamedFunction): a source "
               "function called `write`/`snprintf`/`abort` makes the intrinsic `name.1`" % getter)
    run.ob("R6-SYMBOL-NAMESPACE", "constant vs function", disjoint or frees or cross, F.where(d, f),
           "a constant (private global `@name`) and a function of the same name: the function must keep its symbol name "
           "(global names decorated: %s, name freed before LLVMAddFunction: %s, rejected by the scoper: %s)" % (disjoint, frees, cross))


def r8_call_convention(run, F):
    """A call instruction uses the calling convention of its callee (declare() gives non-extern functions fastcc): LLVM
    defines a mismatch as undefined behaviour -- the verifier accepts it, the optimizer turns the caller into `unreachable`."""
    from rules import origins
    g = F.body("<alpha::resolved::Expression as alpha::generator::Generatable>::generate")
    m = hirq.find_match(g, min_arms=10)
    arm = hirq.arm_for(m, "Expression::FunctionCall")
    run.require(arm, "FunctionCall arm not found in Expression::generate")
    body = arm[0]["body"]
    calls = [c for c in hirq.calls(body) if (hirq.callee(c) or "").endswith("LLVMBuildCall")]
    run.require(len(calls) == 1, "FunctionCall arm: expected one LLVMBuildCall (found %d)" % len(calls))
    callee_l = hirq.unwrap_trivial(calls[0]["a"][1])
    sets = [c for c in hirq.calls(body) if (hirq.callee(c) or "").endswith("LLVMSetInstructionCallConv")]
    ok = False
    detail = "no LLVMSetInstructionCallConv after LLVMBuildCall"
    for c in sets:
        o0 = origins.origins(g["hir"], c["a"][0], g.get("params", ()))
        o1 = origins.origins(g["hir"], c["a"][1], g.get("params", ()))
        inst_ok = any(x[0] == "call" and x[1].endswith("LLVMBuildCall") for x in o0)
        gets = [x for x in hirq.calls(body) if (hirq.callee(x) or "").endswith("LLVMGetFunctionCallConv")]
        same_fn = any(hirq.unwrap_trivial(x["a"][0]).get("lid") == callee_l.get("lid") and callee_l.get("lid") is not None for x in gets)
        cc_ok = any(x[0] == "call" and x[1].endswith("LLVMGetFunctionCallConv") for x in o1)
        detail = "instruction from LLVMBuildCall: %s, convention from LLVMGetFunctionCallConv: %s, of the called function: %s" % (inst_ok, cc_ok, same_fn)
        ok = ok or (inst_ok and cc_ok and same_fn)
    run.ob("R8-CALL-CONVENTION", "FunctionCall", ok, F.where(g, calls[0]),
           "the call instruction must be given the callee's calling convention: " + detail)


def r9_builtin_types(run, F):
    """Builtins are typed by the typer (analyze_builtin) and expanded after typing (builtin::resolve); nothing re-checks the
    expansion, and the in-process verifier does not look inside constant aggregates.  A builtin that expands directly to a
    typed literal must give it exactly the type the typer announced for that builtin (`line!()` is usize: 32 bits under
    --wasm, so a literal typed u64 only shows there).  Compared: the ValueType constructed in the builtin's arm of
    analyze_builtin with the `value_type` field of the literal built by the helper its arm of resolve() returns."""
    ty = F.body("alpha::typer::analyze_builtin")
    rs = F.body("alpha::builtin::resolve")
    tm = [m for m in hirq.matches(ty["hir"]) if any(hirq.pat_key(alt).startswith("Builtin::") or "::Builtin::" in hirq.pat_key(alt) for a in m["arms"] for alt in hirq.pat_alts(a["pat"]))]
    rm = [m for m in hirq.matches(rs["hir"]) if any("Builtin::" in hirq.pat_key(alt) for a in m["arms"] for alt in hirq.pat_alts(a["pat"]))]
    run.require(tm and rm, "the matches over Builtin were not found in analyze_builtin / resolve")
    announced = {}
    for a in tm[-1]["arms"] if len(tm) == 1 else max(tm, key=lambda m: len(m["arms"]))["arms"]:
        for alt in hirq.pat_alts(a["pat"]):
            b = hirq.pat_key(alt).split("::")[-1]
            vts = sorted(set(hirq.short(p).split("::")[-1] for p, n in hirq.constructs(a["body"]) if "ValueType::" in p))
            announced[b] = vts
    n = 0
    for a in max(rm, key=lambda m: len(m["arms"]))["arms"]:
        if "guard" in a:
            continue
        body = hirq.unwrap_trivial(a["body"])
        if body.get("k") != "Call":
            continue
        callee = hirq.callee(body) or ""
        if not callee.startswith("alpha::builtin::") or not F.has_body(callee):
            continue
        helper = F.body(callee)
        lit_types = []
        for p, node in hirq.constructs(helper["hir"]):
            if node.get("k") == "Struct" and "Expression::" in p:
                for f in node.get("fields", []):
                    if f["name"] == "value_type":
                        lit_types.append(str(hirq.unwrap_trivial(f["e"]).get("res", "?")).split("::")[-1])
        if not lit_types:
            # an untyped string literal is an *array* [N]char8 for the generator; a builtin announced as the slice []char8
            # (for_string_slice) must not expand to a bare StringLiteral (`var f = file!();` stores [N x i8] into a slice slot)
            strs = [p for p, node in hirq.constructs(helper["hir"]) if p.endswith("Expression::StringLiteral")]
            for alt in hirq.pat_alts(a["pat"]) if strs else []:
                b = hirq.pat_key(alt).split("::")[-1]
                tarm = [x for x in max(tm, key=lambda m: len(m["arms"]))["arms"] if any(hirq.pat_key(z).split("::")[-1] == b for z in hirq.pat_alts(x["pat"]))]
                says_slice = any((hirq.callee(c) or "").endswith("for_string_slice") for x in tarm for c in hirq.calls(x["body"]))
                n += 1
                run.ob("R9-BUILTIN-TYPES", b, not says_slice, F.where(helper),
                       "%s!() is announced as the slice []char8 by the typer, %s expands it to a bare string literal, which the generator "
                       "materialises as the array [N x i8] (only print!/format! arguments tolerate that)" % (b.lower(), callee.split("::")[-1]))
            continue
        for alt in hirq.pat_alts(a["pat"]):
            b = hirq.pat_key(alt).split("::")[-1]
            n += 1
            run.ob("R9-BUILTIN-TYPES", b, announced.get(b) == sorted(set(lit_types)), F.where(helper),
                   "%s!() is announced as %s by the typer, %s expands it to a literal of type %s" % (b.lower(), announced.get(b), callee.split("::")[-1], lit_types))
    run.floor("R9-BUILTIN-TYPES", 2, "builtins that expand directly to a literal (line!, file!)")


def r11_branch_targets(run, F):
    """The entry block of a function must not have predecessors, and the builder is positioned in the entry block when a function
    body starts.  A branch in the generator therefore never targets "the block the builder is in" (LLVMGetInsertBlock) or the
    function's first block: every target of LLVMBuildBr / LLVMBuildCondBr is produced by LLVMAppendBasicBlockInContext or by the
    label table (find_or_append_labeled_block).  Reusing an empty current block as a loop header is valid everywhere except where
    it matters: a function whose first statement is a looped block."""
    from rules import origins
    n = 0
    for p, b in sorted(F.lib.bodies.items()):
        if "hir" not in b or not F.rel(b["file"]).endswith("alpha/generator.rs"):
            continue
        for c in hirq.calls(b["hir"]):
            cn = hirq.callee(c) or ""
            if not cn.endswith(("LLVMBuildBr", "LLVMBuildCondBr")):
                continue
            targets = c["a"][1:] if cn.endswith("LLVMBuildBr") else c["a"][2:]
            for i, a in enumerate(targets):
                n += 1
                prod = origins.producers(b["hir"], a, b.get("params", ()))
                bad = sorted(str(k[1]).split("::")[-1] for k in prod if k[0] == "call" and str(k[1]).split("::")[-1] in
                             ("LLVMGetInsertBlock", "LLVMGetEntryBasicBlock", "LLVMGetFirstBasicBlock", "LLVMGetPreviousBasicBlock"))
                run.ob("R11-BRANCH-TARGETS-FRESH", "%s|%s target %d (order %d)" % (p.split(" as ")[0].strip("<").split("::")[-1], cn.split("::")[-1], i, n), not bad, F.where(b, c),
                       "a branch targets a block obtained from %s: it may be the function's entry block, which must not have predecessors (the LLVM verifier aborts the compiler)" % bad)
    run.ob("R11-BRANCH-TARGETS-FRESH", "scan", n >= 8, "src/alpha/generator.rs", "%d branch targets examined (8 counted)" % n)


def r12_linkage_set_at_creation(run, F):
    """Linkage and calling convention are decided once, from the declaration's flags, where the function or global is created.
    Every LLVMSetLinkage / LLVMSetVisibility / LLVMSetFunctionCallConv in the crate acts on a value produced by LLVMAddFunction /
    LLVMAddGlobal in the same function; none walks the functions of a finished module (LLVMGetFirstFunction, LLVMGetNamedFunction)
    to change what `declare` decided -- a post-link pass that makes `pub` functions private leaves valid IR that no longer exports
    them."""
    from rules import origins
    n = 0
    for p, b in sorted(F.lib.bodies.items()):
        if "hir" not in b:
            continue
        for c in hirq.calls(b["hir"]):
            name = (hirq.callee(c) or "").split("::")[-1]
            if name not in ("LLVMSetLinkage", "LLVMSetVisibility", "LLVMSetFunctionCallConv", "LLVMSetDLLStorageClass"):
                continue
            n += 1
            raw = origins.producers(b["hir"], c["a"][0], b.get("params", ()))
            prod = set()
            for k in raw:
                if k[0] == "param":
                    # a helper that is handed the value: what its callers hand it decides (one level)
                    idx = [i for i, q in enumerate(b.get("params", [])) if (q.get("pat", q).get("name") or q.get("name")) == k[1]]
                    sites = [cc for pp, bb in F.lib.bodies.items() if "hir" in bb for cc in hirq.calls(bb["hir"]) if hirq.callee(cc) == p] if idx else []
                    if not sites:
                        prod.add(str(k))
                    for cc in sites:
                        owner = [bb for pp, bb in F.lib.bodies.items() if "hir" in bb and any(x is cc for x in hirq.calls(bb["hir"]))][0]
                        for kk in origins.producers(owner["hir"], cc["a"][idx[0]], owner.get("params", ())):
                            prod.add(str(kk[1]).split("::")[-1] if kk[0] == "call" else str(kk))
                else:
                    prod.add(str(k[1]).split("::")[-1] if k[0] == "call" else str(k))
            prod = sorted(prod)
            ok = bool(prod) and all(x in ("LLVMAddFunction", "LLVMAddGlobal", "LLVMAddGlobalInAddressSpace") for x in prod)
            run.ob("R12-LINKAGE-SET-AT-CREATION", "%s|%s (order %d)" % (p.split("::")[-1], name, n), ok, F.where(b, c),
                   "%s is applied to a value produced by %s: linkage and calling convention are set where a function or global is created, from its flags" % (name, prod))
    run.ob("R12-LINKAGE-SET-AT-CREATION", "scan", n >= 10, "src/alpha/generator.rs", "%d linkage / calling convention settings examined (10 counted)" % n)


def r13_both_modules_verified(run, F):
    """`Generator::verify` is the only verification the *linked* program ever gets: `add_module` links the finished module into
    `combined_module`, and all modules share one LLVMContext, so a later module can change what an earlier module's IR means (a
    named struct type whose body is set again).  The per-module files stay valid; the linked IR does not.  Decided: on the paths
    of `verify`, LLVMVerifyModule is applied to the current module (field `module`) and to the combined module (field
    `combined_module`), both with the abort action (a returned status is discarded, see C02)."""
    vb = F.body(GEN + "::verify")
    run.require("hir" in vb, "Generator::verify has no HIR")
    from rules import origins
    calls = [n for n in walk(vb["hir"]) if n.get("k") == "Call" and (hirq.callee(n) or "").endswith("LLVMVerifyModule")]
    seen = {}
    for c in calls:
        o = origins.origins(vb["hir"], c["a"][0], vb.get("params", ()))
        for item in o:
            if len(item) >= 2 and item[0] == "field" and item[1] in ("module", "combined_module"):
                seen.setdefault(item[1], c)
    for field, what in (("module", "the current module"), ("combined_module", "the linked program (every module added so far)")):
        run.ob("R13-BOTH-MODULES-VERIFIED", field, field in seen, F.where(vb, seen.get(field)) if field in seen else F.where(vb),
               "Generator::verify applies LLVMVerifyModule to %s (self.%s); found %d LLVMVerifyModule call(s) on %s" % (what, field, len(calls), sorted(seen)))
    acts = set()
    for c in calls:
        for n in walk(c["a"][1]):
            if n.get("k") == "Path":
                acts.add(str(n.get("res") or n.get("path") or "").split("::")[-1])
    run.ob("R13-BOTH-MODULES-VERIFIED", "abort action", bool(calls) and acts == {"LLVMAbortProcessAction"}, F.where(vb),
           "every LLVMVerifyModule call uses LLVMAbortProcessAction, the only action whose failure cannot be ignored by discarding the status (found %s)" % sorted(acts))
    run.floor("R13-BOTH-MODULES-VERIFIED", 3, "obligations on Generator::verify")


def check(run):
    F = run.facts("B")
    r9_builtin_types(run, F)
    r1_reset(run, F)
    r2_linkage(run, F)
    r3_order(run, F)
    r4_only_resolved(run, F)
    r5_registration(run, F)
    r6_symbol_namespace(run, F)
    r8_call_convention(run, F)
    r11_branch_targets(run, F)
    r12_linkage_set_at_creation(run, F)
    r13_both_modules_verified(run, F)
    # aggregate constants are not inspected by the in-process verifier: an insertvalue chain of constants with a wrong
    # index folds into a constant of the wrong shape that only the textual IR reader rejects (shared with C01.R7)
    from props import c01
    c01.r7_member_index(run, F)
    # the same blind spot: a cast whose operand keeps its own LLVM type is a constant of the wrong type inside an aggregate (C01.R3)
    c01.r3b_cast_always_converted(run, F)
    # "the linked program defines every function the source defines": a failed incremental link must not pass for a success
    from props import c02 as _c02
    _c02.r10b_default_diagnostic_handler(run, F)
