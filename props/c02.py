"""C02 -- the compiler never crashes and never fails silently (structural clauses)."""
import json
import os

from rules import hirq, mirq, inventory, apimisuse, visit
from rules.core import walk, norm_path, AnchorMissing, VERIF
from props import c03

LEVEL = "other"
EXPLANATION = (
    "Static analysis of crash surfaces of the first-generation pipeline (cfg B, generator included). Termination, "
    "stack bytes and LLVM-internal aborts are run-time facts and NOT decided. Decided: R1 panic inventory over the "
    "call-graph closure of the pipeline entry points: every explicit panicking site (panic-family macros, unwrap/"
    "expect, indexing and other panicking std calls) must be in the reviewed table props/reviewed/c02_panics.json "
    "with its multiplicity; a new or moved-in site (e.g. `.unwrap()` replacing `?`) is reported by function and "
    "kind; implicit MIR asserts are counted as information; R1b phase discharger: the typer-only AST variants "
    "(Autocoerce, Autodeslice, Autoderef, Autoview) that earlier stages treat as unreachable!() are constructed in "
    "no file of an earlier stage; R2 no todo!()/unimplemented!() is reachable from the entry points except reviewed "
    "ones; R3 loop-carried self-nesting (`x = Node { left: Box::new(x), .. }` inside a parsing loop without a depth "
    "limit) and recursion on non-bracket tokens: flat operator/type chains build trees whose depth is not bounded by "
    "source nesting; R4 per-module reset of generator tables (shared with C03.R1); R5 who may construct "
    "Poison::Poisoned (the marker that produces an *empty* error list) -- only the reviewed cascade sites; R6 the "
    "three LLVM verifier calls use AbortProcessAction (trusted-base statement); R7 ARGS-COVERED for the alpha parser's "
    "consume(): every token constant passed has an expectation string."
    " ADDED LATER: R8 re-runs the rules that the reviewed reasons cite (C06.R2/R4, C03.R5, C01.R3); R9 in every resolver arm an early exit on a possibly empty error list comes after the traversal of the children; R10 the status of LLVMLinkModules2 is not discarded; R11 the functions that rewrite types (scoper, typer, resolver) descend into every component of every ValueType variant. R1 entries are an inventory with reviewed reasons, not proofs: entries refuted by reproducers are known findings, the rest are assumptions."
    " ROUNDS 5-6: R12 linear traversal -- a necessary condition of `terminates`: a stage function on a recursion cycle hands one child of its node to the recursion at one call site per activation (else 2^depth work); R13 no arm of the typer drops an owned Err(..) and builds an unpoisoned AST node; R9 (shared with C03) a builtin expands to the type the typer announced. Termination in general, stack use and LLVM-internal aborts remain undecided."
    " ROUND 7: R14 in the analyzers location() of an expression whose type the function examines is called inside the arm that found a type; R7-ERRORS-MERGED (shared with C06) no two .resolve()? in sequence in a statement-level Resolvable impl; panic sites that move between a function and its helper inherit their review."
    " ROUND 8: C11.R7 (every type position parses through the well-formedness check) and C06.R8 (the four places that join two results keep both error lists) are shared; R10-LINK-RESULT-CHECKED 'default diagnostic handler': no LLVM diagnostic handler is installed while a link result is discarded."
    " ROUND 9: C15.R15 (a u8 counter incremented per input token is bounded inside its loop) is shared for the first-generation parser."
    " ROUND 10: R16-STRUCTURES-FORWARD-DECLARED: scoper::get_structure_name answers Some(name) for every Declaration::Structure, unconditionally, and the compiler forward declares each of those names before a group is generated (a NULL from LLVMGetTypeByName ends in a segmentation fault)."
    " ROUND 12: R8-COMBINERS-KEEP-BOTH 'Vec<T>::resolve every element' (shared with C04/C06).")

ENTRIES = [
    "alpha::lexer::lex", "alpha::parser::parse", "alpha::expander::expand", "alpha::expander::expand_one",
    "alpha::resolver::check_surface_level_errors", "alpha::scoper::analyze", "alpha::Compiler::for_wasm",
    "alpha::Compiler::add_module", "alpha::Compiler::analyze_and_resolve", "alpha::Compiler::compile",
    "alpha::Compiler::take_lints", "alpha::Compiler::link_modules", "alpha::Compiler::generate_ir",
    "alpha::error::Error::build_report",
]
EARLY_STAGE_FILES = ("src/alpha/lexer.rs", "src/alpha/parser.rs", "src/alpha/expander.rs", "src/alpha/scoper/label_references.rs",
                     "src/alpha/scoper/variable_references.rs", "src/alpha/scoper.rs")


def closure(F):
    g = mirq.callgraph(F.lib)
    for e in ENTRIES:
        if e not in F.lib.bodies:
            raise AnchorMissing("pipeline entry %s missing" % e)
    return g, [r for r in mirq.reachable_fns(g, ENTRIES) if r in F.lib.bodies]


def r1_inventory(run, F):
    g, R = closure(F)
    sites, per_fn = inventory.collect(F.lib, R)
    reviewed = inventory.load_reviewed("c02_panics.json")
    run.note_analysed("R1 functions in closure", len(R))
    moved = inventory.moved_sites(sites, reviewed, g)
    implicit = {}
    n_explicit = 0
    for key, lines in sorted(sites.items()):
        fn, kind, detail = key.split("|", 2)
        if kind.startswith("assert:"):
            implicit[kind.split(":")[1]] = implicit.get(kind.split(":")[1], 0) + len(lines)
            continue
        n_explicit += len(lines)
        b = F.lib.bodies[fn]
        rv = reviewed.get(key)
        where = "%s:%s" % (F.rel(b["file"]), lines)
        if kind in ("panic:todo", "panic:unimplemented"):
            continue   # decided by R2
        if key in moved and (rv is None or not rv["reason"].startswith("FINDING")):
            n_, origin = moved[key]
            allowed = (rv["count"] if rv is not None else 0) + n_
            run.ob("R1-PANIC-SITE", key, len(lines) <= allowed, where,
                   "%d sites; %d of them moved here from %s (same kind and message, the function is a caller or callee), reviewed there as: %s" % (
                       len(lines), n_, origin.split("|")[0], reviewed[origin]["reason"][:120]))
        elif rv is None:
            run.ob("R1-PANIC-SITE", key, False, where, "unreviewed panicking site reachable from the compiler pipeline (%s)" % kind)
        elif rv["reason"].startswith("FINDING"):
            run.ob("R1-PANIC-SITE", key, False, where, rv["reason"])
            if len(lines) > rv["count"]:
                run.ob("R1-PANIC-SITE", key + "|more sites than recorded", False, where,
                       "%d sites share this key, the recorded finding covers %d: a new panicking site was added" % (len(lines), rv["count"]))
        else:
            run.ob("R1-PANIC-SITE", key, len(lines) <= rv["count"], where,
                   "%d sites, %d reviewed (%s)" % (len(lines), rv["count"], rv["reason"][:150]), sample={"key": key, "lines": lines, "reason": rv["reason"]})
    run.note_analysed("R1 explicit panic sites", n_explicit)
    run.info("R1: implicit MIR asserts in the closure (information only, not gated): %s" % implicit)
    run.floor("R1-PANIC-SITE", 55)
    n_assumed = sum(1 for v in reviewed.values() if v["reason"].startswith("ASSUMED"))
    run.assume("R1: %d of %d reviewed entries rest on compiler invariants marked ASSUMED in props/reviewed/c02_panics.json (not proven)" % (n_assumed, len(reviewed)))


def r1b_phase(run, F):
    typer_only = ["alpha::common::Expression::Autocoerce", "alpha::common::ReferenceStep::Autodeslice",
                  "alpha::common::ReferenceStep::Autoderef", "alpha::common::ReferenceStep::Autoview"]
    seen = {v: [] for v in typer_only}
    for b in F.lib.bodies.values():
        if "hir" not in b:
            continue
        rel = F.rel(b["file"])
        for p, node in hirq.constructs(b["hir"]):
            if p in seen:
                seen[p].append((rel, F.where(b, node)))
    for v, sites in seen.items():
        early = [w for rel, w in sites if rel in EARLY_STAGE_FILES]
        has_typer = any(rel == "src/alpha/typer.rs" for rel, w in sites)
        run.ob("R1B-PHASE", v.split("::")[-1], not early and has_typer, early[0] if early else "src/alpha/typer.rs",
               "%s is treated as unreachable!() by the scoper; it must not be constructed by lexer, parser, expander or scoper: %s" % (v.split("::")[-1], early[:3]),
               sample={"variant": v, "construction_files": sorted(set(rel for rel, w in sites))})


def r2_unfinished(run, F):
    fx = apimisuse.fixture()
    ctl = [s for b in fx.bodies.values() for s in inventory.sites_of(b) if s["kind"] in ("panic:todo", "panic:unimplemented")]
    run.ob("R2-POSITIVE-CONTROL", "todo/unimplemented matcher", len(ctl) == 2, "rules/fixtures/fx/src/lib.rs", "the matcher recognises todo!() and unimplemented!() in the fixture")
    g, R = closure(F)
    reviewed = inventory.load_reviewed("c02_panics.json")
    for fn in sorted(R):
        b = F.lib.bodies[fn]
        for s in inventory.sites_of(b):
            if s["kind"] in ("panic:todo", "panic:unimplemented"):
                key = inventory.site_key(fn, s)
                rv = reviewed.get(key, {})
                ok = bool(rv) and rv["reason"].startswith("ASSUMED dead")
                run.ob("R2-UNFINISHED-CODE", "%s|%s" % (fn, s["kind"].split(":")[1]), ok, F.where(b, s["line"]),
                       "%s!() reachable from the compiler pipeline: %s" % (s["kind"].split(":")[1], rv.get("reason", "unreviewed")))


def r3_depth(run, F):
    n = 0
    for b in F.lib.bodies.values():
        if "hir" not in b or not b["npath"].startswith("alpha::parser::parse") or "{closure" in b["npath"]:
            continue
        for lp in walk(b["hir"]):
            if lp.get("k") != "Loop":
                continue
            for a in walk(lp):
                if a.get("k") != "Assign":
                    continue
                lid = a["lhs"].get("lid") if a["lhs"].get("k") == "Path" else None
                if lid is None:
                    continue
                nests = False
                for c in hirq.calls(a["rhs"]):
                    if (hirq.callee(c) or "") == "std::boxed::Box::new" and c["a"] and c["a"][0].get("k") == "Path" and c["a"][0].get("lid") == lid:
                        nests = True
                if not nests:
                    continue
                n += 1
                guarded = any(hirq.short(p) == "Error::MaximumParseDepthExceeded" for p, _ in hirq.constructs(lp))
                run.ob("R3-FLAT-CHAIN-DEPTH", b["npath"].split("::")[-1], guarded, F.where(b, a),
                       "each iteration of this loop wraps `%s` one level deeper without a depth limit: a flat chain such as `1+1+1+...` "
                       "(nesting depth 1) builds a tree thousands of levels deep and the recursive passes overflow the stack" % a["lhs"].get("res"),
                       sample={"fn": b["npath"], "variable": a["lhs"].get("res")})
    run.require(n >= 4, "self-nesting loops not found (%d)" % n)
    # recursion on a non-bracket token: parse_inner_type `&`
    pit = F.body("alpha::parser::parse_inner_type")
    m = hirq.find_match(pit, min_arms=5)
    for a in m["arms"]:
        key = hirq.pat_key(a["pat"]).split("::")[-1]
        if key in ("Ampersand",):
            rec = any(hirq.callee(c) == "alpha::parser::parse_inner_type" for c in hirq.calls(a["body"]))
            guarded = any(hirq.short(p) == "Error::MaximumParseDepthExceeded" for p, _ in hirq.constructs(pit["hir"]))
            run.ob("R3-FLAT-CHAIN-DEPTH", "parse_inner_type(&)", (not rec) or guarded, F.where(pit, a),
                   "`&&&&...T` recurses once per `&` without brackets and without a depth limit")
    ps = F.body("alpha::parser::parse_statement")
    # else-if chains: parse_statement -> parse_statement for the else branch
    rec = [c for c in hirq.calls(ps["hir"]) if hirq.callee(c) == "alpha::parser::parse_statement"]
    guarded = any(hirq.short(p) == "Error::MaximumParseDepthExceeded" for p, _ in hirq.constructs(ps["hir"]))
    run.ob("R3-FLAT-CHAIN-DEPTH", "parse_statement(else if)", (len(rec) == 0) or guarded, F.where(ps),
           "`if .. else if .. else if ..` recurses once per link of the chain without a depth limit")


def r5_poisoned(run, F):
    with open(os.path.join(VERIF, "props", "reviewed", "c02_poisoned.json")) as fh:
        reviewed = json.load(fh)
    counts = {}
    where = {}
    for b in F.lib.bodies.values():
        if "hir" not in b or not F.rel(b["file"]).startswith("src/alpha"):
            continue
        if " as std::clone::Clone>" in b["npath"] or " as std::fmt::Debug>" in b["npath"]:
            continue
        for p, node in hirq.constructs(b["hir"]):
            if p == "alpha::error::Poison::Poisoned":
                counts[b["npath"]] = counts.get(b["npath"], 0) + 1
                where.setdefault(b["npath"], F.where(b, node))
    for fn, n in sorted(counts.items()):
        rv = reviewed.get(fn)
        run.ob("R5-WHO-POISONS", fn, rv is not None and n <= rv["count"], where[fn],
               "Poison::Poisoned (the cascade marker that is rendered as an *empty* error list) is constructed %d time(s) in %s; reviewed: %s" % (
                   n, fn, rv), sample={"fn": fn, "count": n})
    run.floor("R5-WHO-POISONS", 15)
    # Errors::from(Poison): Poisoned -> empty, Error -> the error
    b = [x for p, x in F.lib.bodies.items() if p.endswith("std::convert::From<alpha::error::Poison>>::from") and "Errors" in p]
    run.require(b, "From<Poison> for Errors not found")
    m = hirq.find_match(b[0], min_arms=2)
    rows = {hirq.pat_key(a["pat"]).split("::")[-1]: [hirq.callee(c) or "" for c in hirq.calls(a["body"])] for a in m["arms"]}
    run.ob("R5-POISON-TO-ERRORS", "From<Poison> for Errors", any(c.endswith("Vec::new") for c in rows.get("Poisoned", [])) and
           any("Into" in c or "from" in c for c in rows.get("Error", [])), F.where(b[0]),
           "Poison::Error carries its error into the list; Poison::Poisoned contributes nothing: %s" % rows)


def r6_abort(run, F):
    sites = []
    for fn in ("alpha::generator::Generator::verify", "alpha::generator::Generator::verify_function"):
        b = F.body(fn)
        for p, node in hirq.constructs(b["hir"]):
            if hirq.short(p) == "LLVMVerifierFailureAction::LLVMAbortProcessAction":
                sites.append(F.where(b, node))
    run.ob("R6-VERIFIER-ABORTS", "verify/verify_function", len(sites) == 0, "src/alpha/generator.rs",
           "a verifier failure must come back as an error, not end the process: %d verifier calls use LLVMAbortProcessAction (%s); whenever the "
           "generator emits invalid IR for an accepted program the compiler aborts inside LLVM" % (len(sites), sites))
    # LLVMLinkModules2 reports failure through its result (and LLVM's diagnostic handler): it must not be discarded
    am = F.body("alpha::generator::Generator::add_module")
    discarded = False
    for n in walk(am["hir"]):
        if n.get("k") == "Let" and n["pat"].get("k") == "Wild" and any((hirq.callee(c) or "").endswith("LLVMLinkModules2") for c in hirq.calls(n.get("init", {}))):
            discarded = True
    linked = any((hirq.callee(c) or "").endswith("LLVMLinkModules2") for c in hirq.calls(am["hir"]))
    run.ob("R10-LINK-RESULT-CHECKED", "Generator::add_module", linked and not discarded, F.where(am),
           "the status returned by LLVMLinkModules2 is discarded (`let _ = ..`): a symbol defined in two modules ends the process inside LLVM "
           "without a penne diagnostic")


def r10b_default_diagnostic_handler(run, F):
    """While the status of a link step is discarded anywhere, the only thing that keeps a failed link from passing for a
    success is LLVM's *default* diagnostic handler, which ends the process on an error.  Installing a handler of one's own
    (LLVMContextSetDiagnosticHandler) turns every unchecked LLVMLinkModules2 into a silently lost module: no handler may be
    installed unless every link result in the generator is checked."""
    unchecked, handlers = [], []
    for p, b in sorted(F.lib.bodies.items()):
        if "hir" not in b or not F.rel(b["file"]).endswith("alpha/generator.rs"):
            continue
        for n in walk(b["hir"]):
            if n.get("k") == "Let" and n["pat"].get("k") == "Wild" and any((hirq.callee(c) or "").endswith("LLVMLinkModules2") for c in hirq.calls(n.get("init", {}))):
                unchecked.append(F.where(b, n))
            if n.get("k") in ("Semi", "Expr") and isinstance(n.get("e"), dict) and (hirq.callee(hirq.unwrap_trivial(n["e"])) or "").endswith("LLVMLinkModules2"):
                unchecked.append(F.where(b, n))
        for c in hirq.calls(b["hir"]):
            if (hirq.callee(c) or "").endswith("SetDiagnosticHandler"):
                handlers.append(F.where(b, c))
    run.ob("R10-LINK-RESULT-CHECKED", "default diagnostic handler", not (handlers and unchecked), handlers[0] if handlers else "src/alpha/generator.rs",
           "a diagnostic handler is installed (%s) while %d link result(s) are discarded (%s): a link error no longer ends the process and the "
           "module being linked in is dropped without a diagnostic" % (handlers, len(unchecked), unchecked))


def r7_args_covered(run, F):
    ex = F.body("alpha::parser::{Token}::expectation")
    m = hirq.find_match(ex, min_arms=5)
    handled = set()
    catch_panics = None
    for a in m["arms"]:
        pan = any(hirq.panic_kind(c) for c in hirq.calls(a["body"]))
        for alt in hirq.pat_alts(a["pat"]):
            if hirq.is_catchall(alt):
                catch_panics = pan
            elif not pan:
                handled.add(hirq.pat_key(alt).split("::")[-1])
    passed = {}
    n = 0
    for b in F.lib.bodies.values():
        if "hir" not in b:
            continue
        for c in hirq.calls(b["hir"]):
            if hirq.callee(c) == "alpha::parser::consume":
                n += 1
                a = hirq.unwrap_trivial(c["a"][0])
                if a.get("k") == "Path" and (a.get("rk") or "").startswith("Ctor"):
                    passed.setdefault(a["res"].split("::")[-1], []).append(F.where(b, c))
                else:
                    passed.setdefault("<non-constant>", []).append(F.where(b, c))
    run.require(n >= 25, "alpha consume() call sites not found (%d)" % n)
    for v, wh in sorted(passed.items()):
        run.ob("R7-ARGS-COVERED", "parser::consume|%s" % v, v in handled or catch_panics is False, wh[0],
               "consume(Token::%s) is called (%d sites); Token::expectation handles %s and panics otherwise" % (v, len(wh), sorted(handled)))


def r8_cited_invariants(run, F):
    """The reviewed reasons of R1 discharge panic sites by invariants that other properties' rules decide (the reason
    strings cite them).  Those rules are re-run here, so that breaking a cited invariant is reported under C02 as well:
    a `loop` that survives the syntax analyzer reaches `Statement::Loop => unreachable!()` in the generator, etc."""
    from props import c06, c01
    old = run.key_prefix
    try:
        run.key_prefix = old + "cited:C06:"
        c06.r2_flags(run, F)       # a Loop statement only survives as the last statement of a block
        c06.r4_generator(run, F)   # ... where Block::generate peels it off before Statement::generate
        run.key_prefix = old + "cited:C03:"
        c03.r5_registration(run, F)  # functions are declared before any call is generated
        run.key_prefix = old + "cited:C01:"
        c01.r3_conversion(run, F)  # generator conversions agree with the resolver's table
    finally:
        run.key_prefix = old


def r9_resolve_before_fail(run, F):
    """Errors are collected at resolution: a cascade marker (Poison::Poisoned, or a type helper's Err built from one) turns
    into an EMPTY error list, relying on the sub-tree that holds the real error being resolved as well.  So in every
    Resolvable::resolve arm, an early exit `x?` on such a possibly-empty residual must come after the traversal of every
    child of the node; otherwise compilation fails without any diagnostic."""
    C = F.lib
    TR = "alpha::resolver::Resolvable"
    impls = [b for b in C.bodies.values() if b.get("impl_trait") == TR and "{closure" not in b["npath"]]
    run.require(len(impls) >= 15, "resolver impls not found (%d)" % len(impls))
    rel = visit.type_closure(C, {"alpha::common::Expression", "alpha::common::Reference", "alpha::common::Statement"})

    def is_trav(c):
        return c.endswith("alpha::resolver::Resolvable>::resolve") or c == TR + "::resolve"

    def try_sites(node):
        out = []
        for m in hirq.matches(node, msrc=None):
            if not (m.get("msrc") or "").startswith("TryDesugar") or not m["scrut"].get("a"):
                continue
            x = hirq.unwrap_trivial(m["scrut"]["a"][0])
            cal = (hirq.callee(x) or hirq.callee_decl(x)) if x.get("k") in ("Call", "MethodCall") else None
            if cal and is_trav(cal):
                continue
            if any(hirq.short(p).startswith("Error::") for p, _ in hirq.constructs(x)):
                continue   # a freshly built error: never empty
            out.append((m.get("l") or x.get("l"), x, cal))
        return out
    n = 0
    for b in impls:
        adt = C.adts.get(norm_path(b.get("impl_self") or ""))
        if adt is None or adt["kind"] != "enum":
            scopes = [(b["npath"].split(" as ")[0].lstrip("<").split("::")[-1], None, b["hir"])]
        else:
            mm = [m for m in hirq.matches(b["hir"]) if hirq.n_alts(m) >= 3]
            scopes = []
            for m in mm[:1]:
                for a in m["arms"]:
                    scopes.append((hirq.pat_key(a["pat"]).split("::")[-1], a, a["body"]))
        for label, arm, body in scopes:
            sites = try_sites(body)
            if not sites:
                continue
            travs = visit.traversal_calls(body, is_trav)
            # relevant children bound by the arm's pattern (or, for structs, fields of self)
            binds = []
            if arm is not None:
                binds = [(nm, lid) for nm, lid, t in hirq.pat_bindings(arm["pat"]) if t is not None and visit.mentions(C.types[t], rel)]
            for line, x, cal in sites:
                n += 1
                late = []
                for nm, lid in binds:
                    der = visit.derived_lids(body, {lid})
                    tl = [c["l"] for c in travs if any(hirq.uses_local(i, l) for l in der for i in visit.call_inputs(c))]
                    if tl and min(tl) > line:
                        late.append("%s (resolved at line %d)" % (nm, min(tl)))
                if arm is None and travs and min(c["l"] for c in travs) > line:
                    late.append("children (first resolve() at line %d)" % min(c["l"] for c in travs))
                what = cal.split("::")[-1] + "(..)?" if cal else "`%s?`" % (hirq.local_name_of(x) or x.get("k"))
                run.ob("R9-RESOLVE-BEFORE-FAIL", "%s::%s|%s" % (b["npath"].split(" as ")[0].lstrip("<").split("::")[-1], label, what), not late,
                       F.where(b, x), "early exit on a possibly empty error list before the children are resolved: %s -- the real error inside "
                       "them is dropped and compilation fails with no diagnostic" % late, sample={"line": line, "late": late})
    run.require(n >= 6, "resolver: `?` sites on type results not found (%d)" % n)


TYPE_WALKERS = [
    # (function, traversal callees, reviewed exceptions {key: reason})
    ("alpha::scoper::variable_references::analyze_type",
     ["alpha::scoper::variable_references::analyze_type", "alpha::scoper::variable_references::Analyzer::use_struct",
      "alpha::scoper::variable_references::Analyzer::use_constant"],
     {"ValueType::Struct.identifier": "Struct/Word types are built by the typer; the scoper only sees UnresolvedStructOrWord (arm is unreachable!())",
      "ValueType::Word.identifier": "as above"}),
    ("alpha::typer::analyze_type",
     ["alpha::typer::analyze_type", "alpha::typer::Typer::retrieve_named_length", "alpha::typer::Typer::put_symbol", "alpha::typer::Typer::get_symbol"],
     {"ValueType::Struct.identifier": "already resolved by the typer itself", "ValueType::Word.identifier": "already resolved by the typer itself"}),
    ("<alpha::value_type::ValueType<alpha::common::Identifier> as alpha::resolver::Resolvable>::resolve",
     ["alpha::resolver::Resolvable::resolve"], {}),
]


def r11_type_walkers(run, F):
    """Types are trees too: every function that rewrites a ValueType stage by stage must descend into every component of
    every variant.  An arm that returns the type untouched leaves UnresolvedStructOrWord / ArrayWithNamedLength inside it,
    which the resolver meets at `unreachable!()` (resolver.rs ValueType::resolve)."""
    C = F.lib
    vt = C.adts.get("alpha::value_type::ValueType")
    run.require(vt is not None, "ValueType not found")
    for fn, travs, exceptions in TYPE_WALKERS:
        b = F.body(fn)
        ms = [m for m in hirq.matches(b["hir"]) if sum(1 for a in m["arms"] if hirq.pat_key(a["pat"]).startswith("ValueType::")) >= 12]
        run.require(len(ms) >= 1, "%s: match over ValueType not found" % fn)
        tset = set(travs)

        def is_trav(c, tset=tset):
            return c in tset or any(c.endswith(t.split("alpha::")[-1]) and "Resolvable" in t for t in tset) or \
                (c.endswith("as alpha::resolver::Resolvable>::resolve") and "alpha::resolver::Resolvable::resolve" in tset)

        def whole_reject(arm):
            cons = [hirq.short(p) for p, _ in hirq.constructs(arm["body"])]
            pk = [c for c in hirq.calls(arm["body"]) if (hirq.callee(c) or "").startswith("core::panicking")]
            return bool(pk) or ("Err" in [c.split("::")[-1] for c in cons] and not any((hirq.callee(c) or "") in tset for c in hirq.calls(arm["body"])) and any(c.startswith("Error::") for c in cons))
        short = fn.split(" as ")[-1].replace(">::", "::") if fn.startswith("<") else fn
        short = "::".join(short.split("::")[-3:])

        def rep(key, ok, where, detail, sample, short=short):
            run.ob("R11-TYPE-WALKERS", "%s|%s" % (short, key), ok, where, detail + ": that component keeps its unanalysed form", sample)
        n = visit.check_match(F, C, b, ms[0], vt, "ValueType", {"alpha::value_type::ValueType", "alpha::common::Identifier"}, is_trav, rep,
                              exceptions, whole_reject=whole_reject, subst={"I": "alpha::common::Identifier"})
        run.require(n >= 10, "%s: too few obligations (%d)" % (fn, n))


STAGE_FILES = ("src/alpha/scoper/", "src/alpha/typer.rs", "src/alpha/analyzer/", "src/alpha/linter.rs", "src/alpha/resolver.rs",
               "src/alpha/generator.rs", "src/alpha/expander.rs")


PART_TAKERS = {"pop", "pop_front", "pop_back", "split_first", "split_last", "split_off", "split_at", "remove", "swap_remove", "first", "last",
               "drain", "take", "truncate"}


def _tree_paths(root):
    st = [(root, ())]
    while st:
        n, p = st.pop()
        if isinstance(n, dict):
            yield n, p
            for k, v in n.items():
                if isinstance(v, (dict, list)):
                    st.append((v, p + ((id(n), n.get("k"), k),)))
        elif isinstance(n, list):
            for i, x in enumerate(n):
                st.append((x, p + ((id(n), "list", i),)))


def _exclusive(p1, p2):
    """Two sites are alternatives (never both executed in one activation) when they sit in different arms of one match or in the
    then / else branch of one if."""
    i = 0
    while i < min(len(p1), len(p2)) and p1[i] == p2[i]:
        i += 1
    if i >= min(len(p1), len(p2)):
        return False
    a, b = p1[i], p2[i]
    if a[0] != b[0]:
        return False
    if a[1] == "list" and i > 0 and p1[i - 1][2] == "arms":
        return True
    return a[1] == "If" and {a[2], b[2]} == {"then", "else"}


def r12_linear_traversal(run, F):
    """"Compilation terminates" in any practical sense needs every stage to be linear in the nesting depth: a function on a
    recursion cycle of the stage code (scoper, typer, analyzers, linter, resolver, generator) that hands the *same* child of
    its node to the recursion at two call sites of one activation does 2^depth work (45 nested blocks are accepted today).
    For every such function: recursive call sites are keyed by (callee, field of the node the receiver is sliced back to,
    tuple position for split_first-like splits); two sites with the same key that are not alternatives of one match / if
    are a violation.  Top-level pre-passes (Declaration::analyze runs a function body three times) are not on a cycle."""
    from rules import origins
    C = F.lib
    g = mirq.callgraph(C)
    on_cycle = {}
    for comp in mirq.sccs(g):
        comp = list(comp)
        if len(comp) > 1 or (comp and comp[0] in g.get(comp[0], ())):
            fs = frozenset(comp)
            for n in comp:
                on_cycle[n] = fs
    nfun = nsites = 0
    for p, b in sorted(C.bodies.items()):
        if "hir" not in b or "{closure" in p or p not in on_cycle or not F.rel(b["file"]).startswith(STAGE_FILES):
            continue
        comp = on_cycle[p]
        nfun += 1
        sites = {}
        for n, path in _tree_paths(b["hir"]):
            if n.get("k") not in ("MethodCall", "Call"):
                continue
            c = hirq.callee(n) or hirq.callee_decl(n) or ""
            if c not in comp:
                continue
            recv = n.get("recv") or (n["a"][0] if n.get("a") else None)
            if recv is None:
                continue
            nsites += 1
            o = origins.origins(b["hir"], recv, b.get("params", ()))
            flds = sorted(set(k[1] for k in o if k[0] == "field") | set(k[2] for k in o if k[0] == "patfield"))
            # a receiver obtained by taking one element or one part out of the collection (pop, split_first, split_off ..)
            # denotes another part of the child than the collection itself
            part = tuple(sorted(set(str(k[1]).split("::")[-1] for k in o if k[0] == "call") & PART_TAKERS))
            pos = tuple(sorted(k[1] for k in o if k[0] == "tuplepos")) + part
            for f in flds:
                sites.setdefault((c, f, pos), []).append((n, path))
        for (c, f, pos), ss in sorted(sites.items(), key=lambda kv: str(kv[0])):
            groups = []
            for s1 in ss:
                for g1 in groups:
                    if all(not _exclusive(s1[1], x[1]) for x in g1):
                        g1.append(s1)
                        break
                else:
                    groups.append([s1])
            worst = max(groups, key=len)
            if len(ss) >= 2:
                run.ob("R12-LINEAR-TRAVERSAL", "%s|%s.%s" % (p, c.split(" as ")[0].split("::")[-1].strip("<>"), f), len(worst) < 2, F.where(b, worst[0][0]),
                       "%s is on a recursion cycle and passes its child `%s` to %s at %d call sites of one activation (lines %s): the work is %d^depth" % (
                           p, f, c, len(worst), sorted(x[0].get("l") for x in worst), len(worst)))
    run.ob("R12-LINEAR-TRAVERSAL", "scan", nfun >= 40 and nsites >= 150, "src/alpha", "%d functions on recursion cycles in the stage files, %d recursive call sites" % (nfun, nsites))


def r13_poison_dropped(run, F):
    """An ill-typed program is rejected *with a diagnostic* only if the error a typing helper returns stays in the tree.  In the
    typer, a match arm for `Err(..)` of an owned Poisonable (the scrutinee is a local or a call result, not a place inside
    the node, where the poison would stay) that ignores the payload and builds an unpoisoned AST node (Expression / Statement
    / Reference) loses the error: later stages see a well-formed looking node (`|x[0]|` with `x: i32` reached the generator
    and crashed it)."""
    AST = ("Expression::", "Statement::", "common::Reference", "Declaration::")
    arms = 0
    for p, b in sorted(F.lib.bodies.items()):
        if "hir" not in b or not F.rel(b["file"]).endswith("alpha/typer.rs"):
            continue
        for m in hirq.matches(b["hir"]):
            sc = hirq.unwrap_trivial(m["scrut"])
            while sc.get("k") == "AddrOf":
                sc = hirq.unwrap_trivial(sc["e"])
            in_place = sc.get("k") == "Field"
            for a in m["arms"]:
                errs = [x for alt in hirq.pat_alts(a["pat"]) for x in walk(alt) if x.get("k") == "TupleStruct" and str(x.get("res", "")).endswith("::Err")]
                # `Err(Poison::Poisoned)` names the marker of an error that is stored elsewhere: there is nothing to lose
                errs = [e for e in errs if not all(str(hirq.strip_ref(q).get("res") or hirq.strip_ref(q).get("ctor_of") or "").endswith("Poison::Poisoned")
                                                   for q in e.get("pats", [])) or not e.get("pats")]
                if not errs:
                    continue
                binds = [(nm, lid) for e in errs for nm, lid, _ in hirq.pat_bindings(e)]
                ignored = all(not hirq.uses_local(a["body"], lid) for nm, lid in binds)
                if not ignored:
                    continue
                arms += 1
                cons = [hirq.short(pp) for pp, _ in hirq.constructs(a["body"])]
                builds = [c for c in cons if c.startswith(AST) or any(t in c for t in AST)]
                poisoned = any("Poison" in c or c.endswith("::Err") or c == "Err" for c in cons)
                if builds and not poisoned and not in_place:
                    run.ob("R13-POISON-DROPPED", "%s|%s" % (p.split(" as ")[0].strip("<"), builds[0]), False, F.where(b, a),
                           "the Err(..) of `%s` is ignored and an unpoisoned %s is built: the diagnostic is lost and the node goes on to the resolver and generator" % (
                               hirq.local_name_of(sc) or sc.get("name") or sc.get("k"), builds[0]))
    run.ob("R13-POISON-DROPPED", "scan", arms >= 25, "src/alpha/typer.rs", "%d arms of the typer ignore the payload of an Err(..) (31 counted); none may drop an owned error and build a clean node" % arms)


def r14_location_guarded(run, F):
    """Expression::location() is unreachable!() for a poisoned expression (a recorded finding of R1).  In the analyzers, where
    an operand may have been poisoned by the typer or by the analyzer itself, a call `e.location()` on an expression whose
    type is examined in the same function (`match e.value_type()`) must sit inside an arm of that examination that has
    established a type (`Some(Ok(..))`), never before or beside it.  The two index checks (function_calls, constness) are
    siblings and must agree."""
    n = 0

    def with_anc(root):
        st = [(root, ())]
        while st:
            x, anc = st.pop()
            if isinstance(x, dict):
                yield x, anc
                for v in x.values():
                    if isinstance(v, (dict, list)):
                        st.append((v, anc + (x,)))
            elif isinstance(x, list):
                for y in x:
                    st.append((y, anc))
    for p, b in sorted(F.lib.bodies.items()):
        if "hir" not in b or not F.rel(b["file"]).startswith("src/alpha/analyzer/"):
            continue
        typed = {}      # lid -> match nodes over <lid>.value_type()
        for m in hirq.matches(b["hir"]):
            for x in walk(m["scrut"]):
                if x.get("k") == "MethodCall" and x.get("name") == "value_type" and "Expression" in (hirq.callee(x) or ""):
                    r = hirq.unwrap_trivial(x["recv"])
                    if r.get("k") == "Path" and r.get("rk") == "Local":
                        typed.setdefault(r.get("res"), []).append(m)
        for node, anc in with_anc(b["hir"]):
            if node.get("k") == "MethodCall" and (hirq.callee(node) or "") == "alpha::common::Expression::location":
                r = hirq.unwrap_trivial(node["recv"])
                name = r.get("res") if r.get("k") == "Path" else None
                if name not in typed:
                    continue
                n += 1
                guarded = False
                for m in typed[name]:
                    if not any(a is m for a in anc):
                        continue
                    for arm in m["arms"]:
                        if any(x is node for x in walk(arm["body"])):
                            pk = [hirq.pat_key(q) for alt in hirq.pat_alts(arm["pat"]) for q in walk(alt) if q.get("k") in ("TupleStruct", "Struct", "Path")]
                            guarded = any(k.endswith("::Ok") or k == "Ok" for k in pk)
                run.ob("R14-LOCATION-GUARDED", "%s|%s.location()" % (p.split(" as ")[0].strip("<").split("::")[-1] + "@" + F.rel(b["file"]).split("/")[-1], "operand"),
                       guarded, F.where(b, node),
                       "location() of an expression whose type this function examines must be called inside the arm that found a type "
                       "(Some(Ok(..))): on a poisoned operand it is unreachable!()")
    run.floor("R14-LOCATION-GUARDED", 3, "guarded location() calls in the analyzers (function_calls, constness)")


def r16_structures_forward_declared(run, F):
    """A structure type is looked up by name when another declaration mentions it (`LLVMGetTypeByName`), and a NULL type handed on
    to LLVM ends the compiler with a segmentation fault.  Structures of the same containment depth are generated in source order,
    so the user of `&Owner` may come before `struct Owner;`: every structure of a group is forward declared before the group is
    generated.  scoper::get_structure_name answers Some(name) for every Declaration::Structure -- no guard, no flag -- and the
    compiler forward declares each name it answers."""
    b = F.body("alpha::scoper::get_structure_name")
    ms = hirq.matches_on_type(F.lib, b["hir"], "common::Declaration", min_alts=4)
    run.require(len(ms) == 1, "get_structure_name: match on the declaration not found")
    arms = hirq.arm_for(ms[0], "Declaration::Structure")
    ok = len(arms) >= 1
    for a in arms:
        body = hirq.unwrap_trivial(a["body"])
        some = body.get("k") == "Call" and (hirq.callee(body) or "").endswith("::Some")
        ok = ok and some and a.get("guard") is None
    run.ob("R16-STRUCTURES-FORWARD-DECLARED", "get_structure_name", ok, F.where(b, arms[0] if arms else None),
           "every structure has a name to forward declare: the Structure arm(s) of get_structure_name answer Some(..) unconditionally (%d arm(s), guards: %s)" % (
               len(arms), [a.get("guard") is not None for a in arms]))
    cands = [bb for p, bb in F.lib.bodies.items() if p.startswith("alpha::Compiler::") and "hir" in bb and
             any((hirq.callee(c) or "").endswith("Generator::forward_declare_structure") for c in hirq.calls(bb["hir"]))]
    run.require(len(cands) >= 1, "no caller of Generator::forward_declare_structure in Compiler")
    uses = any(any((x.get("res") or "") == "alpha::scoper::get_structure_name" or (hirq.callee(x) or "") == "alpha::scoper::get_structure_name" for x in walk(bb["hir"])) for bb in cands)
    run.ob("R16-STRUCTURES-FORWARD-DECLARED", "forward declaration loop", uses, F.where(cands[0]),
           "the function that forward declares structures to the generator takes the names from get_structure_name")


def check(run):
    F = run.facts("B")
    # diagnostics planted in the later parts of a statement only surface if the resolver merges the errors of all parts (shared with C06.R7)
    from props import c06 as _c06
    _c06.r7_errors_merged(run, F)
    _c06.r8_combiners_keep_both(run, F)
    # the first-generation parser counts `&` in a u8 as well: the bound is checked inside the loop (shared with C15.R15)
    from props import c15 as _c15
    _c15.r15_counters_bounded_in_loop(run, F, part="/alpha/", floor=1)
    r14_location_guarded(run, F)
    r16_structures_forward_declared(run, F)
    # later stages assert well-formed types instead of diagnosing them: every type position must parse through the check (C11.R7)
    from props import c11 as _c11
    _c11.r7_wellformed_at_every_position(run, F)
    r12_linear_traversal(run, F)
    r13_poison_dropped(run, F)
    # builtins are expanded after typing and never re-checked: a literal whose type differs from the announced one aborts
    # the in-process verifier (shared with C03.R9)
    c03.r9_builtin_types(run, F)
    r1_inventory(run, F)
    r1b_phase(run, F)
    r2_unfinished(run, F)
    r3_depth(run, F)
    c03.r1_reset(run, F)
    r5_poisoned(run, F)
    r6_abort(run, F)
    r10b_default_diagnostic_handler(run, F)
    r7_args_covered(run, F)
    r8_cited_invariants(run, F)
    r9_resolve_before_fail(run, F)
    r11_type_walkers(run, F)
    # the constness analyzer is the only gate that keeps loads and calls out of constant initialisers, where the generator
    # would emit instructions without a basic block (segfault / broken module): shared with C10.R7
    from props import c10
    c10.r7_constness_visit(run, F)
