// pennefacts: a rustc_private driver that dumps the type-checked program
// (HIR with resolved paths and types, MIR control-flow graphs with resolved
// callees) of the `penne` lib and bin crates as JSON "facts".  It executes
// nothing of penne; it only runs rustc's front end up to analysis.
//
// Used as RUSTC_WORKSPACE_WRAPPER: argv = [driver, rustc-path, rustc args...].
// Output: $PENNEFACTS_OUT/<crate>-<lib|bin>.json (one write per process).
#![feature(rustc_private)]
#![allow(clippy::all)]

extern crate rustc_abi;
extern crate rustc_ast;
extern crate rustc_driver;
extern crate rustc_hir;
extern crate rustc_interface;
extern crate rustc_middle;
extern crate rustc_span;

mod json;
use json::J;

use rustc_driver::{Callbacks, Compilation};
use rustc_hir as hir;
use rustc_hir::def::{DefKind, Res};
use rustc_hir::def_id::{DefId, LocalDefId};
use rustc_interface::interface::Compiler;
use rustc_middle::mir;
use rustc_middle::ty::{self, Ty, TyCtxt};
use rustc_span::Span;
use std::collections::HashMap;

struct Facts {
    only_crate: String,
}

impl Callbacks for Facts {
    fn after_analysis<'tcx>(&mut self, _c: &Compiler, tcx: TyCtxt<'tcx>) -> Compilation {
        let name = tcx.crate_name(rustc_hir::def_id::LOCAL_CRATE).to_string();
        if name != self.only_crate {
            return Compilation::Continue;
        }
        let out_dir = match std::env::var("PENNEFACTS_OUT") {
            Ok(d) => d,
            Err(_) => return Compilation::Continue,
        };
        let is_bin = tcx
            .crate_types()
            .iter()
            .any(|t| matches!(t, rustc_session_crate_type::Executable));
        let kind = if is_bin { "bin" } else { "lib" };
        let mut cx = Cx {
            tcx,
            types: Vec::new(),
            type_ix: HashMap::new(),
        };
        let facts = cx.dump_crate(&name, kind);
        let mut s = String::with_capacity(64 << 20);
        facts.write(&mut s);
        let path = format!("{}/{}-{}.json", out_dir, name, kind);
        std::fs::write(&path, s).expect("pennefacts: cannot write facts file");
        Compilation::Continue
    }
}

// rustc_session is not linked directly; CrateType is re-exported through
// rustc_session::config, reach it via the interface crate's re-export.
mod rustc_session_crate_type {
    extern crate rustc_session;
    pub use rustc_session::config::CrateType::*;
}

struct Cx<'tcx> {
    tcx: TyCtxt<'tcx>,
    types: Vec<String>,
    type_ix: HashMap<String, usize>,
}

fn np<T>(f: impl FnOnce() -> T) -> T {
    rustc_middle::ty::print::with_no_trimmed_paths!(f())
}

impl<'tcx> Cx<'tcx> {
    fn path(&self, did: DefId) -> String {
        np(|| self.tcx.def_path_str(did))
    }

    fn ty(&mut self, t: Ty<'tcx>) -> J {
        let s = np(|| t.to_string());
        if let Some(&i) = self.type_ix.get(&s) {
            return J::I(i as i128);
        }
        let i = self.types.len();
        self.types.push(s.clone());
        self.type_ix.insert(s, i);
        J::I(i as i128)
    }

    fn resolve(
        &self,
        owner: LocalDefId,
        did: DefId,
        args: ty::GenericArgsRef<'tcx>,
    ) -> Option<ty::Instance<'tcx>> {
        use rustc_middle::ty::TypeVisitableExt;
        let tcx = self.tcx;
        if tcx.generics_of(did).count() != args.len() {
            return None;
        }
        if args.has_infer() || args.has_escaping_bound_vars() || args.has_non_region_placeholders() {
            return None;
        }
        if !matches!(tcx.def_kind(did), DefKind::Fn | DefKind::AssocFn) {
            return None;
        }
        let env = ty::TypingEnv::post_analysis(tcx, owner.to_def_id());
        match ty::Instance::try_resolve(tcx, env, did, args) {
            Ok(Some(i)) => Some(i),
            _ => None,
        }
    }

    fn loc(&self, span: Span) -> (String, usize) {
        let sp = span.source_callsite();
        let sm = self.tcx.sess.source_map();
        let pos = sm.lookup_char_pos(sp.lo());
        let file = match &pos.file.name {
            rustc_span::FileName::Real(r) => match r.local_path() {
                Some(p) => p.to_string_lossy().to_string(),
                None => format!("{:?}", pos.file.name),
            },
            other => format!("{:?}", other),
        };
        (file, pos.line)
    }

    fn line(&self, span: Span) -> J {
        J::I(self.loc(span).1 as i128)
    }

    fn macros(&self, span: Span) -> Option<String> {
        let mut names: Vec<String> = Vec::new();
        for ed in span.macro_backtrace() {
            let n = match ed.kind {
                rustc_span::ExpnKind::Macro(_, sym) => sym.to_string(),
                rustc_span::ExpnKind::Desugaring(k) => format!("desugar:{:?}", k),
                rustc_span::ExpnKind::AstPass(k) => format!("astpass:{:?}", k),
                _ => "other".to_string(),
            };
            if names.last() != Some(&n) {
                names.push(n);
            }
        }
        if names.is_empty() {
            None
        } else {
            Some(names.join("<"))
        }
    }

    fn snippet(&self, span: Span) -> String {
        let sm = self.tcx.sess.source_map();
        let mut s = sm
            .span_to_snippet(span.source_callsite())
            .unwrap_or_default();
        if s.len() > 600 {
            let mut end = 600;
            while !s.is_char_boundary(end) {
                end -= 1;
            }
            s.truncate(end);
        }
        s
    }

    // ------------------------------------------------------------------ crate

    fn dump_crate(&mut self, name: &str, kind: &str) -> J {
        let tcx = self.tcx;
        let mut adts = Vec::new();
        let mut consts = Vec::new();
        let mut impls = Vec::new();
        let items = tcx.hir_crate_items(());
        for id in items.free_items() {
            let did = id.owner_id.to_def_id();
            match tcx.def_kind(did) {
                DefKind::Enum | DefKind::Struct | DefKind::Union => {
                    adts.push(self.dump_adt(did));
                }
                DefKind::Const { .. } | DefKind::Static { .. } => {
                    consts.push(self.dump_const(did));
                }
                DefKind::Impl { .. } => {
                    let mut o = vec![
                        ("path", J::S(self.path(did))),
                        ("line", self.line(tcx.def_span(did))),
                        ("file", J::S(self.loc(tcx.def_span(did)).0)),
                    ];
                    let selfty = tcx.type_of(did).instantiate_identity().skip_norm_wip();
                    o.push(("self_ty", J::S(np(|| selfty.to_string()))));
                    if let Some(tr) = tcx.impl_opt_trait_ref(did) {
                        let tr = tr.instantiate_identity().skip_norm_wip();
                        o.push(("trait", J::S(self.path(tr.def_id))));
                    }
                    let mut ms = Vec::new();
                    for &m in tcx.associated_item_def_ids(did) {
                        ms.push(J::S(self.path(m)));
                    }
                    o.push(("items", J::A(ms)));
                    impls.push(J::O(o));
                }
                _ => {}
            }
        }
        // associated consts of impls
        for id in items.impl_items() {
            let did = id.owner_id.to_def_id();
            if matches!(tcx.def_kind(did), DefKind::AssocConst { .. }) {
                consts.push(self.dump_const(did));
            }
        }

        let mut bodies = Vec::new();
        for ldid in tcx.hir_body_owners() {
            let dk = tcx.def_kind(ldid);
            match dk {
                DefKind::Fn | DefKind::AssocFn => {
                    bodies.push(self.dump_body(ldid, "fn", true, true));
                }
                DefKind::Closure => {
                    // HIR is nested in the parent; MIR separately
                    bodies.push(self.dump_body(ldid, "closure", false, true));
                }
                DefKind::Const { .. } | DefKind::Static { .. } | DefKind::AssocConst { .. } => {
                    bodies.push(self.dump_body(ldid, "const", true, false));
                }
                _ => {}
            }
        }
        let types = std::mem::take(&mut self.types);
        J::O(vec![
            ("crate", J::S(name.to_string())),
            ("kind", J::S(kind.to_string())),
            ("adts", J::A(adts)),
            ("consts", J::A(consts)),
            ("impls", J::A(impls)),
            ("bodies", J::A(bodies)),
            ("types", J::A(types.into_iter().map(J::S).collect())),
        ])
    }

    fn dump_adt(&mut self, did: DefId) -> J {
        let tcx = self.tcx;
        let adt = tcx.adt_def(did);
        let (file, line) = self.loc(tcx.def_span(did));
        let mut variants = Vec::new();
        for v in adt.variants() {
            let mut fields = Vec::new();
            for f in v.fields.iter() {
                let fty = tcx.type_of(f.did).instantiate_identity().skip_norm_wip();
                fields.push(J::O(vec![
                    ("name", J::S(f.name.to_string())),
                    ("ty", J::S(np(|| fty.to_string()))),
                    ("pub", J::B(f.vis.is_public())),
                ]));
            }
            variants.push(J::O(vec![
                ("name", J::S(v.name.to_string())),
                ("path", J::S(self.path(v.def_id))),
                ("ctor", J::S(format!("{:?}", v.ctor_kind()))),
                ("fields", J::A(fields)),
            ]));
        }
        J::O(vec![
            ("path", J::S(self.path(did))),
            (
                "kind",
                J::S(if adt.is_enum() {
                    "enum"
                } else if adt.is_union() {
                    "union"
                } else {
                    "struct"
                }
                .to_string()),
            ),
            ("file", J::S(file)),
            ("line", J::I(line as i128)),
            ("pub", J::B(tcx.visibility(did).is_public())),
            ("variants", J::A(variants)),
        ])
    }

    fn dump_const(&mut self, did: DefId) -> J {
        let tcx = self.tcx;
        let (file, line) = self.loc(tcx.def_span(did));
        let t = tcx.type_of(did).instantiate_identity().skip_norm_wip();
        let mut o = vec![
            ("path", J::S(self.path(did))),
            ("file", J::S(file)),
            ("line", J::I(line as i128)),
            ("ty", J::S(np(|| t.to_string()))),
        ];
        if matches!(tcx.def_kind(did), DefKind::Const { .. } | DefKind::AssocConst { .. })
            && tcx.generics_of(did).is_empty()
            && (t.is_integral() || t.is_bool() || t.is_char())
        {
            if let Ok(v) = tcx.const_eval_poly(did) {
                if let Some(si) = v.try_to_scalar_int() {
                    let size = si.size();
                    let val: i128 = if t.is_signed() {
                        si.to_int(size)
                    } else {
                        si.to_uint(size) as i128
                    };
                    if t.is_signed() || si.to_uint(size) <= i128::MAX as u128 {
                        o.push(("value", J::I(val)));
                    } else {
                        o.push(("value_str", J::S(si.to_uint(size).to_string())));
                    }
                }
            }
        }
        J::O(o)
    }

    // ------------------------------------------------------------------ bodies

    fn dump_body(&mut self, ldid: LocalDefId, kind: &str, with_hir: bool, with_mir: bool) -> J {
        let tcx = self.tcx;
        let did = ldid.to_def_id();
        let (file, line) = self.loc(tcx.def_span(did));
        let mut o = vec![
            ("path", J::S(self.path(did))),
            ("kind", J::S(kind.to_string())),
            ("file", J::S(file)),
            ("line", J::I(line as i128)),
        ];
        if matches!(tcx.def_kind(did), DefKind::Fn | DefKind::AssocFn) {
            o.push(("pub", J::B(tcx.visibility(did).is_public())));
            let sig = tcx.fn_sig(did).instantiate_identity().skip_norm_wip();
            o.push((
                "unsafe",
                J::B(sig.safety() == hir::Safety::Unsafe),
            ));
            let sig = sig.skip_binder();
            let ins: Vec<J> = sig
                .inputs()
                .iter()
                .map(|t| J::S(np(|| t.to_string())))
                .collect();
            o.push(("inputs", J::A(ins)));
            o.push(("output", J::S(np(|| sig.output().to_string()))));
            if let Some(imp) = tcx.impl_of_assoc(did) {
                o.push(("impl", J::S(self.path(imp))));
                let selfty = tcx.type_of(imp).instantiate_identity().skip_norm_wip();
                o.push(("impl_self", J::S(np(|| selfty.to_string()))));
                if let Some(tr) = tcx.impl_opt_trait_ref(imp) {
                    let tr = tr.instantiate_identity().skip_norm_wip();
                    o.push(("impl_trait", J::S(self.path(tr.def_id))));
                }
            }
        }
        if with_hir {
            let body = tcx.hir_body_owned_by(ldid);
            let tr = tcx.typeck(ldid);
            let mut w = HirW {
                cx: self,
                tr,
                owner: ldid,
            };
            let mut params = Vec::new();
            for p in body.params {
                params.push(w.pat(p.pat));
            }
            let e = w.expr(body.value, None);
            o.push(("params", J::A(params)));
            o.push(("hir", e));
        }
        if with_mir && tcx.is_mir_available(did) {
            let body = tcx.optimized_mir(did);
            o.push(("mir", self.dump_mir(ldid, body)));
        }
        J::O(o)
    }

    // ------------------------------------------------------------------ MIR

    fn dump_mir(&mut self, owner: LocalDefId, body: &mir::Body<'tcx>) -> J {
        let tcx = self.tcx;
        // locals
        let mut names: HashMap<usize, String> = HashMap::new();
        for vdi in &body.var_debug_info {
            if let mir::VarDebugInfoContents::Place(p) = &vdi.value {
                if p.projection.is_empty() {
                    names
                        .entry(p.local.as_usize())
                        .or_insert_with(|| vdi.name.to_string());
                }
            }
        }
        let mut locals = Vec::new();
        for (l, d) in body.local_decls.iter_enumerated() {
            let mut lo = vec![("ty", self.ty(d.ty))];
            if let Some(n) = names.get(&l.as_usize()) {
                lo.push(("name", J::S(n.clone())));
            }
            lo.push(("l", self.line(d.source_info.span)));
            locals.push(J::O(lo));
        }
        let mut blocks = Vec::new();
        for (_bb, data) in body.basic_blocks.iter_enumerated() {
            let mut stmts = Vec::new();
            for st in &data.statements {
                if let Some(s) = self.mir_stmt(body, st) {
                    stmts.push(s);
                }
            }
            let term = self.mir_term(owner, body, data.terminator());
            let mut bo = vec![("s", J::A(stmts)), ("t", term)];
            if data.is_cleanup {
                bo.push(("cleanup", J::B(true)));
            }
            blocks.push(J::O(bo));
        }
        let _ = tcx;
        J::O(vec![
            ("argc", J::I(body.arg_count as i128)),
            ("locals", J::A(locals)),
            ("blocks", J::A(blocks)),
        ])
    }

    fn mir_place(&mut self, body: &mir::Body<'tcx>, p: &mir::Place<'tcx>) -> J {
        let tcx = self.tcx;
        if p.projection.is_empty() {
            return J::I(p.local.as_usize() as i128);
        }
        let mut proj = Vec::new();
        let mut pty = mir::PlaceTy::from_ty(body.local_decls[p.local].ty);
        for elem in p.projection.iter() {
            match elem {
                mir::ProjectionElem::Deref => proj.push(J::S("*".into())),
                mir::ProjectionElem::Field(f, _) => {
                    let mut name = format!("{}", f.as_usize());
                    let mut base = String::new();
                    if let ty::Adt(adt, _) = pty.ty.kind() {
                        let vi = pty.variant_index.unwrap_or(rustc_abi::FIRST_VARIANT);
                        if adt.is_enum() || adt.is_struct() || adt.is_union() {
                            if let Some(v) = adt.variants().get(vi) {
                                if let Some(fd) = v.fields.get(f) {
                                    name = fd.name.to_string();
                                }
                                base = if adt.is_enum() {
                                    format!("{}::{}", self.path(adt.did()), v.name)
                                } else {
                                    self.path(adt.did())
                                };
                            }
                        }
                    }
                    proj.push(J::A(vec![J::S("f".into()), J::S(name), J::S(base)]));
                }
                mir::ProjectionElem::Index(l) => {
                    proj.push(J::A(vec![J::S("i".into()), J::I(l.as_usize() as i128)]));
                }
                mir::ProjectionElem::ConstantIndex {
                    offset, from_end, ..
                } => {
                    proj.push(J::A(vec![
                        J::S("ci".into()),
                        J::I(offset as i128),
                        J::B(from_end),
                    ]));
                }
                mir::ProjectionElem::Subslice { from, to, from_end } => {
                    proj.push(J::A(vec![
                        J::S("ss".into()),
                        J::I(from as i128),
                        J::I(to as i128),
                        J::B(from_end),
                    ]));
                }
                mir::ProjectionElem::Downcast(name, _) => {
                    proj.push(J::A(vec![
                        J::S("v".into()),
                        J::S(name.map(|s| s.to_string()).unwrap_or_default()),
                    ]));
                }
                _ => proj.push(J::S("?".into())),
            }
            pty = pty.projection_ty(tcx, elem);
        }
        J::O(vec![
            ("l", J::I(p.local.as_usize() as i128)),
            ("p", J::A(proj)),
        ])
    }

    fn mir_const(&mut self, c: &mir::ConstOperand<'tcx>) -> J {
        let tcx = self.tcx;
        let t = c.const_.ty();
        match t.kind() {
            ty::FnDef(did, _) => {
                return J::O(vec![("fn", J::S(self.path(*did)))]);
            }
            _ => {}
        }
        let mut o = vec![("ty", self.ty(t))];
        // scalar values
        let mut done = false;
        if t.is_integral() || t.is_bool() || t.is_char() {
            if let Some(si) = c.const_.try_to_scalar_int() {
                let size = si.size();
                if t.is_signed() {
                    o.push(("c", J::I(si.to_int(size))));
                } else {
                    let u = si.to_uint(size);
                    if u <= i128::MAX as u128 {
                        o.push(("c", J::I(u as i128)));
                    } else {
                        o.push(("c", J::S(u.to_string())));
                    }
                }
                done = true;
            }
        }
        if !done {
            let s = np(|| format!("{}", c.const_));
            let mut s = s;
            if s.len() > 300 {
                let mut end = 300;
                while !s.is_char_boundary(end) {
                    end -= 1;
                }
                s.truncate(end);
            }
            o.push(("c", J::S(s)));
            // unevaluated consts: name the item
            if let mir::Const::Unevaluated(u, _) = c.const_ {
                o.push(("item", J::S(self.path(u.def))));
            }
        }
        let _ = tcx;
        J::O(o)
    }

    fn mir_op(&mut self, body: &mir::Body<'tcx>, op: &mir::Operand<'tcx>) -> J {
        match op {
            mir::Operand::Copy(p) => J::O(vec![("cp", self.mir_place(body, p))]),
            mir::Operand::Move(p) => J::O(vec![("mv", self.mir_place(body, p))]),
            mir::Operand::Constant(c) => self.mir_const(c),
            #[allow(unreachable_patterns)]
            _ => J::S("?".into()),
        }
    }

    fn mir_rvalue(&mut self, body: &mir::Body<'tcx>, rv: &mir::Rvalue<'tcx>) -> J {
        use mir::Rvalue::*;
        match rv {
            Use(op, ..) => J::O(vec![("k", J::S("Use".into())), ("a", self.mir_op(body, op))]),
            Repeat(op, _) => J::O(vec![
                ("k", J::S("Repeat".into())),
                ("a", self.mir_op(body, op)),
            ]),
            Ref(_, bk, p) => J::O(vec![
                ("k", J::S("Ref".into())),
                ("mut", J::B(matches!(bk, mir::BorrowKind::Mut { .. }))),
                ("p", self.mir_place(body, p)),
            ]),
            RawPtr(_, p) => J::O(vec![
                ("k", J::S("RawPtr".into())),
                ("p", self.mir_place(body, p)),
            ]),
            Cast(kind, op, t) => J::O(vec![
                ("k", J::S("Cast".into())),
                ("ck", J::S(format!("{:?}", kind))),
                ("a", self.mir_op(body, op)),
                ("to", self.ty(*t)),
            ]),
            BinaryOp(op, ab) => {
                let (a, b) = &**ab;
                J::O(vec![
                    ("k", J::S("Bin".into())),
                    ("op", J::S(format!("{:?}", op))),
                    ("a", self.mir_op(body, a)),
                    ("b", self.mir_op(body, b)),
                ])
            }
            UnaryOp(op, a) => J::O(vec![
                ("k", J::S("Un".into())),
                ("op", J::S(format!("{:?}", op))),
                ("a", self.mir_op(body, a)),
            ]),
            Discriminant(p) => J::O(vec![
                ("k", J::S("Discr".into())),
                ("p", self.mir_place(body, p)),
            ]),
            Aggregate(kind, ops) => {
                let mut o = vec![("k", J::S("Agg".into()))];
                match &**kind {
                    mir::AggregateKind::Adt(did, vi, _, _, _) => {
                        let adt = self.tcx.adt_def(*did);
                        let v = adt.variant(*vi);
                        o.push(("adt", J::S(self.path(*did))));
                        if adt.is_enum() {
                            o.push(("variant", J::S(v.name.to_string())));
                        }
                        let fnames: Vec<J> =
                            v.fields.iter().map(|f| J::S(f.name.to_string())).collect();
                        o.push(("fields", J::A(fnames)));
                    }
                    mir::AggregateKind::Closure(did, _) => {
                        o.push(("closure", J::S(self.path(*did))));
                    }
                    mir::AggregateKind::Tuple => o.push(("tuple", J::B(true))),
                    mir::AggregateKind::Array(_) => o.push(("array", J::B(true))),
                    other => o.push(("other", J::S(format!("{:?}", other)))),
                }
                let mut v = Vec::new();
                for op in ops.iter() {
                    v.push(self.mir_op(body, op));
                }
                o.push(("ops", J::A(v)));
                J::O(o)
            }
            CopyForDeref(p) => J::O(vec![
                ("k", J::S("Use".into())),
                ("a", J::O(vec![("cp", self.mir_place(body, p))])),
            ]),
            other => {
                let mut s = format!("{:?}", other);
                if s.len() > 200 {
                    s.truncate(200);
                }
                J::O(vec![("k", J::S("Other".into())), ("dbg", J::S(s))])
            }
        }
    }

    fn mir_stmt(&mut self, body: &mir::Body<'tcx>, st: &mir::Statement<'tcx>) -> Option<J> {
        match &st.kind {
            mir::StatementKind::Assign(b) => {
                let (place, rv) = &**b;
                let mut o = vec![
                    ("d", self.mir_place(body, place)),
                    ("r", self.mir_rvalue(body, rv)),
                    ("l", self.line(st.source_info.span)),
                ];
                if let Some(m) = self.macros(st.source_info.span) {
                    o.push(("m", J::S(m)));
                }
                Some(J::O(o))
            }
            mir::StatementKind::SetDiscriminant {
                place,
                variant_index,
            } => Some(J::O(vec![
                ("d", self.mir_place(body, place)),
                (
                    "r",
                    J::O(vec![
                        ("k", J::S("SetDiscr".into())),
                        ("v", J::I(variant_index.as_usize() as i128)),
                    ]),
                ),
                ("l", self.line(st.source_info.span)),
            ])),
            _ => None,
        }
    }

    fn mir_term(
        &mut self,
        owner: LocalDefId,
        body: &mir::Body<'tcx>,
        term: &mir::Terminator<'tcx>,
    ) -> J {
        use mir::TerminatorKind::*;
        let tcx = self.tcx;
        let mut o: Vec<(&'static str, J)> = Vec::new();
        let span = term.source_info.span;
        o.push(("l", self.line(span)));
        if let Some(m) = self.macros(span) {
            o.push(("m", J::S(m)));
        }
        fn unwind_target(u: &mir::UnwindAction) -> J {
            match u {
                mir::UnwindAction::Cleanup(bb) => J::I(bb.as_usize() as i128),
                _ => J::N,
            }
        }
        match &term.kind {
            Goto { target } => {
                o.push(("k", J::S("Goto".into())));
                o.push(("to", J::I(target.as_usize() as i128)));
            }
            SwitchInt { discr, targets } => {
                o.push(("k", J::S("Switch".into())));
                o.push(("on", self.mir_op(body, discr)));
                let mut ts = Vec::new();
                for (v, bb) in targets.iter() {
                    let vj = if v <= i128::MAX as u128 {
                        J::I(v as i128)
                    } else {
                        J::S(v.to_string())
                    };
                    ts.push(J::A(vec![vj, J::I(bb.as_usize() as i128)]));
                }
                o.push(("targets", J::A(ts)));
                o.push(("otherwise", J::I(targets.otherwise().as_usize() as i128)));
            }
            Return => o.push(("k", J::S("Return".into()))),
            Unreachable => o.push(("k", J::S("Unreachable".into()))),
            UnwindResume => o.push(("k", J::S("Resume".into()))),
            UnwindTerminate(_) => o.push(("k", J::S("Terminate".into()))),
            Drop {
                place,
                target,
                unwind,
                ..
            } => {
                o.push(("k", J::S("Drop".into())));
                o.push(("p", self.mir_place(body, place)));
                o.push(("to", J::I(target.as_usize() as i128)));
                o.push(("unwind", unwind_target(unwind)));
            }
            Call {
                func,
                args,
                destination,
                target,
                unwind,
                fn_span,
                ..
            } => {
                o.push(("k", J::S("Call".into())));
                let fty = func.ty(body, tcx);
                match fty.kind() {
                    ty::FnDef(did, gargs) => {
                        o.push(("f", J::S(self.path(*did))));
                        let gs = np(|| {
                            gargs
                                .iter()
                                .map(|a| a.to_string())
                                .collect::<Vec<_>>()
                                .join(", ")
                        });
                        if !gs.is_empty() {
                            o.push(("g", J::S(gs)));
                        }
                        if let Some(inst) = self.resolve(owner, *did, gargs) {
                            let idid = inst.def_id();
                            if idid != *did {
                                o.push(("inst", J::S(self.path(idid))));
                            }
                            o.push(("ik", J::S(instance_kind(&inst))));
                        }
                    }
                    _ => {
                        o.push(("fop", self.mir_op(body, func)));
                        o.push(("fty", self.ty(fty)));
                    }
                }
                let mut av = Vec::new();
                for a in args.iter() {
                    av.push(self.mir_op(body, &a.node));
                }
                o.push(("args", J::A(av)));
                o.push(("dest", self.mir_place(body, destination)));
                o.push((
                    "to",
                    match target {
                        Some(t) => J::I(t.as_usize() as i128),
                        None => J::N,
                    },
                ));
                o.push(("unwind", unwind_target(unwind)));
                o.push(("fl", self.line(*fn_span)));
            }
            Assert {
                cond,
                expected,
                msg,
                target,
                unwind,
            } => {
                o.push(("k", J::S("Assert".into())));
                o.push(("cond", self.mir_op(body, cond)));
                o.push(("expected", J::B(*expected)));
                let mut s = format!("{:?}", msg);
                if s.len() > 300 {
                    s.truncate(300);
                }
                o.push(("msg", J::S(s)));
                let kind = match &**msg {
                    mir::AssertKind::BoundsCheck { .. } => "BoundsCheck".to_string(),
                    mir::AssertKind::Overflow(op, ..) => format!("Overflow:{:?}", op),
                    mir::AssertKind::OverflowNeg(..) => "OverflowNeg".to_string(),
                    mir::AssertKind::DivisionByZero(..) => "DivisionByZero".to_string(),
                    mir::AssertKind::RemainderByZero(..) => "RemainderByZero".to_string(),
                    other => {
                        let d = format!("{:?}", other);
                        d.split('(').next().unwrap_or("").to_string()
                    }
                };
                o.push(("ak", J::S(kind)));
                // operand types of the assert message
                if let mir::AssertKind::Overflow(_, a, _) = &**msg {
                    let t = a.ty(body, tcx);
                    o.push(("aty", J::S(np(|| t.to_string()))));
                }
                o.push(("to", J::I(target.as_usize() as i128)));
                o.push(("unwind", unwind_target(unwind)));
            }
            FalseEdge { real_target, .. } => {
                o.push(("k", J::S("Goto".into())));
                o.push(("to", J::I(real_target.as_usize() as i128)));
            }
            FalseUnwind { real_target, .. } => {
                o.push(("k", J::S("Goto".into())));
                o.push(("to", J::I(real_target.as_usize() as i128)));
            }
            other => {
                o.push(("k", J::S("Other".into())));
                let mut s = format!("{:?}", other);
                if s.len() > 200 {
                    s.truncate(200);
                }
                o.push(("dbg", J::S(s)));
            }
        }
        J::O(o)
    }
}

fn instance_kind(inst: &ty::Instance<'_>) -> String {
    let d = format!("{:?}", inst.def);
    d.split('(').next().unwrap_or("").to_string()
}

// ---------------------------------------------------------------------- HIR

struct HirW<'a, 'tcx> {
    cx: &'a mut Cx<'tcx>,
    tr: &'tcx ty::TypeckResults<'tcx>,
    owner: LocalDefId,
}

impl<'a, 'tcx> HirW<'a, 'tcx> {
    fn res(&mut self, res: Res) -> Vec<(&'static str, J)> {
        match res {
            Res::Local(hid) => {
                let name = self.cx.tcx.hir_name(hid).to_string();
                vec![
                    ("rk", J::S("Local".into())),
                    ("res", J::S(name)),
                    ("lid", J::I(hid.local_id.as_u32() as i128)),
                ]
            }
            Res::Def(dk, did) => {
                let mut v = vec![
                    ("rk", J::S(format!("{:?}", dk))),
                    ("res", J::S(self.cx.path(did))),
                ];
                // constructor -> also the variant / struct path
                if let DefKind::Ctor(..) = dk {
                    let parent = self.cx.tcx.parent(did);
                    v.push(("ctor_of", J::S(self.cx.path(parent))));
                }
                v
            }
            Res::SelfCtor(did) => vec![
                ("rk", J::S("SelfCtor".into())),
                ("res", J::S(self.cx.path(did))),
            ],
            Res::SelfTyAlias { alias_to, .. } => vec![
                ("rk", J::S("SelfTy".into())),
                ("res", J::S(self.cx.path(alias_to))),
            ],
            other => vec![("rk", J::S(format!("{:?}", other)))],
        }
    }

    fn qpath_res(&mut self, qp: &hir::QPath<'tcx>, id: hir::HirId) -> Vec<(&'static str, J)> {
        let r = self.tr.qpath_res(qp, id);
        self.res(r)
    }

    fn variant_of_struct_expr(&mut self, e: &hir::Expr<'tcx>, qp: &hir::QPath<'tcx>) -> String {
        let r = self.tr.qpath_res(qp, e.hir_id);
        match r {
            Res::Def(DefKind::Variant, did) | Res::Def(DefKind::Struct, did) => self.cx.path(did),
            Res::Def(_, did) => self.cx.path(did),
            _ => {
                // Self { .. } or alias: fall back to the expression type
                let t = self.tr.expr_ty(e);
                np(|| t.to_string())
            }
        }
    }

    fn lit(&mut self, lit: &hir::Lit, negated: bool) -> Vec<(&'static str, J)> {
        use rustc_ast::LitKind::*;
        let mut o = Vec::new();
        match &lit.node {
            Str(s, _) => {
                o.push(("lk", J::S("str".into())));
                o.push(("v", J::S(s.to_string())));
            }
            ByteStr(b, _) => {
                o.push(("lk", J::S("bytes".into())));
                o.push((
                    "v",
                    J::S(String::from_utf8_lossy(b.as_byte_str()).to_string()),
                ));
            }
            Byte(b) => {
                o.push(("lk", J::S("byte".into())));
                o.push(("v", J::I(*b as i128)));
            }
            Char(c) => {
                o.push(("lk", J::S("char".into())));
                o.push(("v", J::I(*c as u32 as i128)));
            }
            Int(n, _) => {
                o.push(("lk", J::S("int".into())));
                let u: u128 = n.get();
                if u <= i128::MAX as u128 {
                    let v = u as i128;
                    o.push(("v", J::I(if negated { -v } else { v })));
                } else {
                    o.push(("v", J::S(u.to_string())));
                }
            }
            Bool(b) => {
                o.push(("lk", J::S("bool".into())));
                o.push(("v", J::B(*b)));
            }
            other => {
                o.push(("lk", J::S("other".into())));
                o.push(("v", J::S(format!("{:?}", other))));
            }
        }
        o
    }

    fn pat_expr(&mut self, pe: &hir::PatExpr<'tcx>) -> J {
        let mut o: Vec<(&'static str, J)> = Vec::new();
        match &pe.kind {
            hir::PatExprKind::Lit { lit, negated } => {
                o.push(("k", J::S("Lit".into())));
                o.push(("inpat", J::B(true)));
                o.extend(self.lit(lit, *negated));
            }
            hir::PatExprKind::Path(qp) => {
                o.push(("k", J::S("Path".into())));
                o.push(("inpat", J::B(true)));
                let r = self.qpath_res(qp, pe.hir_id);
                o.extend(r);
            }
            #[allow(unreachable_patterns)]
            _ => o.push(("k", J::S("ConstBlock".into()))),
        }
        J::O(o)
    }

    fn pat(&mut self, p: &hir::Pat<'tcx>) -> J {
        use hir::PatKind::*;
        let mut o: Vec<(&'static str, J)> = Vec::new();
        match &p.kind {
            Wild => o.push(("k", J::S("Wild".into()))),
            Binding(mode, hid, ident, sub) => {
                o.push(("k", J::S("Bind".into())));
                o.push(("name", J::S(ident.to_string())));
                o.push(("lid", J::I(hid.local_id.as_u32() as i128)));
                o.push(("mode", J::S(format!("{:?}", mode))));
                let t = self.tr.node_type(*hid);
                o.push(("t", self.cx.ty(t)));
                if let Some(s) = sub {
                    o.push(("sub", self.pat(s)));
                }
            }
            Struct(qp, fields, rest) => {
                o.push(("k", J::S("Struct".into())));
                let r = self.qpath_res(qp, p.hir_id);
                o.extend(r);
                let mut fs = Vec::new();
                for f in fields.iter() {
                    fs.push(J::O(vec![
                        ("name", J::S(f.ident.to_string())),
                        ("p", self.pat(f.pat)),
                    ]));
                }
                o.push(("fields", J::A(fs)));
                let has_rest = format!("{:?}", rest);
                o.push((
                    "rest",
                    J::B(!(has_rest == "None" || has_rest == "false")),
                ));
            }
            TupleStruct(qp, pats, dd) => {
                o.push(("k", J::S("TupleStruct".into())));
                let r = self.qpath_res(qp, p.hir_id);
                o.extend(r);
                o.push(("pats", J::A(pats.iter().map(|x| self.pat(x)).collect())));
                if let Some(pos) = dd.as_opt_usize() {
                    o.push(("ddpos", J::I(pos as i128)));
                }
            }
            Or(pats) => {
                o.push(("k", J::S("Or".into())));
                o.push(("pats", J::A(pats.iter().map(|x| self.pat(x)).collect())));
            }
            Tuple(pats, dd) => {
                o.push(("k", J::S("Tuple".into())));
                o.push(("pats", J::A(pats.iter().map(|x| self.pat(x)).collect())));
                if let Some(pos) = dd.as_opt_usize() {
                    o.push(("ddpos", J::I(pos as i128)));
                }
            }
            Box(x) => {
                o.push(("k", J::S("Box".into())));
                o.push(("p", self.pat(x)));
            }
            Deref(x) => {
                o.push(("k", J::S("Deref".into())));
                o.push(("p", self.pat(x)));
            }
            Ref(x, ..) => {
                o.push(("k", J::S("Ref".into())));
                o.push(("p", self.pat(x)));
            }
            Expr(pe) => {
                return self.pat_expr(pe);
            }
            Guard(x, e) => {
                o.push(("k", J::S("Guard".into())));
                o.push(("p", self.pat(x)));
                o.push(("e", self.expr(e, None)));
            }
            Range(lo, hi, end) => {
                o.push(("k", J::S("Range".into())));
                if let Some(lo) = lo {
                    o.push(("lo", self.pat_expr(lo)));
                }
                if let Some(hi) = hi {
                    o.push(("hi", self.pat_expr(hi)));
                }
                o.push(("end", J::S(format!("{:?}", end))));
            }
            Slice(b, s, a) => {
                o.push(("k", J::S("Slice".into())));
                o.push(("before", J::A(b.iter().map(|x| self.pat(x)).collect())));
                if let Some(s) = s {
                    o.push(("slice", self.pat(s)));
                }
                o.push(("after", J::A(a.iter().map(|x| self.pat(x)).collect())));
            }
            Never => o.push(("k", J::S("Never".into()))),
            other => {
                let d = format!("{:?}", other);
                o.push(("k", J::S("Other".into())));
                o.push((
                    "dbg",
                    J::S(d.split(|c| c == '(' || c == ' ').next().unwrap_or("").into()),
                ));
            }
        }
        o.push(("l", self.cx.line(p.span)));
        J::O(o)
    }

    fn block(&mut self, b: &hir::Block<'tcx>, parent_cs: Option<Span>) -> J {
        let mut o: Vec<(&'static str, J)> = vec![("k", J::S("Block".into()))];
        if let hir::BlockCheckMode::UnsafeBlock(src) = b.rules {
            o.push(("unsafe", J::S(format!("{:?}", src))));
        }
        let mut stmts = Vec::new();
        for s in b.stmts.iter() {
            match &s.kind {
                hir::StmtKind::Let(l) => {
                    let mut lo = vec![("k", J::S("Let".into())), ("pat", self.pat(l.pat))];
                    if let Some(i) = l.init {
                        lo.push(("init", self.expr(i, parent_cs)));
                    }
                    if let Some(e) = l.els {
                        lo.push(("els", self.block(e, parent_cs)));
                    }
                    lo.push(("l", self.cx.line(s.span)));
                    stmts.push(J::O(lo));
                }
                hir::StmtKind::Expr(e) => stmts.push(self.expr(e, parent_cs)),
                hir::StmtKind::Semi(e) => {
                    let mut j = self.expr(e, parent_cs);
                    if let J::O(ref mut v) = j {
                        v.push(("semi", J::B(true)));
                    }
                    stmts.push(j);
                }
                hir::StmtKind::Item(_) => {}
            }
        }
        o.push(("stmts", J::A(stmts)));
        if let Some(e) = b.expr {
            o.push(("e", self.expr(e, parent_cs)));
        }
        o.push(("l", self.cx.line(b.span)));
        J::O(o)
    }

    fn resolve_method(&mut self, e: &hir::Expr<'tcx>) -> Vec<(&'static str, J)> {
        let mut o = Vec::new();
        if let Some(did) = self.tr.type_dependent_def_id(e.hir_id) {
            o.push(("def", J::S(self.cx.path(did))));
            let args = self.tr.node_args(e.hir_id);
            if let Some(inst) = self.cx.resolve(self.owner, did, args) {
                let idid = inst.def_id();
                if idid != did {
                    o.push(("inst", J::S(self.cx.path(idid))));
                }
            }
        }
        o
    }

    fn expr(&mut self, e: &hir::Expr<'tcx>, parent_cs: Option<Span>) -> J {
        use hir::ExprKind::*;
        // transparent wrappers
        if let DropTemps(inner) = &e.kind {
            return self.expr(inner, parent_cs);
        }
        let mut o: Vec<(&'static str, J)> = Vec::new();
        let t = self.tr.expr_ty(e);
        let adj = self.tr.expr_ty_adjusted(e);
        // macro info
        let mut my_cs = None;
        if e.span.from_expansion() {
            if let Some(m) = self.cx.macros(e.span) {
                o.push(("m", J::S(m)));
            }
            let cs = e.span.source_callsite();
            my_cs = Some(cs);
            if parent_cs != Some(cs) {
                o.push(("src", J::S(self.cx.snippet(e.span))));
            }
        }
        let cs = my_cs;
        match &e.kind {
            Lit(l) => {
                o.push(("k", J::S("Lit".into())));
                o.extend(self.lit(l, false));
            }
            Path(qp) => {
                o.push(("k", J::S("Path".into())));
                let r = self.qpath_res(qp, e.hir_id);
                o.extend(r);
            }
            Call(f, args) => {
                o.push(("k", J::S("Call".into())));
                // resolved callee if a path
                if let Path(qp) = &f.kind {
                    let r = self.tr.qpath_res(qp, f.hir_id);
                    if let Res::Def(dk, did) = r {
                        o.push(("callee", J::S(self.cx.path(did))));
                        o.push(("ck", J::S(format!("{:?}", dk))));
                        if let DefKind::Ctor(..) = dk {
                            let parent = self.cx.tcx.parent(did);
                            o.push(("ctor_of", J::S(self.cx.path(parent))));
                        }
                        if matches!(dk, DefKind::Fn | DefKind::AssocFn) {
                            let gargs = self.tr.node_args(f.hir_id);
                            if let Some(inst) = self.cx.resolve(self.owner, did, gargs) {
                                if inst.def_id() != did {
                                    o.push(("inst", J::S(self.cx.path(inst.def_id()))));
                                }
                            }
                        }
                    } else if let Res::SelfCtor(did) = r {
                        o.push(("callee", J::S(self.cx.path(did))));
                        o.push(("ck", J::S("SelfCtor".into())));
                    }
                }
                o.push(("f", self.expr(f, cs)));
                o.push(("a", J::A(args.iter().map(|a| self.expr(a, cs)).collect())));
            }
            MethodCall(seg, recv, args, _) => {
                o.push(("k", J::S("MethodCall".into())));
                o.push(("name", J::S(seg.ident.to_string())));
                let r = self.resolve_method(e);
                o.extend(r);
                o.push(("recv", self.expr(recv, cs)));
                o.push(("a", J::A(args.iter().map(|a| self.expr(a, cs)).collect())));
            }
            Struct(qp, fields, tail) => {
                o.push(("k", J::S("Struct".into())));
                let p = self.variant_of_struct_expr(e, qp);
                o.push(("path", J::S(p)));
                let mut fs = Vec::new();
                for f in fields.iter() {
                    fs.push(J::O(vec![
                        ("name", J::S(f.ident.to_string())),
                        ("e", self.expr(f.expr, cs)),
                        ("shorthand", J::B(f.is_shorthand)),
                    ]));
                }
                o.push(("fields", J::A(fs)));
                if let hir::StructTailExpr::Base(b) = tail {
                    o.push(("base", self.expr(b, cs)));
                }
            }
            Match(scrut, arms, src) => {
                o.push(("k", J::S("Match".into())));
                o.push(("msrc", J::S(format!("{:?}", src))));
                o.push(("scrut", self.expr(scrut, cs)));
                let mut av = Vec::new();
                for a in arms.iter() {
                    let mut ao = vec![("pat", self.pat(a.pat))];
                    if let Some(g) = a.guard {
                        ao.push(("guard", self.expr(g, cs)));
                    }
                    ao.push(("body", self.expr(a.body, cs)));
                    ao.push(("l", self.cx.line(a.span)));
                    av.push(J::O(ao));
                }
                o.push(("arms", J::A(av)));
            }
            If(c, t, el) => {
                o.push(("k", J::S("If".into())));
                o.push(("cond", self.expr(c, cs)));
                o.push(("then", self.expr(t, cs)));
                if let Some(el) = el {
                    o.push(("else", self.expr(el, cs)));
                }
            }
            Let(l) => {
                o.push(("k", J::S("LetExpr".into())));
                o.push(("pat", self.pat(l.pat)));
                o.push(("init", self.expr(l.init, cs)));
            }
            Block(b, label) => {
                let mut bj = self.block(b, cs);
                if let J::O(ref mut v) = bj {
                    if let Some(lb) = label {
                        v.push(("label", J::S(lb.ident.to_string())));
                    }
                    for (k, val) in o.drain(..) {
                        v.push((k, val));
                    }
                    v.push(("t", self.cx.ty(t)));
                }
                return bj;
            }
            Loop(b, label, src, _) => {
                o.push(("k", J::S("Loop".into())));
                o.push(("lsrc", J::S(format!("{:?}", src))));
                if let Some(lb) = label {
                    o.push(("label", J::S(lb.ident.to_string())));
                }
                o.push(("body", self.block(b, cs)));
            }
            Closure(c) => {
                o.push(("k", J::S("Closure".into())));
                o.push(("def", J::S(self.cx.path(c.def_id.to_def_id()))));
                let body = self.cx.tcx.hir_body(c.body);
                let mut ps = Vec::new();
                for p in body.params {
                    ps.push(self.pat(p.pat));
                }
                o.push(("params", J::A(ps)));
                o.push(("body", self.expr(body.value, cs)));
            }
            Assign(l, r, _) => {
                o.push(("k", J::S("Assign".into())));
                o.push(("lhs", self.expr(l, cs)));
                o.push(("rhs", self.expr(r, cs)));
            }
            AssignOp(op, l, r) => {
                o.push(("k", J::S("AssignOp".into())));
                o.push(("op", J::S(format!("{:?}", op.node))));
                o.push(("lhs", self.expr(l, cs)));
                o.push(("rhs", self.expr(r, cs)));
            }
            Binary(op, l, r) => {
                o.push(("k", J::S("Binary".into())));
                o.push(("op", J::S(format!("{:?}", op.node))));
                o.push(("lhs", self.expr(l, cs)));
                o.push(("rhs", self.expr(r, cs)));
                if let Some(did) = self.tr.type_dependent_def_id(e.hir_id) {
                    o.push(("def", J::S(self.cx.path(did))));
                }
            }
            Unary(op, x) => {
                o.push(("k", J::S("Unary".into())));
                o.push(("op", J::S(format!("{:?}", op))));
                o.push(("e", self.expr(x, cs)));
            }
            AddrOf(_, m, x) => {
                o.push(("k", J::S("AddrOf".into())));
                o.push(("mut", J::B(m.is_mut())));
                o.push(("e", self.expr(x, cs)));
            }
            Cast(x, _) => {
                o.push(("k", J::S("Cast".into())));
                o.push(("e", self.expr(x, cs)));
            }
            Type(x, _) => {
                o.push(("k", J::S("Type".into())));
                o.push(("e", self.expr(x, cs)));
            }
            Field(x, ident) => {
                o.push(("k", J::S("Field".into())));
                o.push(("name", J::S(ident.to_string())));
                o.push(("e", self.expr(x, cs)));
            }
            Index(x, i, _) => {
                o.push(("k", J::S("Index".into())));
                o.push(("e", self.expr(x, cs)));
                o.push(("i", self.expr(i, cs)));
                if let Some(did) = self.tr.type_dependent_def_id(e.hir_id) {
                    o.push(("def", J::S(self.cx.path(did))));
                }
            }
            Tup(xs) => {
                o.push(("k", J::S("Tup".into())));
                o.push(("a", J::A(xs.iter().map(|a| self.expr(a, cs)).collect())));
            }
            Array(xs) => {
                o.push(("k", J::S("Array".into())));
                o.push(("a", J::A(xs.iter().map(|a| self.expr(a, cs)).collect())));
            }
            Repeat(x, _) => {
                o.push(("k", J::S("Repeat".into())));
                o.push(("e", self.expr(x, cs)));
            }
            Ret(x) => {
                o.push(("k", J::S("Ret".into())));
                if let Some(x) = x {
                    o.push(("e", self.expr(x, cs)));
                }
            }
            Break(dest, x) => {
                o.push(("k", J::S("Break".into())));
                if let Some(lb) = dest.label {
                    o.push(("label", J::S(lb.ident.to_string())));
                }
                if let Some(x) = x {
                    o.push(("e", self.expr(x, cs)));
                }
            }
            Continue(dest) => {
                o.push(("k", J::S("Continue".into())));
                if let Some(lb) = dest.label {
                    o.push(("label", J::S(lb.ident.to_string())));
                }
            }
            Use(x, _) => {
                o.push(("k", J::S("Use".into())));
                o.push(("e", self.expr(x, cs)));
            }
            Become(x) => {
                o.push(("k", J::S("Become".into())));
                o.push(("e", self.expr(x, cs)));
            }
            Yield(x, _) => {
                o.push(("k", J::S("Yield".into())));
                o.push(("e", self.expr(x, cs)));
            }
            ConstBlock(_) => o.push(("k", J::S("ConstBlock".into()))),
            InlineAsm(_) => o.push(("k", J::S("InlineAsm".into()))),
            OffsetOf(..) => o.push(("k", J::S("OffsetOf".into()))),
            other => {
                let d = format!("{:?}", other);
                o.push(("k", J::S("Other".into())));
                o.push((
                    "dbg",
                    J::S(d.split(|c| c == '(' || c == ' ').next().unwrap_or("").into()),
                ));
            }
        }
        o.push(("t", self.cx.ty(t)));
        if adj != t {
            o.push(("ta", self.cx.ty(adj)));
        }
        o.push(("l", self.cx.line(e.span)));
        J::O(o)
    }
}

fn main() -> std::process::ExitCode {
    let mut args: Vec<String> = std::env::args().collect();
    // As RUSTC_WORKSPACE_WRAPPER: argv[1] is the path of the real rustc.
    if args.len() > 1 && (args[1].ends_with("rustc") || args[1].contains("/rustc")) {
        args.remove(1);
    }
    let only = std::env::var("PENNEFACTS_CRATE").unwrap_or_else(|_| "penne".to_string());
    let mut cb = Facts { only_crate: only };
    rustc_driver::install_ice_hook("https://example.invalid", |_| ());
    rustc_driver::catch_with_exit_code(|| {
        rustc_driver::run_compiler(&args, &mut cb);
    })
}
